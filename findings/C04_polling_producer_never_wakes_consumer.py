"""A producer that only uses put_nowait() never wakes a blocked consumer (R-C04-5, producer side).

put() notifies the dequeue condition after it enqueued an element; the public
non-blocking put_nowait() does not.  A consumer blocked in get() / get_batch()
on the empty queue waits on that condition: elements enqueued with put_nowait()
pile up in the buffer and the consumer sleeps on (for ever without a timeout) —
"every produced element is received ... no interleaving leaves a consumer
blocked forever, blocking or not".  Fix 61eb96f repaired the mirror image
(get_nowait() not waking a blocked producer).

exit 0 = the blocked consumers receive what a polling producer enqueues.
"""
import os
import sys
import threading
import time

sys.path.insert(0, '/repo')
from ml_metrics._src.utils import iter_utils  # noqa: E402


def main():
  bad = 0
  for how in ('get', 'get_batch'):
    q = iter_utils.IteratorQueue(4, name=f'polling producer / {how}')
    got = []

    def consume(q=q, got=got, how=how):
      try:
        got.append(q.get() if how == 'get' else q.get_batch())
      except BaseException as e:  # pylint: disable=broad-exception-caught
        got.append(e)

    t = threading.Thread(target=consume, daemon=True)
    t.start()
    time.sleep(0.3)          # the consumer is waiting on the empty queue now
    q.put_nowait('a')
    q.put_nowait('b')
    t.join(timeout=3)
    print(f'{how}(): consumer received {got} ; still blocked 3s after two put_nowait(): {t.is_alive()}')
    bad += t.is_alive() or not got
  print('OK' if not bad else f'VIOLATION: {bad} blocked consumers were never woken although elements were enqueued')
  return 1 if bad else 0


if __name__ == '__main__':
  rc = main()
  sys.stdout.flush()
  os._exit(rc)
