"""release_all() releases a worker another pool acquired in the meantime (R-C20-12).

WorkerPool.release_all tested `worker.is_available(self)` (free, or owned by
this pool) and then called the unconditional `worker.release()`.  The test and
the release are two separate critical sections of the worker's state lock: a
worker that is FREE when pool F tests it can be acquired by pool E before F's
release() runs, and F then releases E's worker — E keeps using a worker it no
longer owns and a third pool can acquire it as well ("a pool can only release
workers it owns or that are free", "at most one pool owns a given worker").

The interleaving is forced deterministically: E acquires the worker exactly
between F's availability test and F's release.

exit 0 = E still owns its worker after F's release_all().
"""
import os
import sys

sys.path.insert(0, '/repo')
sys.path.insert(0, os.path.join(os.path.dirname(os.path.abspath(__file__)), '_support'))
import fake_courier  # noqa: E402,F401  (installs sys.modules['courier'])
from ml_metrics._src.chainables import courier_worker  # noqa: E402


def main():
  pool_f = courier_worker.WorkerPool(['race_w0'])
  pool_e = courier_worker.WorkerPool(['race_w0'])
  worker = pool_f.all_workers[0]
  assert worker is pool_e.all_workers[0], 'the two pools share the worker object'
  fired = []
  orig = courier_worker.Worker.is_available

  def is_available(self, worker_pool=None):
    result = orig(self, worker_pool)
    if worker_pool is pool_f and not fired:
      fired.append(result)
      assert self.acquire_by(pool_e), 'E acquires the free worker'
    return result

  courier_worker.Worker.is_available = is_available
  try:
    pool_f.release_all()
  finally:
    courier_worker.Worker.is_available = orig
  if not fired:
    # release_all no longer has a separate test: E acquires first, F must leave the worker alone.
    assert worker.acquire_by(pool_e)
    pool_f.release_all()
  owned = worker.is_locked(pool_e)
  print(f'F tested the worker as available: {fired}; after F.release_all() E owns its worker: {owned}')
  pool_g = courier_worker.WorkerPool(['race_w0'])
  stolen = worker.acquire_by(pool_g)
  print(f'a third pool can acquire the worker E is using: {stolen}')
  bad = (not owned) or stolen
  print('OK' if not bad else 'VIOLATION: F released a worker that E had acquired; two pools now use it')
  return 1 if bad else 0


if __name__ == '__main__':
  rc = main()
  sys.stdout.flush()
  os._exit(rc)
