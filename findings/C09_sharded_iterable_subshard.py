"""ShardedIterable.shard() of a shard is a shard of the whole source (R-C09-10).

shard() built its ShardConfig from the arguments alone and overwrote the shard
the source already was. Sub-shards (e.g. the per-thread shards that
TransformRunner takes of a distributed shard) were therefore shards of the
WHOLE iterable: ShardedIterable(range(12)).shard(1, 3).shard(0, 2) yielded
0, 2, 4, ... instead of a subset of {1, 4, 7, 10}; a pipeline run with
make(shard=(1, 3)) and num_threads=2 processed all 12 elements.

exit 0 = sub-shards partition their parent shard, exit 1 = not.
"""
import itertools
import sys

sys.path.insert(0, '/repo')
from ml_metrics._src.chainables import io  # noqa: E402


def main():
  bad = []
  for n in (0, 1, 5, 12, 13):
    for m in (1, 2, 3, 5):
      for k in (1, 2, 3):
        whole = list(range(n))
        seen = []
        for j in range(m):
          parent = io.ShardedIterable(range(n)).shard(j, m)
          pelems = list(iter(parent))
          subs = [list(iter(parent.shard(i, k))) for i in range(k)]
          flat = sorted(itertools.chain.from_iterable(subs))
          if flat != sorted(pelems):
            bad.append((n, m, k, j, pelems, subs))
          seen += flat
        if sorted(seen) != whole:
          bad.append((n, m, k, 'union', sorted(seen)))
  for b in bad[:5]:
    print('MISMATCH', b)
  print('OK' if not bad else f'{len(bad)} mismatches')
  sys.exit(1 if bad else 0)


if __name__ == '__main__':
  main()
