"""A restored chain reported the aggregate of an iterator nobody advances (R-C10-8).

_ChainedRunnerIterator.from_state restored every stage on its own. Restoring
stage k also restores a private copy of stage k-1 as its input, so the data
flowed through that copy while the iterator reported for stage k-1 stayed at
the checkpoint: for a chain whose aggregate sits in a non-last stage the
aggregate after a restore only covered the batches seen before the checkpoint
(6 batches, cut after 1: count 3 instead of 18).

exit 0 = delivered + restored batches and the final aggregate equal the
uninterrupted run for every cut position (also after two successive restores).
"""
import sys
sys.path.insert(0,'/repo')
import numpy as np
from ml_metrics._src.chainables import transform, io
from ml_metrics._src.aggregates import rolling_stats
def pipe(kind):
  ds = io.SequenceDataSource([np.arange(i*3., i*3.+3) for i in range(6)])
  if kind == 'agg-first':
    return (transform.TreeTransform.new(name='s1').data_source(ds).agg(fn=rolling_stats.MeanAndVariance(), output_keys='raw')
            .chain(transform.TreeTransform.new(name='s2').apply(fn=lambda x: x+1)))
  if kind == 'agg-both':
    return (transform.TreeTransform.new(name='s1').data_source(ds).agg(fn=rolling_stats.MeanAndVariance(), output_keys='raw')
            .chain(transform.TreeTransform.new(name='s2').apply(fn=lambda x: x+1).agg(fn=rolling_stats.MeanAndVariance(), output_keys='shifted')))
  if kind == 'three':
    return (transform.TreeTransform.new(name='s1').data_source(ds).apply(fn=lambda x: x*2)
            .chain(transform.TreeTransform.new(name='s2').agg(fn=rolling_stats.MeanAndVariance(), output_keys='mid'))
            .chain(transform.TreeTransform.new(name='s3').apply(fn=lambda x: x+1)))
  return (transform.TreeTransform.new(name='s1').data_source(ds).apply(fn=lambda x: x+1)
          .chain(transform.TreeTransform.new(name='s2').agg(fn=rolling_stats.MeanAndVariance(), output_keys='last')))
bad = 0
for kind in ('agg-first', 'agg-both', 'three', 'agg-last'):
  r = pipe(kind).make()
  full_it = r.iterate(); full = list(full_it); full_agg = full_it.agg_result
  for cut in range(0, 7):
    it = r.iterate()
    got = [next(it) for _ in range(cut)]
    it2 = it.from_state(it.state)
    # a second checkpoint/restore right away
    it3 = it2.from_state(it2.state)
    rest = list(it3)
    agg = it3.agg_result
    ok = len(got) + len(rest) == len(full) and agg is not None and set(agg) == set(full_agg) and all(
        agg[k]._count == full_agg[k]._count and abs(agg[k]._mean - full_agg[k]._mean) < 1e-9 for k in full_agg)
    if not ok:
      bad += 1
      print(kind, 'cut', cut, 'delivered', len(got), '+', len(rest), 'agg', None if agg is None else {k: int(v._count) for k, v in agg.items()},
            'expected', {k: int(v._count) for k, v in full_agg.items()})
print('OK' if not bad else f'VIOLATION: {bad} cut positions give another aggregate')
sys.exit(1 if bad else 0)
