"""A sink stays open when an operator behind it fails (R-C12-12).

Sink.iterate closes its sink in the `finally` of its own generator, which runs
only when that generator is exhausted or closed. When a LATER operator of the
chain raised, the error left through the downstream iterators and the sink
generator was merely suspended: nothing closed it, so after the pipeline had
failed the sink was still open (close() calls: 0).

source(0..7) -> sink -> apply(fails on 3). exit 0 = the sink is closed right
after the error reached the caller (and once after a normal run).
"""
import sys, threading
sys.path.insert(0,'/repo')
import logging; logging.disable(logging.CRITICAL)
from ml_metrics._src.chainables import transform, io
class S:
  def __init__(self): self.w=[]; self.closed=0
  def write(self,x): self.w.append(x)
  def close(self): self.closed+=1
def boom(x):
  if x==3: raise ValueError('boom')
  return x
bad=0
for thr in (0,):
  for case in ('error behind the sink','normal run'):
    s=S()
    t=transform.TreeTransform.new(name='p', num_threads=thr).data_source(io.SequenceDataSource(list(range(8)))).sink(s)
    t=t.apply(fn=boom if case.startswith('error') else (lambda x: x))
    it=t.make().iterate()
    got=[]; err=None
    try:
      for x in it:
        got.append(x)
        if case.startswith('abandoned') and len(got)==2:
          it.maybe_stop() if hasattr(it,'maybe_stop') else None
          break
    except Exception as e:
      err=e
    if case.startswith('abandoned'):
      del it
    ok = s.closed>=1
    print(f'threads={thr} {case}: delivered {got}, sink wrote {s.w}, close() calls right after: {s.closed}', 'ok' if ok else 'NOT CLOSED')
    bad += not ok
print('OK' if not bad else 'VIOLATION'); sys.exit(1 if bad else 0)
