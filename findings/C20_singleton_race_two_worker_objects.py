"""Two threads that build the worker of one address get two Worker objects (R-C20-14).

Ownership of a worker lives in the Worker object (its lock and owner field);
pools find "the" worker of an address through SingletonMeta, which looks the
new object up in its table and inserts it when absent — two separate steps
without a lock.  Two pools constructed at the same time in two threads both
miss and both insert: they hold distinct objects for the same server address
and can both acquire "the same worker" ("at most one pool owns a given
worker ... for all concurrent sequences ... from several pools and threads").

The interleaving is forced deterministically at the log line between the
lookup and the insertion.

exit 0 = both threads get the same object, and only one pool can own it.
"""
import os
import sys
import threading

sys.path.insert(0, '/repo')
sys.path.insert(0, os.path.join(os.path.dirname(os.path.abspath(__file__)), '_support'))
import fake_courier  # noqa: E402,F401
from ml_metrics._src.chainables import courier_worker  # noqa: E402
from ml_metrics._src.utils import func_utils  # noqa: E402


def main():
  first_in = threading.Event()
  go_on = threading.Event()
  orig_info = func_utils.logging.info
  state = {'n': 0}

  def info(*a, **k):
    # called between the failed lookup and the insertion
    if a and 'singleton' in str(a[-1]) and 'race_addr' in str(a[-1]):
      state['n'] += 1
      if state['n'] == 1:
        first_in.set()
        go_on.wait(3)
    return orig_info(*a, **k)

  func_utils.logging.info = info
  got = {}

  def build(tag):
    got[tag] = courier_worker.Worker('race_addr')

  t1 = threading.Thread(target=build, args=('t1',), daemon=True)
  t1.start()
  first_in.wait(3)
  t2 = threading.Thread(target=build, args=('t2',), daemon=True)
  t2.start()
  t2.join(2)          # with a lock t2 waits for t1 here
  go_on.set()
  t1.join(5)
  t2.join(5)
  func_utils.logging.info = orig_info
  same = got.get('t1') is got.get('t2')
  pool_a, pool_b = courier_worker.WorkerPool(['other_a']), courier_worker.WorkerPool(['other_b'])
  owned_a = got['t1'].acquire_by(pool_a)
  owned_b = got['t2'].acquire_by(pool_b)
  print(f'the two threads got the same Worker object: {same}; pool A acquired it: {owned_a}; pool B acquired it as well: {owned_b}')
  bad = (not same) or (owned_a and owned_b)
  print('OK' if not bad else 'VIOLATION: two Worker objects exist for one address, two pools own "the same worker"')
  return 1 if bad else 0


if __name__ == '__main__':
  rc = main()
  sys.stdout.flush()
  os._exit(rc)
