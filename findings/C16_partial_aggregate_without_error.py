"""The sharded run hands out a PARTIAL aggregate when a shard's state never arrives (R-C16-14).

TransformRunner/ChainedRunner.merge_states can refuse to merge fewer states than
expected (strict_states_cnt), but sharded_pipelines_as_iterator - the only
place where the expected number (num_shards) is known - calls
merge_states(<stream of states>) without it.  When one of three shards fails,
the iterator raises, yet the merge thread still merges the two states that did
arrive and puts an ordinary AggregateResult into the caller's result queue: a
partial aggregate that looks exactly like a complete one.

exit 0 = the result queue never delivers an aggregate built from fewer than
num_shards states (an error, or nothing, instead).
"""
import os
import queue
import sys
import threading
import time

sys.path.insert(0, os.path.dirname(os.path.abspath(__file__)))
sys.path.insert(0, '/repo')
from _support import fake_courier  # noqa: E402,F401
from absl import logging  # noqa: E402
import numpy as np  # noqa: E402
from ml_metrics._src.aggregates import rolling_stats  # noqa: E402
from ml_metrics._src.chainables import courier_server, courier_worker, io, orchestrate, transform  # noqa: E402

logging.set_verbosity(logging.FATAL)


def poison(x):
  if x[0] == 15:      # a batch of the middle shard
    time.sleep(1.5)   # the other two shards finish and deliver their states first
    raise ValueError('application error in one shard')
  return x


def define_pipeline(shard_index=0, num_shards=1):
  ds = io.SequenceDataSource([np.arange(i * 3., i * 3. + 3) for i in range(10)]).shard(shard_index, num_shards)
  return (transform.TreeTransform.new(name='p').data_source(ds)
          .apply(fn=poison)
          .agg(fn=rolling_stats.MeanAndVariance(), output_keys='stats'))


def main():
  servers = [courier_server.PrefetchedCourierServer(f'c16_{i}') for i in range(3)]
  for s in servers:
    s.start()
  pool = courier_worker.WorkerPool([s.address for s in servers], heartbeat_threshold_secs=20.0)
  pool.wait_until_alive(deadline_secs=20, minimum_num_workers=3)
  result_queue = queue.SimpleQueue()
  err = None
  try:
    for _ in orchestrate.sharded_pipelines_as_iterator(
        pool, define_pipeline, result_queue=result_queue, num_shards=3, retry_failures=False):
      pass
  except BaseException as e:  # pylint: disable=broad-exception-caught
    err = e
  print('iterator ended with:', type(err).__name__ if err else None, '| cause:', repr(getattr(err, '__cause__', None))[:300])
  try:
    res = result_queue.get(timeout=5)
  except queue.Empty:
    res = None
  if res is None:
    print('OK: no aggregate was delivered for the incomplete run')
    return 0
  n = None
  try:
    state = next(iter(res.agg_state.values()))
    n = int(np.sum(state._count))  # pylint: disable=protected-access
  except Exception:  # pylint: disable=broad-exception-caught
    n = 0 if not res.agg_state else None
  print(f'result queue delivered {type(res).__name__} over {n} of 30 records, agg_result={res.agg_result}, agg_state={res.agg_state}')
  if n is not None and n < 30:
    print('VIOLATION: an aggregate over fewer shard states than num_shards was delivered as the final result')
    return 1
  return 0


if __name__ == '__main__':
  threading.Timer(60, lambda: os._exit(3)).start()
  code = main()
  sys.stdout.flush()
  os._exit(code)
