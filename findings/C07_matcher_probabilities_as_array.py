"""retrieval_matcher cannot take its probabilities as a numpy array (R-C07-20).

`y_prob: NumbersT | None` is defaulted with `y_prob = y_prob or [None] * len(y_true)`:
for a numpy array with more than one element the truth test raises "truth
value of an array is ambiguous" (and an array of one zero probability would be
replaced by the default of ones).  The same rows given as nested lists work.

exit 0 = array and list encodings give the same matched probabilities.
"""
import os
import sys

sys.path.insert(0, '/repo')
import numpy as np  # noqa: E402
from ml_metrics._src.aggregates import retrieval  # noqa: E402


def main():
  y_true, y_pred, y_prob = [[1, 2], [3, 0]], [[1, 3], [3, 4]], [[0.9, 0.1], [0.8, 0.2]]
  want = retrieval.retrieval_matcher(y_true, y_pred, y_prob)
  bad = 0
  for label, args in [('arrays', (np.array(y_true), np.array(y_pred), np.array(y_prob))),
                      ('lists, probabilities as array', (y_true, y_pred, np.array(y_prob))),
                      ('one row with zero probability', ([[1]], [[1]], np.array([[0.0]])))]:
    try:
      got = retrieval.retrieval_matcher(*args)
      ref = want if len(args[0]) == 2 else retrieval.retrieval_matcher([[1]], [[1]], [[0.0]])
      ok = all(np.allclose(np.asarray(g, dtype=float), np.asarray(w, dtype=float)) for g, w in zip(got, ref))
      print(f'{label}: ' + ('same as the list encoding' if ok else f'DIFFERENT: {got} vs {ref}'))
    except Exception as e:  # pylint: disable=broad-exception-caught
      ok = False
      print(f'{label}: raised {type(e).__name__}: {str(e)[:70]}')
    bad += not ok
  print('OK' if not bad else f'VIOLATION: {bad} encodings of the same probabilities fail')
  return 1 if bad else 0


if __name__ == '__main__':
  rc = main()
  sys.stdout.flush()
  os._exit(rc)
