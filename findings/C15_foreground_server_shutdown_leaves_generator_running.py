"""A server run in the foreground (run_until_shutdown()) is not stopped by a shutdown request (R-C15-19).

_shutdown_server() stops the courier server and runs the shutdown callback
(which stops the prefetched generator) only `if self.has_started`, and
has_started also requires `self._thread is not None` — a thread only start()
creates.  A worker binary that calls run_until_shutdown() directly (its main
thread IS the serving loop) leaves that loop on a shutdown request with the
courier server still bound and serving, and with the prefetch thread still
advancing the generator: "initialising a new generator or shutting down stops
the previous one".

exit 0 = after the shutdown the courier server is stopped and the generator no longer advances.
"""
import os
import sys
import threading
import time

sys.path.insert(0, '/repo')
sys.path.insert(0, os.path.join(os.path.dirname(os.path.abspath(__file__)), '_support'))
import fake_courier  # noqa: E402,F401
from ml_metrics._src.chainables import courier_server  # noqa: E402
from ml_metrics._src.chainables import lazy_fns  # noqa: E402

PULLED = [0]


def endless():
  while True:
    PULLED[0] += 1
    yield PULLED[0]
    time.sleep(0.001)


def scenario(label, foreground):
  PULLED[0] = 0
  server = courier_server.PrefetchedCourierServer(f'c15_fg_{label}', prefetch_size=0)
  if foreground:
    loop = threading.Thread(target=server.run_until_shutdown, daemon=True)   # the "main thread" of a worker binary
    loop.start()
  else:
    loop = server.start()
  deadline = time.time() + 5
  while time.time() < deadline and not (server._server is not None and server._server.has_started):  # pylint: disable=protected-access
    time.sleep(0.01)
  raw = server._server  # pylint: disable=protected-access
  server._init_iterator(lazy_fns.trace(endless)())  # pylint: disable=protected-access
  time.sleep(0.2)
  server._request_shutdown()  # pylint: disable=protected-access
  loop.join(10)
  before = PULLED[0]
  time.sleep(0.5)
  advanced = PULLED[0] - before
  still_serving = raw.has_started
  ok = not loop.is_alive() and not still_serving and advanced == 0
  print(f'{label}: serving loop ended: {not loop.is_alive()}; courier server still started: {still_serving};'
        f' generator advanced {advanced} steps in the 0.5s after the shutdown ' + ('ok' if ok else 'VIOLATION'))
  return ok


def main():
  bad = 0
  bad += not scenario('started with start() (control)', False)
  bad += not scenario('run_until_shutdown() in the foreground', True)
  print('OK' if not bad else f'VIOLATION: {bad} servers kept serving / prefetching after their shutdown')
  return 1 if bad else 0


if __name__ == '__main__':
  rc = main()
  sys.stdout.flush()
  os._exit(rc)
