"""A pipeline whose data source is a numpy array cannot be built in AGGREGATE mode (R-C16-20).

Both distributed paths build the master-side merge runner with
`transform.make(mode=RunnerMode.AGGREGATE)`, which clears the data source with
`maybe_replace(fns=(), data_source_=None)`.  maybe_replace keeps the fields
whose value did not change: `not _eq(getattr(self, k), v)` — and
`_eq(a, b)` returns `a == b` as is.  For an ndarray data source `array ==
None` is an element-wise array and `not <array>` raises "The truth value of
an array with more than one element is ambiguous" (outside _eq's try).  The
same pipeline runs fine in one process: "produces ... the same aggregate
result as running it in one process".

exit 0 = the aggregate-mode runner is built and merges to the in-process result.
"""
import os
import sys

import numpy as np

sys.path.insert(0, '/repo')
from ml_metrics._src.aggregates import base as aggregates  # noqa: E402
from ml_metrics._src.chainables import transform  # noqa: E402


class Sum(aggregates.AggregateFn):

  def create_state(self):
    return 0

  def update_state(self, state, x):
    return state + int(np.sum(x))

  def merge_states(self, states):
    return sum(states)

  def get_result(self, state):
    return state


def main():
  bad = 0
  for label, source in [('ndarray source', np.arange(10)), ('list source (control)', list(range(10))),
                        ('2-d ndarray source', np.arange(12).reshape(4, 3))]:
    p = transform.TreeTransform().data_source(source).agg(Sum(), output_keys='s')
    it = p.make().iterate()
    for _ in it:
      pass
    in_process = dict(it.agg_result)
    try:
      merger = p.make(mode=transform.RunnerMode.AGGREGATE)
      state = it.agg_state
      merged = dict(merger.get_result(merger.merge_states([state])))
      ok = merged == in_process
      print(f'{label}: in process {in_process}; aggregate-mode merge {merged} ' + ('ok' if ok else 'VIOLATION'))
    except Exception as e:  # pylint: disable=broad-exception-caught
      ok = False
      print(f'{label}: in process {in_process}; aggregate mode RAISES {type(e).__name__}: {str(e)[:70]} VIOLATION')
    bad += not ok
  print('OK' if not bad else f'VIOLATION: {bad} pipelines cannot be merged on the master')
  return 1 if bad else 0


if __name__ == '__main__':
  rc = main()
  sys.stdout.flush()
  os._exit(rc)
