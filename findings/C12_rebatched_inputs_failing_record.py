"""Error skipping loses the tail when the operator re-batches its inputs (R-C12-2).

TreeFn._iterate draws the inputs of its error-skipping map from
rebatched_args(...) when fn_batch_size is set. rebatched_args is a generator:
an error raised while producing an INPUT (an unreadable data-source record)
travels through it and finishes it, so every record after the failing one is
silently lost although iterate(ignore_error=True) was requested. Without
fn_batch_size the inputs come from a plain map object and only the failing
record is dropped.

exit 0 = only the unreadable record is missing, exit 1 = the tail is lost.
"""
import sys
sys.path.insert(0, '/repo')
import logging; logging.disable(logging.CRITICAL)
from ml_metrics._src.chainables import io, transform


class Records:
  def __init__(self, n, bad): self.n, self.bad = n, bad
  def __len__(self): return self.n
  def __getitem__(self, i):
    if isinstance(i, slice):
      r = range(*i.indices(self.n))
      if any(j in self.bad for j in r): raise ValueError(f'unreadable record in {r}')
      return [[j] for j in r]
    if i in self.bad: raise ValueError(f'unreadable record {i}')
    return [i]


def run(fn_batch_size):
  t = transform.TreeTransform.new(name='p').data_source(io.SequenceDataSource(Records(8, {2})))
  kw = dict(fn_batch_size=fn_batch_size, batch_size=1) if fn_batch_size else {}
  t = t.apply(fn=lambda x: x, **kw)
  out = []
  for b in t.make().iterate(ignore_error=True):
    out += list(b)
  return out

want = [0, 1, 3, 4, 5, 6, 7]
ok = True
for fbs in (0, 2):
  got = run(fbs)
  good = got == want
  print(f'fn_batch_size={fbs}: delivered {got}', 'ok' if good else f'TAIL LOST (expected {want})')
  ok &= good
sys.exit(0 if ok else 1)
