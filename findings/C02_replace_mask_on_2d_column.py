"""A slice mask that REPLACES (instead of filtering) masks the columns of a 2-D input (R-C02-16).

apply_mask has two modes for a boolean row mask over an array column: filtering
(`items[masks]`: along the leading, row axis) and replacing
(`np.where(masks, items, value)`).  np.where broadcasts the 1-D row mask against
the LAST axis: for a 2-D column (n rows, m features) it masks feature columns
when n == m and raises a broadcast error otherwise.  A sliced aggregate with
`replace_mask_false_with` then reports values of the wrong rows.

exit 0 = both modes select the rows of the slice.
"""
import os
import sys

sys.path.insert(0, '/repo')
import numpy as np  # noqa: E402
from ml_metrics._src.chainables import transform  # noqa: E402
from ml_metrics._src.chainables import tree  # noqa: E402


def main():
  bad = 0
  mask = np.array([True, False, False])
  for shape in [(3, 3), (3, 2), (3,), (3, 2, 2)]:
    x = np.arange(int(np.prod(shape))).reshape(shape)
    want = x.copy()
    want[~mask] = 0
    try:
      got = tree.apply_mask(x, masks=mask, replace_false_with=0)
      ok = np.array_equal(got, want)
      print(f'apply_mask on shape {shape}: ' + ('rows replaced ok' if ok else f'WRONG\n{got}\nexpected\n{want}'))
    except Exception as e:  # pylint: disable=broad-exception-caught
      ok = False
      print(f'apply_mask on shape {shape}: raised {type(e).__name__}: {str(e)[:70]}')
    bad += not ok
  # through a pipeline: sum of the rows of the slice
  batch = {'a': np.array([1, 2, 2]), 'x': np.arange(9).reshape(3, 3)}
  p = (transform.TreeTransform().agg(fn=_Sum(), input_keys='x', output_keys='s')
       .add_slice('a', replace_mask_false_with=0))
  res = p.make()(input_iterator=[batch]) if False else p.make().iterate([batch]).agg_result if False else None
  try:
    it = p.make().iterate([batch])
    for _ in it:
      pass
    res = it.agg_result
    by_slice = {str(k): float(v) for k, v in res.items()}
    want = {'s': 36.0, 'a=1': 3.0, 'a=2': 33.0}
    got = {('s' if 'slice' not in str(k).lower() and '=' not in str(k) else str(k)): float(v) for k, v in res.items()}
    vals = sorted(float(v) for v in res.values())
    ok = vals == sorted(want.values())
    print(f'pipeline sums per slice: {sorted(vals)} ' + ('ok' if ok else f'WRONG, expected {sorted(want.values())}'))
  except Exception as e:  # pylint: disable=broad-exception-caught
    ok = False
    print(f'pipeline: raised {type(e).__name__}: {str(e)[:80]}')
  bad += not ok
  print('OK' if not bad else f'VIOLATION: {bad} replace-mode maskings do not select the rows of the slice')
  return 1 if bad else 0


class _Sum:
  def create_state(self):
    return 0.0

  def update_state(self, state, x):
    return state + float(np.sum(x))

  def merge_states(self, states):
    return sum(states)

  def get_result(self, state):
    return state


if __name__ == '__main__':
  rc = main()
  sys.stdout.flush()
  os._exit(rc)
