"""A producer failure whose type is queue.Empty is taken for "buffer empty" (R-C05-11).

get_nowait() re-raises the recorded producer failure when the queue is
exhausted.  get() and get_batch() wrap get_nowait() in
`except (queue.Empty, asyncio.QueueEmpty)` — the buffer's "nothing there"
signal — and wait / retry in that handler.  When the producer's iterator
itself failed with queue.Empty (a source built on another queue, say), the
recorded failure is caught by that very handler: get() waits for its timeout
(for ever without one) and get_batch() spins — the consumer never observes the
producer's exception.

exit 0 = the consumers see the producer's exception.
"""
import logging
import os
import queue
import sys
import threading
import time

sys.path.insert(0, '/repo')
logging.disable(logging.CRITICAL)
from absl import logging as absl_logging  # noqa: E402
absl_logging.set_verbosity(absl_logging.FATAL)
from ml_metrics._src.utils import iter_utils  # noqa: E402


def source():
  yield 0
  raise queue.Empty('the upstream queue ran dry')


def run(how):
  q = iter_utils.IteratorQueue(2, timeout=2, name=how)
  t = threading.Thread(target=_swallow, args=(q.enqueue_from_iterator, source()), daemon=True)
  t.start()
  t.join(5)
  got, seen = [], []

  def consume():
    try:
      while True:
        if how == 'get':
          got.append(q.get())
        else:
          got.extend(q.get_batch())
    except BaseException as e:  # pylint: disable=broad-exception-caught
      seen.append(e)

  c = threading.Thread(target=consume, daemon=True)
  t0 = time.time()
  c.start()
  c.join(6)
  what = repr(seen[0]) if seen else ('STILL RUNNING after 6s' if c.is_alive() else 'nothing')
  ok = bool(seen) and isinstance(seen[0], queue.Empty)
  print(f'{how}: received {got}, then {what} after {time.time() - t0:.1f}s (recorded failure: {q.exception!r})')
  return ok


def _swallow(fn, *a):
  try:
    fn(*a)
  except BaseException:  # pylint: disable=broad-exception-caught
    pass


def main():
  bad = [how for how in ('get', 'get_batch') if not run(how)]
  print('OK' if not bad else f'VIOLATION: the consumers using {bad} never observe the producer\'s exception')
  return 1 if bad else 0


if __name__ == '__main__':
  rc = main()
  sys.stdout.flush()
  os._exit(rc)
