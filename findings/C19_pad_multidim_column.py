"""_pad widens every row of a multi-dimensional column (R-C19-6).

`np.pad(data, (0, k))` applies the flat (before, after) width to EVERY axis.
Padding the last batch of a 2-D column (n rows x d features) to the batch size
therefore also appends k pad values to every row: shape (n, d) became
(batch, d + k) instead of (batch, d).

exit 0 = padding only appends rows, exit 1 = not.
"""
import sys

import numpy as np

sys.path.insert(0, '/repo')
from ml_metrics._src.utils import iter_utils  # noqa: E402


def main():
  cols = [(np.arange(6).reshape(3, 2), np.arange(3)),
          (np.arange(6, 10).reshape(2, 2), np.arange(3, 5))]
  out = list(iter_utils.rebatched_args(iter(cols), 4, num_columns=2, pad=-1))
  shapes = [[np.asarray(c).shape for c in b] for b in out]
  print('emitted shapes', shapes)
  want = [[(4, 2), (4,)], [(4, 2), (4,)]]
  rows = np.concatenate([b[0] for b in out])[:5]
  ok = shapes == want and (rows == np.arange(10).reshape(5, 2)).all() and (out[-1][0][1:] == -1).all()
  print('OK' if ok else f'VIOLATION: expected {want}')
  sys.exit(0 if ok else 1)


if __name__ == '__main__':
  main()
