"""Key.SKIP is tracked as if it were an output key; a key repeated within one assign is accepted (R-C08-24).

(a) `assign(('x', Key.SKIP), ...)` followed by `assign(('y', Key.SKIP), ...)`
is rejected at build with "Duplicate output_keys: {SKIP}" — SKIP is the
"write this output nowhere" placeholder, not a key: a valid pipeline is
refused.  (b) `apply(output_keys=(Key.SKIP, 'y')).batch(2)` builds and then
fails at RUN time with KeyError(Reserved('SKIP')): batch() reads the tracked
output keys of the stage.  (c) `assign(('x', 'x'), fn=lambda a: (a, a + 1))`
is accepted and silently keeps the second value — "invalid key/argument
combinations are rejected at build, not silently mis-routed at run time".

exit 0 = (a) builds and routes, (b) runs, (c) is rejected at build.
"""
import os
import sys

sys.path.insert(0, '/repo')
from ml_metrics._src.chainables import transform  # noqa: E402
from ml_metrics._src.chainables import tree  # noqa: E402

T = transform.TreeTransform
Key = tree.Key


def outcome(f):
  try:
    return ('ok', f())
  except Exception as e:  # pylint: disable=broad-exception-caught
    return (type(e).__name__, str(e)[:70])


def main():
  bad = 0
  two = lambda a: (a + 1, 'dropped')
  a = outcome(lambda: list(T().assign(('x', Key.SKIP), fn=two, input_keys='a').assign(('y', Key.SKIP), fn=two, input_keys='a')
                           .make().iterate([{'a': 1}, {'a': 5}])))
  ok = a == ('ok', [{'a': 1, 'x': 2, 'y': 2}, {'a': 5, 'x': 6, 'y': 6}])
  print('(a) two assigns that each skip an output:', a, 'ok' if ok else 'VIOLATION')
  bad += not ok
  b = outcome(lambda: list(T().apply(fn=lambda a: (a, a * 10), input_keys='a', output_keys=(Key.SKIP, 'y')).batch(2)
                           .make().iterate([{'a': 1}, {'a': 2}, {'a': 3}])))
  ok = b[0] == 'ok'
  print('(b) skipped output followed by batch():', b, 'ok' if ok else 'VIOLATION')
  bad += not ok
  c = outcome(lambda: T().assign(('x', 'x'), fn=lambda a: (a, a + 1), input_keys='a'))
  ok = c[0] != 'ok'
  print('(c) one key twice in one assign:', (c[0], c[1] if c[0] != 'ok' else 'accepted'), 'ok' if ok else 'VIOLATION')
  bad += not ok
  d = outcome(lambda: T().assign('x', fn=lambda a: a, input_keys='a').assign('x', fn=lambda a: a, input_keys='a'))
  ok = d[0] != 'ok'
  print('(d) control, same key in two assigns:', (d[0],), 'ok' if ok else 'VIOLATION')
  bad += not ok
  print('OK' if not bad else f'VIOLATION: {bad} key combinations are mis-judged at build')
  return 1 if bad else 0


if __name__ == '__main__':
  rc = main()
  sys.stdout.flush()
  os._exit(rc)
