"""A chain of named stages cannot be run over shards (R-C03-8).

TreeTransform.make(shard=...) passed the shard configuration to
TransformRunner.from_transform for EVERY flattened stage; stages after the
first have no data source and from_transform raises TypeError('Data source is
not configurable ...') for them. The fused pipeline shards fine.

exit 0 = the shards of the chained pipeline together equal the whole run.
"""
import sys

sys.path.insert(0, '/repo')
from ml_metrics._src.chainables import io  # noqa: E402
from ml_metrics._src.chainables import transform  # noqa: E402


def chain():
  ds = io.SequenceDataSource(list(range(12)))
  return (transform.TreeTransform.new(name='s1').data_source(ds).apply(fn=lambda x: x + 1)
          .chain(transform.TreeTransform.new(name='s2').apply(fn=lambda x: x * 2)))


def main():
  whole = list(chain().make().iterate())
  try:
    parts = [list(chain().make(shard=io.ShardConfig(i, 3)).iterate()) for i in range(3)]
  except Exception as e:  # pylint: disable=broad-exception-caught
    print('VIOLATION: make(shard=...) on a chained pipeline raised', type(e).__name__, str(e)[:80])
    sys.exit(1)
  ok = sorted(sum(parts, [])) == sorted(whole)
  print('whole', whole, 'shards', parts, '->', 'OK' if ok else 'VIOLATION')
  sys.exit(0 if ok else 1)


if __name__ == '__main__':
  main()
