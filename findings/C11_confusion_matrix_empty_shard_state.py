"""ConfusionMatrixAggFn.merge_states cannot merge the state of an empty shard (R-C11-12).

ConfusionMatrixAggFn keeps the base create_state(): the empty state is None,
and update_state treats None as "nothing yet".  merge_states folds the states
with `result += accumulator` without that convention: a shard that saw no batch
contributes None and the merge raises TypeError — on the left
(None += matrix) as on the right (matrix += None).  "A freshly created (empty)
state is a neutral element on either side."

exit 0 = merging with empty states gives the state of the non-empty ones.
"""
import os
import sys
import warnings

sys.path.insert(0, '/repo')
import numpy as np  # noqa: E402
from ml_metrics._src.aggregates import classification  # noqa: E402

warnings.simplefilter('ignore')


def main():
  bad = 0
  fn = classification.ConfusionMatrixAggFn(metrics=['precision', 'recall'])
  a = fn.update_state(fn.create_state(), np.array([1, 0, 1, 1]), np.array([1, 1, 0, 1]))
  b = fn.update_state(fn.create_state(), np.array([0, 0, 1]), np.array([0, 1, 1]))
  want = fn.get_result(fn.merge_states([fn.update_state(fn.create_state(), np.array([1, 0, 1, 1]), np.array([1, 1, 0, 1])),
                                        fn.update_state(fn.create_state(), np.array([0, 0, 1]), np.array([0, 1, 1]))]))
  import copy
  for label, states in [('empty on the left', lambda: [fn.create_state(), copy.deepcopy(a), copy.deepcopy(b)]),
                        ('empty in the middle', lambda: [copy.deepcopy(a), fn.create_state(), copy.deepcopy(b)]),
                        ('empty on the right', lambda: [copy.deepcopy(a), copy.deepcopy(b), fn.create_state()]),
                        ('only empty states', lambda: [fn.create_state(), fn.create_state()])]:
    try:
      merged = fn.merge_states(states())
      if label == 'only empty states':
        ok = merged is None
        print(f'{label}: merged state {merged!r} ' + ('ok' if ok else 'WRONG, expected the empty state'))
      else:
        got = fn.get_result(merged)
        ok = all(np.allclose(got[k], want[k]) for k in want)
        print(f'{label}: {got} ' + ('ok' if ok else f'WRONG, expected {want}'))
    except Exception as e:  # pylint: disable=broad-exception-caught
      ok = False
      print(f'{label}: raised {type(e).__name__}: {str(e)[:80]}')
    bad += not ok
  print('OK' if not bad else f'VIOLATION: {bad} merges with an empty shard state fail')
  return 1 if bad else 0


if __name__ == '__main__':
  rc = main()
  sys.stdout.flush()
  os._exit(rc)
