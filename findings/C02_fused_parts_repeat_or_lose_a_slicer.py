"""Fusing same-named pipeline parts runs a repeated slicer twice and drops a slicer-only part (R-C02-21).

chain() fuses two TreeTransforms of the same name into one stage:
fns + fns, agg_fns + agg_fns, slicers + slicers.  It checks the aggregate
output keys of the two parts for duplicates (as aggregate() does) but not the
slice names (as add_slice() does): both parts slicing by 'a' gives a stage
with the slicer TWICE, and every slice aggregate is fed each row twice
(a=1 -> 12 instead of 6).  And a part that only adds a slicer counts as a
no-op (is_noop looks at fns/aggregates only) and is dropped by the fuse: its
slice keys are never reported.  "for every slice key it reports exactly the
aggregate over the rows belonging to that slice ... no slice key is dropped".

exit 0 = fused pipelines report what the single declaration reports (or reject the duplicate).
"""
import os
import sys

import numpy as np

sys.path.insert(0, '/repo')
from ml_metrics._src.aggregates import base as aggregates  # noqa: E402
from ml_metrics._src.chainables import transform  # noqa: E402

T = transform.TreeTransform


class Sum(aggregates.AggregateFn):

  def create_state(self):
    return 0

  def update_state(self, state, x):
    return state + int(np.sum(x))

  def get_result(self, state):
    return state


BATCHES = [{'a': [1, 2, 1], 'b': [1, 9, 5]}, {'a': [3, 3], 'b': [4, 6]}, {'a': [2], 'b': [7]}]


def run(p):
  return {str(k): v for k, v in p.make()(input_iterator=BATCHES).items()}


def main():
  bad = 0
  single = run(T().agg(Sum(), input_keys='b', output_keys='s').add_slice('a'))
  print('one declaration        :', single)
  # a slicer-only part fused in
  try:
    got = run(T().agg(Sum(), input_keys='b', output_keys='s').chain(T().add_slice('a')))
    ok = got == single
    print('agg part + slicer part :', got, 'ok' if ok else 'VIOLATION (slice keys dropped)')
  except Exception as e:  # pylint: disable=broad-exception-caught
    ok = False
    print('agg part + slicer part : RAISES', type(e).__name__, str(e)[:80], 'VIOLATION')
  bad += not ok
  # the same slicer in both parts
  try:
    got = run(T().agg(Sum(), input_keys='b', output_keys='s').add_slice('a').chain(
        T().agg(Sum(), input_keys='b', output_keys='s2').add_slice('a')))
    ok = all(got.get(k) == v for k, v in single.items())
    print('both parts slice by a  :', got, 'ok' if ok else 'VIOLATION (rows counted twice)')
  except ValueError as e:
    ok = 'uplicate' in str(e)
    print('both parts slice by a  : rejected:', str(e)[:80], 'ok' if ok else 'VIOLATION')
  bad += not ok
  print('OK' if not bad else f'VIOLATION: {bad} fused pipelines report other slice aggregates than the single declaration')
  return 1 if bad else 0


if __name__ == '__main__':
  rc = main()
  sys.stdout.flush()
  os._exit(rc)
