"""A falsy key (Index(0), 0, '') given as output key is silently replaced (R-C08-18).

TreeTransform.select defaults `output_keys` with `output_keys or input_keys`,
TreeTransform.assign its keys with `assign_keys or output_keys`.  Key.Index(0)
(an int subclass), the plain dict key 0 and the key '' are falsy: select routes
the value under the INPUT key instead ({'a': v} where [v] / {0: v} was asked
for — silently mis-routed), assign rejects the valid key with "Assign should
have output_keys".

exit 0 = the operators route to the key they were given.
"""
import os
import sys

sys.path.insert(0, '/repo')
from ml_metrics._src.chainables import transform  # noqa: E402
from ml_metrics._src.chainables import tree  # noqa: E402


def run(p, records):
  return list(p.make().iterate(records))


def main():
  bad = 0
  recs = [{'a': 1, 'b': 2}, {'a': 3, 'b': 4}]
  cases = [
      ('select("a", output_keys=Index(0))', lambda: run(transform.TreeTransform().select('a', output_keys=tree.Key.Index(0)), recs),
       [[1], [3]]),
      ('select("a", output_keys=0)', lambda: run(transform.TreeTransform().select('a', output_keys=0), recs), [{0: 1}, {0: 3}]),
      ('select("a", output_keys="")', lambda: run(transform.TreeTransform().select('a', output_keys=''), recs), [{'': 1}, {'': 3}]),
      ('assign(0, fn=neg, input_keys="a")',
       lambda: run(transform.TreeTransform().assign(0, fn=lambda x: -x, input_keys='a'), recs),
       [{'a': 1, 'b': 2, 0: -1}, {'a': 3, 'b': 4, 0: -3}]),
      ('control: select("a", output_keys="x")', lambda: run(transform.TreeTransform().select('a', output_keys='x'), recs),
       [{'x': 1}, {'x': 3}]),
  ]
  for label, fn, want in cases:
    try:
      got = fn()
    except Exception as e:  # pylint: disable=broad-exception-caught
      got = f'raised {type(e).__name__}: {str(e)[:60]}'
    ok = got == want
    print(f'{label}: {got} ' + ('ok' if ok else f'WRONG, expected {want}'))
    bad += not ok
  print('OK' if not bad else f'VIOLATION: {bad} operators did not route to the key they were given')
  return 1 if bad else 0


if __name__ == '__main__':
  rc = main()
  sys.stdout.flush()
  os._exit(rc)
