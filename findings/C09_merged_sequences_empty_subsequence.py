"""MergedSequences indexing fails behind an empty sub-sequence (R-C09-8).

`_index` locates an element with bisect_left over the table of sub-sequence
start offsets ([0] + running sums of lengths). With an empty sub-sequence two
entries of the table are equal and bisect_left returns the FIRST of them, i.e.
the empty sub-sequence, so the first element of the following sub-sequence
cannot be indexed: MergedSequences([[], [1, 2]])[0] raises IndexError, and so
does SequenceDataSource.from_sequences([[1], [], [2, 3]])[1]-style access and
any negative index that lands there. Iteration is not affected.

Slicing (R-C09-9): the raw bounds of a slice were looked up as positions, so
negative bounds beyond the length and reversed bounds yielded elements where
the concatenation has none ([[1, 2], [3]][-1:0] gave [3]).

exit 0 = indexes like the concatenation, exit 1 = not.
"""
import itertools
import sys

sys.path.insert(0, '/repo')
from ml_metrics._src.utils import iter_utils  # noqa: E402


def main():
  bad = []
  for seqs in ([[1, 2], [3]], [[], [1, 2]], [[1], [], [2, 3]], [[1, 2], []], [[], [], [5]],
               [[1], [], [], [2]], [[], []]):
    ms = iter_utils.MergedSequences(seqs)
    cat = list(itertools.chain.from_iterable(seqs))
    for i in list(range(len(cat))) + [-j - 1 for j in range(len(cat))]:
      try:
        got = ms[i]
      except Exception as e:  # pylint: disable=broad-exception-caught
        got = repr(e)
      if got != cat[i]:
        bad.append((seqs, i, got, cat[i]))
    n = len(cat)
    bounds = list(range(-n - 2, n + 3)) + [None]
    for a in bounds:
      for b in bounds:
        try:
          got = list(ms[a:b])
        except Exception as e:  # pylint: disable=broad-exception-caught
          got = repr(e)
        if got != cat[a:b]:
          bad.append((seqs, (a, b), got, cat[a:b]))
    if list(ms) != cat or len(ms) != len(cat):
      bad.append((seqs, 'iter/len'))
  for b in bad[:8]:
    print('MISMATCH', b)
  print('OK' if not bad else f'{len(bad)} mismatches')
  sys.exit(1 if bad else 0)


if __name__ == '__main__':
  main()
