"""Two overlapping init_generator requests leave the first new generator running (R-C15-16).

_init_iterator stopped the previous generator (_stop_prefetch, which takes and
releases the generator lock) and only THEN took the generator lock to build and
install the new one.  A second init request that arrives while the first is
still constructing its generator (a retry after a client-side timeout, say)
finds the OLD generator already stopped, waits for the lock, and then simply
overwrites the generator the first request has just installed: that generator
is never stopped — its prefetch thread keeps pulling from it until the prefetch
queue is full and then stays blocked in put() for good ("initialising a new
generator ... stops the previous one").

exit 0 = after both requests returned exactly one prefetch thread is alive.
"""
import os
import sys
import threading
import time

sys.path.insert(0, '/repo')
sys.path.insert(0, os.path.join(os.path.dirname(os.path.abspath(__file__)), '_support'))
import fake_courier  # noqa: E402,F401
from ml_metrics._src.chainables import courier_server  # noqa: E402
from ml_metrics._src.chainables import lazy_fns  # noqa: E402

PULLED = {'A': 0, 'B': 0}
SLOW = threading.Event()


def make_gen(tag, slow):
  if slow:
    SLOW.set()
    time.sleep(0.6)          # a slow construction: the second request arrives meanwhile

  def gen():
    i = 0
    while True:
      PULLED[tag] += 1
      yield (tag, i)
      i += 1
  return gen()


def main():
  server = courier_server.PrefetchedCourierServer('c15_concurrent_init', prefetch_size=2)
  before = set(threading.enumerate())
  a = threading.Thread(target=server._init_iterator, args=(lazy_fns.trace(make_gen)('A', True),), daemon=True)  # pylint: disable=protected-access
  a.start()
  SLOW.wait(5)
  b = threading.Thread(target=server._init_iterator, args=(lazy_fns.trace(make_gen)('B', False),), daemon=True)  # pylint: disable=protected-access
  b.start()
  a.join(10)
  b.join(10)
  time.sleep(0.5)
  alive = [t for t in set(threading.enumerate()) - before if t.is_alive()]
  current = server._generator  # pylint: disable=protected-access
  first = current.get_batch(1, block=True)
  print(f'both init requests returned; prefetch threads alive: {len(alive)}; elements pulled from A: {PULLED["A"]}, from B: {PULLED["B"]};'
        f' the installed generator delivers {first}')
  bad = len(alive) != 1
  print('OK' if not bad else
        'VIOLATION: the generator installed by the first request was overwritten without being stopped: its prefetch thread is'
        ' blocked in put() for good')
  return 1 if bad else 0


if __name__ == '__main__':
  rc = main()
  sys.stdout.flush()
  os._exit(rc)
