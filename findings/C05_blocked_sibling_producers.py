import sys, types, threading, time
# courier is not importable here; iter_utils does not need it
from ml_metrics._src.utils import iter_utils

def run():
    q = iter_utils.IteratorQueue(1, max_enqueuer=3)
    def good():
        for i in range(100):
            yield i
    def bad():
        time.sleep(0.2)
        raise RuntimeError('boom')
        yield
    ts = [threading.Thread(target=lambda it=it: _safe(q, it), daemon=True)
          for it in (good(), good(), bad())]
    for t in ts: t.start()
    time.sleep(0.6)
    # consumer drains until it sees the error
    got = []
    try:
        while True:
            got.append(q.get())
    except Exception as e:
        print('consumer saw', type(e).__name__, e, 'after', len(got))
    time.sleep(1.0)
    alive = [t.is_alive() for t in ts]
    print('producer threads alive after failure:', alive)
    return any(alive)

def _safe(q, it):
    try:
        q.enqueue_from_iterator(it)
    except Exception:
        pass

if __name__ == '__main__':
    hung = run()
    print('HANG' if hung else 'OK')
    sys.exit(1 if hung else 0)
