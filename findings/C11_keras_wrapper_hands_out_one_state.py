"""KerasAggregateFn.create_state() returns the SAME metric object on every call (R-C11-20, known finding).

The wrapper keeps one wrapped metric and `create_state()` resets and returns
it.  Two shard states created from one aggregate function are one object:
creating the second shard's state WIPES the first shard's data (reset_state),
updating it changes "both", and merge_states([s1, s2]) merges the object into
itself — "a freshly created (empty) state is a neutral element ... later
updates do not leak".  (Shown with a duck-typed metric; the wrapper only
requires update_state / reset_state / merge_state / result.)

exit 0 = two created states are independent.  (Exit 1 on today's tree: recorded as a known finding.)
"""
import os
import sys

sys.path.insert(0, '/repo')
from ml_metrics._src.aggregates import keras_metric_wrapper  # noqa: E402


class SumMetric:
  def __init__(self):
    self.total = 0
  def reset_state(self):
    self.total = 0
  def update_state(self, xs):
    self.total += sum(xs)
  def merge_state(self, others):
    for o in others:
      self.total += o.total
  def result(self):
    return self.total


def main():
  fn = keras_metric_wrapper.KerasAggregateFn(SumMetric())
  s1 = fn.update_state(fn.create_state(), [1, 2, 3])
  before = fn.get_result(s1)
  s2 = fn.create_state()
  after_create = fn.get_result(s1)
  s2 = fn.update_state(s2, [10])
  after_update = fn.get_result(s1)
  merged = fn.get_result(fn.merge_states([s1, s2]))
  print(f'shard 1 after its batch: {before}; after create_state() for shard 2: {after_create}; after shard 2 saw [10]: {after_update};'
        f' merged: {merged} (expected 6, 6, 6, 16); same object: {s1 is s2}')
  ok = (before, after_create, after_update, merged) == (6, 6, 6, 16)
  print('OK' if ok else 'VIOLATION: the states of two shards are one object')
  return 0 if ok else 1


if __name__ == '__main__':
  rc = main()
  sys.stdout.flush()
  os._exit(rc)
