"""An empty stream makes re-batching and the one-shot runner raise (R-C19-8 / R-C02-17).

rebatched_args infers the number of columns from `mit.first(tuples)` and
ChainedRunner.__call__ takes `mit.last(<iterator>)`: both raise ValueError
("first()/last() was called on an empty iterable") for an empty stream instead
of emitting nothing / returning the aggregate of nothing ("for all ... batched
input streams including empty streams", "(incl. ... empty stream)").

exit 0 = an empty stream gives an empty result.
"""
import os
import sys

sys.path.insert(0, '/repo')
from ml_metrics._src.chainables import transform  # noqa: E402
from ml_metrics._src.utils import iter_utils  # noqa: E402


class _Sum:
  def create_state(self):
    return 0

  def update_state(self, state, x):
    return state + sum(x)

  def merge_states(self, states):
    return sum(states)

  def get_result(self, state):
    return state


def main():
  bad = 0
  for label, fn, want in [
      ('list(rebatched_args(iter([]), 2))', lambda: list(iter_utils.rebatched_args(iter([]), 2)), []),
      ('list(rebatched_args(iter([]), 2, num_columns=2))', lambda: list(iter_utils.rebatched_args(iter([]), 2, num_columns=2)), []),
      ('aggregate pipeline called on an empty source',
       lambda: transform.TreeTransform().data_source([]).agg(fn=_Sum(), output_keys='s').make()(), {'s': 0}),
      ('the same through iterate().agg_result',
       lambda: _drain(transform.TreeTransform().data_source([]).agg(fn=_Sum(), output_keys='s').make().iterate()), {'s': 0}),
  ]:
    try:
      got = fn()
      ok = got == want
      print(f'{label}: {got!r} ' + ('ok' if ok else f'WRONG, expected {want!r}'))
    except Exception as e:  # pylint: disable=broad-exception-caught
      ok = False
      print(f'{label}: raised {type(e).__name__}: {str(e)[:70]}')
    bad += not ok
  print('OK' if not bad else f'VIOLATION: {bad} uses of an empty stream raise')
  return 1 if bad else 0


def _drain(it):
  for _ in it:
    pass
  return it.agg_result


if __name__ == '__main__':
  rc = main()
  sys.stdout.flush()
  os._exit(rc)
