"""Matthews correlation coefficient overflows int64 for ordinary data sizes (R-C07-18).

_matthews_correlation_coefficient multiplied four integer counts:
(tp+fp)(tp+fn)(tn+fp)(tn+fn).  The counts are int64, so the product wraps
around as soon as the cells hold about 55 000 examples each (a few hundred
thousand examples in total): the denominator becomes negative (ValueError
"Attempt to take sqrt of negative value") or a wrong positive number (a
coefficient that is not the definition's and may leave [-1, 1]).

exit 0 = MCC equals the textbook value computed in floating point.
"""
import math
import sys
import warnings

sys.path.insert(0, '/repo')
import numpy as np  # noqa: E402
from ml_metrics._src.aggregates import classification  # noqa: E402

warnings.simplefilter('ignore')
MCC = classification.ConfusionMatrixMetric.MATTHEWS_CORRELATION_COEFFICIENT


def data(tp, tn, fp, fn):
  y_true = np.r_[np.ones(tp), np.zeros(tn), np.zeros(fp), np.ones(fn)].astype(int)
  y_pred = np.r_[np.ones(tp), np.zeros(tn), np.ones(fp), np.zeros(fn)].astype(int)
  return y_true, y_pred


def main():
  bad = 0
  for tp, tn, fp, fn in [(50, 40, 7, 3), (60000, 60000, 30000, 90000), (200000, 150000, 70000, 80000),
                         (70000, 70000, 50000, 50000)]:
    want = (tp * tn - fp * fn) / math.sqrt(float(tp + fp) * (tp + fn) * (tn + fp) * (tn + fn))
    fn_ = classification.ConfusionMatrixAggFn(metrics=[MCC])
    try:
      got = float(np.asarray(fn_(*data(tp, tn, fp, fn))[MCC]).ravel()[0])
      ok = abs(got - want) < 1e-9
      print(f'cells {(tp, tn, fp, fn)}: MCC={got!r} textbook={want!r} ' + ('ok' if ok else 'DIFFERENT'))
    except Exception as e:  # pylint: disable=broad-exception-caught
      ok = False
      print(f'cells {(tp, tn, fp, fn)}: raised {type(e).__name__}: {str(e)[:70]} (textbook {want!r})')
    bad += not ok
  print('OK' if not bad else f'VIOLATION: {bad} data sets do not get the textbook MCC')
  return 1 if bad else 0


if __name__ == '__main__':
  sys.exit(main())
