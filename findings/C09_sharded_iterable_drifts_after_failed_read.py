"""Shards of a ShardedIterable drift apart after a failed read (R-C10-11, DataIterator).

DataIterator assigns element i of the underlying iterable to shard i % K by
counting what it drew.  When a draw RAISES (an unreadable record of a
continuable source — SequenceDataSource steps over such a record and goes on)
the count was not advanced, although the source had moved on: every later
element is attributed to the previous index.  The shards then overlap and miss
elements (shard 0 reads [0, E, 3, 5, 7] and shard 1 [1, E, 4, 6]: 2 raised, 3
is delivered by shard 0 and never by shard 1 ...), and a checkpoint taken after
the failure restores one element too early.  Fix dbe5cca repaired the same gap
in SequenceIterator only.

exit 0 = apart from the failing index every index is delivered by exactly its shard.
"""
import os
import sys

sys.path.insert(0, '/repo')
from ml_metrics._src.chainables import io  # noqa: E402


class Seq:
  def __init__(self, n, bad):
    self.n, self.bad = n, set(bad)

  def __len__(self):
    return self.n

  def __getitem__(self, i):
    if isinstance(i, slice):
      raise TypeError('no slices')
    if i < 0 or i >= self.n:
      raise IndexError(i)
    if i in self.bad:
      raise ValueError(f'record {i} is unreadable')
    return i


def read(it):
  out = []
  while True:
    try:
      out.append(next(it))
    except StopIteration:
      return out
    except ValueError:
      out.append('E')


def main():
  bad_total = 0
  for n, bad, k in [(8, [2], 2), (9, [0, 4], 3), (7, [6], 2)]:
    source = io.ShardedIterable(io.SequenceDataSource(Seq(n, bad)))
    shards = [read(iter(source.shard(i, k))) for i in range(k)]
    want = [[x for x in range(n) if x % k == i and x not in bad] for i in range(k)]
    got = [[x for x in s if x != 'E'] for s in shards]
    ok = got == want
    print(f'n={n} unreadable={bad} shards={k}: read {shards} ' + ('ok' if ok else f'WRONG, the readable elements per shard should be {want}'))
    bad_total += not ok
    # a checkpoint after the failure restores exactly behind what was delivered
    it = iter(source.shard(0, k))
    seen = read_some(it, 3)
    rest = read(it.from_state(it.state))
    want_rest = [x for x in want[0] if x not in seen]
    ok2 = [x for x in rest if x != 'E'] == want_rest
    print(f'   checkpoint after {seen}: restored run reads {rest} ' + ('ok' if ok2 else f'WRONG, expected {want_rest}'))
    bad_total += not ok2
  print('OK' if not bad_total else f'VIOLATION: {bad_total} shardings of a source with an unreadable record are not a partition')
  return 1 if bad_total else 0


def read_some(it, k):
  out = []
  for _ in range(k):
    try:
      out.append(next(it))
    except StopIteration:
      break
    except ValueError:
      out.append('E')
  return out


if __name__ == '__main__':
  rc = main()
  sys.stdout.flush()
  os._exit(rc)
