"""A stream that is over before piter() links it to its input leaves the feeders blocked (R-C13-12 link).

piter launches the workers, THEN registers `result.stop_with(input_queue)`.
Fix d2d9359 stops the linked queues when the last worker is done — but when
the workers finish before the link exists (a worker function that reads
nothing, or very little), that stop found nothing linked, and stop_with()
itself only reacts to a queue that has FAILED.  The feeder threads stay blocked
in put() on the full input queue: "when the stream is exhausted ... all helper
threads finish".

exit 0 = no helper thread is left after the stream was exhausted.
"""
import os
import sys
import threading
import time

sys.path.insert(0, '/repo')
from ml_metrics._src.utils import iter_utils  # noqa: E402


def main():
  bad = 0
  for n_inputs, parallelism in [(2, 1), (3, 2), (2, 4)]:
    left_runs = 0
    for _ in range(5):
      before = set(threading.enumerate())
      stream = iter_utils.piter(lambda it: iter(()), input_iterators=[iter(range(100)) for _ in range(n_inputs)],
                                max_parallism=parallelism, buffer_size=1)
      got = list(stream)
      assert got == [], got
      deadline = time.time() + 2
      while time.time() < deadline and set(threading.enumerate()) - before:
        time.sleep(0.05)
      left = set(threading.enumerate()) - before
      left_runs += bool(left)
    print(f'{n_inputs} inputs, parallelism {parallelism}, workers read nothing: stream exhausted; runs with threads left after 2s:'
          f' {left_runs} of 5')
    bad += bool(left_runs)
  # direct form: link made after the queue is over
  q = iter_utils.IteratorQueue(2, name='out')
  q.enqueue_from_iterator(iter([1]))
  other = iter_utils.IteratorQueue(1, name='in')
  q.stop_with(other)
  print(f'queue over, then stop_with(other): other stopped = {other.enqueue_done}')
  bad += not other.enqueue_done
  print('OK' if not bad else f'VIOLATION: {bad} exhausted streams left their input running')
  return 1 if bad else 0


if __name__ == '__main__':
  rc = main()
  sys.stdout.flush()
  os._exit(rc)
