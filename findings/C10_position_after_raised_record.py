"""A record that RAISES (error skipping off at the source) is not counted by the position (R-C10-11).

The random-access reader behind SequenceIterator is continuable: when a record
cannot be read it skips that index and raises, and the next call reads the
following record.  A pipeline with error skipping on (operators skip failing
inputs) over a source without its own ignore_error does exactly that: it keeps
pulling after the failure.  SequenceIterator.__next__ only counted records it
returned (or skip markers), so after a raised record the recorded position was
one behind: restoring from a later checkpoint re-delivered an element.

exit 0 = for every cut the delivered elements followed by the restored
iterator's elements are exactly the readable records, none repeated.
"""
import sys

sys.path.insert(0, '/repo')
from ml_metrics._src.chainables import io, transform  # noqa: E402


class Seq:
  """Random-access records; record `bad` cannot be read."""

  def __init__(self, n, bad):
    self.n, self.bad = n, bad

  def __len__(self):
    return self.n

  def __getitem__(self, i):
    if isinstance(i, slice):
      return [self[j] for j in range(*i.indices(self.n))]
    if i == self.bad:
      raise ValueError(f'cannot read record {i}')
    return i


def drain(it, k):
  """Draws until k records were delivered, stepping over failing ones as a skipping operator does."""
  got = []
  while len(got) < k:
    try:
      got.append(next(it))
    except StopIteration:
      break
    except ValueError:
      continue
  return got


def main():
  bad_cases = 0
  n = 8
  for bad in range(n):
    want = [i for i in range(n) if i != bad]
    for cut in range(len(want) + 1):
      it = iter(io.SequenceDataSource(Seq(n, bad)))
      head = drain(it, cut)
      resumed = it.from_state(it.state)
      tail = drain(resumed, n)
      if head + tail != want:
        bad_cases += 1
        if bad_cases <= 4:
          print(f'bad record {bad}, checkpoint after {cut} delivered: {head} + {tail}, expected {want}')
  # the same through a pipeline with error skipping on
  p = transform.TreeTransform.new(name='p').data_source(io.SequenceDataSource(Seq(8, 2))).apply(fn=lambda x: x)
  it = p.make().iterate(ignore_error=True)
  head = [next(it) for _ in range(4)]
  tail = list(it.from_state(it.state))
  if head + tail != [0, 1, 3, 4, 5, 6, 7]:
    bad_cases += 1
    print(f'pipeline with error skipping: {head} + {tail}, expected [0, 1, 3, 4, 5, 6, 7]')
  print('OK' if not bad_cases else f'VIOLATION: {bad_cases} checkpoints repeat an element after a raised record')
  return 1 if bad_cases else 0


if __name__ == '__main__':
  sys.exit(main())
