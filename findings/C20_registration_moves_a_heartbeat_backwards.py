"""A (re-)registration with an older time stamp moves the recorded heartbeat of a LIVE worker backwards (R-C20-19).

refresh() records max(previous, new) — but register(), which the server side
heartbeat (`_heartbeat(sender, is_alive=True)`) calls with its own time stamp,
assigns unconditionally.  Two threads that read the clock in one order and
reach the registry in the other (an answered call refreshes with t2 while an
alive-notice taken at t1 < t2 is still on its way) leave t1 recorded:
"recorded heartbeats never move backwards"; with a threshold between the two
the worker is reported dead although a newer heartbeat was recorded.

exit 0 = the recorded heartbeat of a live worker never decreases; a dead worker can still be re-registered.
"""
import os
import sys

sys.path.insert(0, '/repo')
sys.path.insert(0, os.path.join(os.path.dirname(os.path.abspath(__file__)), '_support'))
import fake_courier  # noqa: E402,F401
from ml_metrics._src.utils import courier_utils  # noqa: E402


def main():
  bad = 0
  reg = courier_utils.WorkerRegistry()
  reg.refresh('a', 100.0)
  reg.register('a', 99.0)
  got = reg.get('a')
  print(f'refresh(a, 100) then register(a, 99): recorded {got} ' + ('ok' if got == 100.0 else 'VIOLATION'))
  bad += got != 100.0
  reg.register('a', 120.0)
  got = reg.get('a')
  print(f'register(a, 120): recorded {got} ' + ('ok' if got == 120.0 else 'VIOLATION'))
  bad += got != 120.0
  reg.unregister('a')
  reg.refresh('a', 130.0)
  dead = reg.get('a')
  reg.register('a', 125.0)
  got = reg.get('a')
  print(f'unregister(a), late refresh(a, 130): recorded {dead}; explicit register(a, 125): recorded {got} '
        + ('ok' if dead == 0 and got == 125.0 else 'VIOLATION'))
  bad += not (dead == 0 and got == 125.0)
  reg.register('b', 5.0)
  print(f'first register(b, 5): recorded {reg.get("b")} ' + ('ok' if reg.get('b') == 5.0 else 'VIOLATION'))
  bad += reg.get('b') != 5.0
  print('OK' if not bad else f'VIOLATION: {bad} registry histories move a heartbeat backwards')
  return 1 if bad else 0


if __name__ == '__main__':
  rc = main()
  sys.stdout.flush()
  os._exit(rc)
