"""LazyObject.__eq__ touches attributes of an operand that is no lazy object (R-C17-11).

hash(LazyObject(value=v)) is hash(v), so a lazy object and the plain value it
wraps collide in every dict / tuple comparison on purpose.  LazyFn.__eq__ first
checks the operand's type; LazyObject.__eq__ reads `other.id` right away.  When
a cached call with a plain argument (`f(3)`) is followed by the same call with
the traced argument (`f(trace(3))`), the cache lookup compares the two argument
tuples: `3 == LazyObject(3)` ends in LazyObject.__eq__(3) and raises
AttributeError('int' object has no attribute 'id') — evaluating the lazy
expression fails although the eager expression yields a value.

exit 0 = both expressions evaluate to what the eager call returns.
"""
import os
import sys

sys.path.insert(0, '/repo')
from ml_metrics._src.chainables import lazy_fns  # noqa: E402


def ident(x):
  return x


def main():
  bad = 0
  lazy_fns.clear_cache()
  for label, make in [
      ('cached f(3) then cached f(trace(3))',
       lambda: (lazy_fns.maybe_make(lazy_fns.trace(ident)(3, cache_result_=True)),
                lazy_fns.maybe_make(lazy_fns.trace(ident)(lazy_fns.trace(3), cache_result_=True)))),
      ('trace(3) == 3', lambda: (lazy_fns.trace(3) == 3, 3 == lazy_fns.trace(3))),
      ('trace("a") in a list of plain values', lambda: (lazy_fns.trace('a') in ['b', 'a'], {'a': 1}.get(lazy_fns.trace('a'), 'absent'))),
  ]:
    try:
      got = make()
      print(f'{label}: {got}')
    except Exception as e:  # pylint: disable=broad-exception-caught
      bad += 1
      print(f'{label}: raised {type(e).__name__}: {e}')
  print('OK' if not bad else f'VIOLATION: {bad} comparisons with a plain value raise instead of answering')
  return 1 if bad else 0


if __name__ == '__main__':
  rc = main()
  sys.stdout.flush()
  os._exit(rc)
