"""Macro-averaged top-k metrics are averaged over k instead of over classes (R-C07-10).

_TopKConfusionMatrix stacks its per-class counts per k in front (K x C) and
inherits derive_metric, whose macro branch took np.mean(result, axis=0): for
top-k metrics with average=macro the mean ran over the k axis and one value
per CLASS came back instead of one per k (3 values for k_list=[1, 2] and a
3-class vocabulary).

Compared against an independent per-class reference. exit 0 = equal.
"""
import sys
sys.path.insert(0,'/repo')
import numpy as np
from ml_metrics._src.metrics import classification as MC
from ml_metrics._src.aggregates import types as T
y_true=[['y'],['y'],['n'],['n'],['y','n'],['n'],['y'],['u']]
y_pred=[['y'],['n','y'],['y'],['n'],['y'],['n'],['n'],['u']]
vocab={'y':0,'n':1,'u':2}
def ref(k, metric):
  vals=[]
  for c in vocab:
    tp=sum(1 for t,p in zip(y_true,y_pred) if c in t and c in p[:k])
    fp=sum(1 for t,p in zip(y_true,y_pred) if c not in t and c in p[:k])
    fn=sum(1 for t,p in zip(y_true,y_pred) if c in t and c not in p[:k])
    vals.append({'precision': tp/(tp+fp) if tp+fp else 0., 'recall': tp/(tp+fn) if tp+fn else 0.}[metric])
  return sum(vals)/len(vals)
ok=True
for metric in ('precision','recall'):
  got=np.asarray(getattr(MC,metric)(y_true,y_pred,input_type=T.InputType.MULTICLASS_MULTIOUTPUT,average=T.AverageType.MACRO,vocab=vocab,k_list=[1,2]))
  want=np.asarray([ref(1,metric),ref(2,metric)])
  good = got.shape==want.shape and np.allclose(got,want)
  print(metric,'macro@k got',got,'want',want,'ok' if good else 'WRONG')
  ok&=good
print('OK' if ok else 'VIOLATION'); sys.exit(0 if ok else 1)
