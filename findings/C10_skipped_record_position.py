"""A skipped (failing) record is not counted by the recorded position (R-C10-6).

SequenceIterator wrapped its source in iter_ignore_error and counted one
position per next(); a record whose read raises is swallowed inside the wrapper
and advances the source by one position that `_index` never sees. The captured
state then lags behind by the number of skipped records and a restore
re-delivers elements that were already delivered.

10 records, record 2 unreadable, ignore_error=True: deliver 4 elements
(0, 1, 3, 4), capture the state, restore -> must continue with 5.

exit 0 = delivered + restored == uninterrupted run, exit 1 = not.
"""
import sys

sys.path.insert(0, '/repo')
from ml_metrics._src.chainables import io  # noqa: E402


class Records:

  def __init__(self, n, bad):
    self.n, self.bad = n, bad

  def __len__(self):
    return self.n

  def __getitem__(self, i):
    if isinstance(i, slice):
      r = range(*i.indices(self.n))
      if any(j in self.bad for j in r):
        raise ValueError(f'unreadable record in {r}')
      return list(r)
    if i < 0 or i >= self.n:
      raise IndexError(i)
    if i in self.bad:
      raise ValueError(f'unreadable record {i}')
    return i


def main():
  import logging
  logging.disable(logging.WARNING)
  ok = True
  for bad in ({2}, {0}, {2, 3}, {9}):
    for k in range(1, 8):
      it = iter(io.SequenceDataSource(Records(10, bad), ignore_error=True))
      got = [next(it) for _ in range(k)]
      rest = list(it.from_state(it.state))
      full = list(iter(io.SequenceDataSource(Records(10, bad), ignore_error=True)))
      if got + rest != full:
        ok = False
        print(f'bad={sorted(bad)} after {k} delivered {got}: restored run continues with'
              f' {rest[:3]}..., uninterrupted run is {full}')
  print('OK' if ok else 'VIOLATION: restore repeats delivered elements')
  sys.exit(0 if ok else 1)


if __name__ == '__main__':
  main()
