"""A failing aggregate leaves the pipeline's worker threads running (R-C12-15).

MultiplexIterator.__next__ stops its producers (maybe_stop) when drawing the
next batch fails.  _RunnerIterator.__next__ updates the aggregate AFTER that
call returned, outside that protection: when the aggregate's update raises,
the error reaches the caller (with the original exception as cause) but nobody
stops the producer threads - they stay blocked in put() on the full hand-over
queue for ever, and an in-process sink stays open.

exit 0 = after the error reached the caller, no pipeline helper thread is left
alive and the sink was closed.
"""
import sys
import threading
import time

sys.path.insert(0, '/repo')
from ml_metrics._src.chainables import io, transform  # noqa: E402


class Boom:
  """An aggregate whose update fails on the third batch."""

  def create_state(self):
    return 0

  def update_state(self, state, x):
    if state == 2:
      raise ValueError('aggregate cannot digest this batch')
    return state + 1

  def merge_states(self, states):
    return sum(states)

  def get_result(self, state):
    return state


class Sink:

  def __init__(self):
    self.closed = False
    self.seen = 0

  def write(self, x):
    self.seen += 1

  def close(self):
    self.closed = True


def run(num_threads):
  sink = Sink()
  before = {t.ident for t in threading.enumerate()}
  p = (transform.TreeTransform.new(name='p', num_threads=num_threads)
       .data_source(io.SequenceDataSource(list(range(2000))))
       .apply(fn=lambda x: x + 1)
       .sink(sink)
       .agg(fn=Boom(), output_keys='n'))
  it = p.make().iterate()
  err = None
  try:
    for _ in it:
      pass
  except Exception as e:  # pylint: disable=broad-exception-caught
    err = e
  del it
  time.sleep(1.0)
  left = [t.name for t in threading.enumerate() if t.ident not in before and t.is_alive()]
  return err, left, sink.closed


def fail_on_3(x):
  if x == 3:
    raise ValueError('operator cannot digest this record')
  return x


def run_chain(num_threads):
  """Stage a (source -> sink) feeds stage b, whose operator fails."""
  sink = Sink()
  before = {t.ident for t in threading.enumerate()}
  a = (transform.TreeTransform.new(name='a', num_threads=num_threads)
       .data_source(io.SequenceDataSource(list(range(2000))))
       .sink(sink))
  b = transform.TreeTransform.new(name='b', num_threads=num_threads).apply(fn=fail_on_3)
  it = a.chain(b).make().iterate()
  err = None
  try:
    for _ in it:
      pass
  except Exception as e:  # pylint: disable=broad-exception-caught
    err = e
  del it
  time.sleep(1.0)
  left = [t.name for t in threading.enumerate() if t.ident not in before and t.is_alive()]
  return err, left, sink.closed


def main():
  bad = 0
  for what, fn in (('failing aggregate', run), ('failing downstream stage', run_chain)):
    for nt in (0, 1, 2):
      err, left, closed = fn(nt)
      cause = type(err).__name__ if err is not None else None
      ok = err is not None and not left and closed
      print(f'{what}, num_threads={nt}: error={cause} threads left={left} sink closed={closed}')
      if not ok:
        bad += 1
  print('OK' if not bad else f'VIOLATION: {bad} configuration(s) leave helper threads / the sink behind')
  return 1 if bad else 0


if __name__ == '__main__':
  threading.Timer(60, lambda: __import__('os')._exit(3)).start()
  code = main()
  sys.stdout.flush()
  __import__('os')._exit(code)
