"""A blocking batch consumer misses the end of the stream (R-C04-9).

get_batch(block=True) hands its condition lock away for a moment
(_release_and_notify) when it holds a partial batch. If the last producer
finishes inside that window, its notify_all finds nobody waiting; after
re-acquiring the lock the consumer re-tested only `self._queue.empty()` and
went to wait() without a timeout although enqueue_done was already True: it
slept forever with all producers finished.

The window is forced by pausing the consumer inside the hand-off. exit 0 = the
consumer returns its partial batch, exit 1 = it stays blocked.
"""
import os, sys, threading, time
sys.path.insert(0, '/repo')
from ml_metrics._src.utils import iter_utils

# Force the window: the consumer's hand-off (_release_and_notify on the dequeue
# condition) pauses while the only producer finishes.
in_window = threading.Event()
producer_done = threading.Event()
orig = iter_utils._release_and_notify
def slow_release(lock, notify, **kw):
  res = orig(lock, notify, **kw) if False else None
  # reproduce the original helper, pausing between release and re-acquire
  lock.release()
  try:
    with notify:
      (notify.notify_all if kw.get('notify_all') else notify.notify)()
    if threading.current_thread().name == 'consumer':
      in_window.set()
      producer_done.wait(5)
  finally:
    lock.acquire()
iter_utils._release_and_notify = slow_release

gate = threading.Event()
def gen():
  yield 1
  gate.wait(5)          # finish (return) only while the consumer is in its window
  return 'ret'

q = iter_utils.IteratorQueue(2, name='q', max_enqueuer=1)
def produce():
  q.enqueue_from_iterator(gen())
  producer_done.set()
out = {}
def consume():
  try:
    out['batch'] = q.get_batch(3, block=True)
  except BaseException as e:
    out['err'] = repr(e)
tp = threading.Thread(target=produce, daemon=True); tp.start()
time.sleep(0.2)
tc = threading.Thread(target=consume, name='consumer', daemon=True); tc.start()
in_window.wait(5)
gate.set()
tc.join(4)
hung = tc.is_alive()
print('consumer result:', out, '| enqueue_done:', q.enqueue_done, '| consumer still blocked:', hung)
print('OK' if not hung and out.get('batch') == [1] else 'VIOLATION: all producers finished but the consumer sleeps forever')
os._exit(1 if hung or out.get('batch') != [1] else 0)
