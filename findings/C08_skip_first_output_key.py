"""A SKIP output key is only honoured when a container already exists (R-C18-9).

Key.SKIP as an output key means "discard this output".  TreeMapView._set_by_path
implements that for an existing container (`case (Reserved() as r, *_): if
_is_key(r, _SKIP): pass`) but hands an EMPTY tree to _default_tree before it
gets there, and _default_tree treats the reserved key as an ordinary dict key:
apply(fn, output_keys=(Key.SKIP, 'a')) yields {Reserved('SKIP'): v0, 'a': v1}
instead of {'a': v1}, while (a, SKIP) works.

exit 0 = a skipped output never appears in the record, whatever its position.
"""
import sys

sys.path.insert(0, '/repo')
from ml_metrics._src.chainables import transform, tree  # noqa: E402

Key = tree.Key


def main():
  bad = 0
  T = transform.TreeTransform
  cases = {
      'apply, SKIP first': (T.new().apply(fn=lambda x: (x, x + 1), output_keys=(Key.SKIP, 'a')), [{'a': 2}, {'a': 3}]),
      'apply, SKIP last': (T.new().apply(fn=lambda x: (x, x + 1), output_keys=('a', Key.SKIP)), [{'a': 1}, {'a': 2}]),
      'apply, SKIP in the middle': (T.new().apply(fn=lambda x: (x, x + 1, x + 2), output_keys=('a', Key.SKIP, 'b')),
                                    [{'a': 1, 'b': 3}, {'a': 2, 'b': 4}]),
  }
  for name, (t, want) in cases.items():
    got = list(t.make().iterate([1, 2]))
    ok = got == want
    print(f'{name}: ' + ('== reference' if ok else f'got {got}, expected {want}'))
    bad += not ok
  v = tree.TreeMapView().copy_and_set((Key.SKIP, 'a'), (1, 2)).data
  ok = v == {'a': 2}
  print('empty view, copy_and_set((SKIP, a), (1, 2)): ' + ('== {a: 2}' if ok else f'got {v}'))
  bad += not ok
  print('OK' if not bad else f'VIOLATION: {bad} case(s) keep an output that was to be discarded')
  return 1 if bad else 0


if __name__ == '__main__':
  sys.exit(main())
