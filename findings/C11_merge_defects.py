"""Demonstrations for the C11 findings (run from /repo with /venv/bin/python)."""
import numpy as np
from ml_metrics._src.aggregates import rolling_stats, utils, retrieval

fails = []
# F-C11-1: merge pops from the operand's reservoir
a = rolling_stats.FixedSizeSample(max_size=4, seed=0); a.add([1, 2, 3, 4])
b = rolling_stats.FixedSizeSample(max_size=4, seed=0); b.add([5, 6, 7, 8])
before = list(b.result())
a.merge(b)
if list(b.result()) != before:
  fails.append(f'F-C11-1 operand reservoir changed {before} -> {b.result()}')
# F-C11-2: fresh operand on the right
for name, mk, feed in (
    ('UnboundedSampler', rolling_stats.UnboundedSampler, lambda x: x.add([1, 2])),
    ('ValueAccumulator', rolling_stats.ValueAccumulator, lambda x: x.add([1, 2])),
    ('TupleMeanState', utils.TupleMeanState, lambda x: x.add([1, 2])),
):
  x = mk(); feed(x)
  try:
    x.merge(mk())
  except Exception as e:
    fails.append(f'F-C11-2 {name}.merge(fresh) raised {type(e).__name__}: {e}')
# F-C11-3: result between adds freezes precision
m = retrieval.ThresholdedRetrieval(thresholds=[0.5])
m.add(y_true=[[1]], y_pred=[[2]], y_prob=[[0.9]])
r1 = m.result()['precision']
m.add(y_true=[[1], [1], [1]], y_pred=[[1], [1], [1]], y_prob=[[0.9], [0.9], [0.9]])
r2 = m.result()['precision']
m2 = retrieval.ThresholdedRetrieval(thresholds=[0.5])
m2.add(y_true=[[1]], y_pred=[[2]], y_prob=[[0.9]])
m2.add(y_true=[[1], [1], [1]], y_pred=[[1], [1], [1]], y_prob=[[0.9], [0.9], [0.9]])
r3 = m2.result()['precision']
if not np.allclose(r2, r3):
  fails.append(f'F-C11-3 result() between adds froze precision: {r2} vs {r3}')
for f in fails:
  print('FAIL', f)
print('OK' if not fails else f'{len(fails)} failures')
raise SystemExit(1 if fails else 0)
