"""A stream whose workers stop reading early leaves its feeder threads blocked (R-C13-12 c).

piter(fn, input_iterators=[several]) feeds a bounded input queue from one
thread per input.  When the worker function finishes WITHOUT draining its input
(itertools.islice, a search that found its hit) the output stream is exhausted
normally — but nothing stops the input queue: the feeders stay blocked in put()
on the full buffer ("when the stream is exhausted ... all helper threads
finish").  Fixes 10a7a3e / 63a12ff stopped the input on an early stop and on a
failure only.

exit 0 = no helper thread is left after the stream was exhausted.
"""
import itertools
import os
import sys
import threading
import time

sys.path.insert(0, '/repo')
from ml_metrics._src.utils import iter_utils  # noqa: E402


def main():
  bad = 0
  for n_inputs, parallelism, take in [(2, 2, 3), (3, 1, 5), (4, 2, 1)]:
    before = set(threading.enumerate())
    stream = iter_utils.piter(lambda it, take=take: itertools.islice(it, take),
                              input_iterators=[range(100) for _ in range(n_inputs)], max_parallism=parallelism, buffer_size=1)
    got = list(stream)
    deadline = time.time() + 3
    while time.time() < deadline and set(threading.enumerate()) - before:
      time.sleep(0.05)
    left = sorted(t.name for t in set(threading.enumerate()) - before)
    print(f'{n_inputs} inputs, parallelism {parallelism}, each worker takes {take}: {len(got)} elements, stream exhausted;'
          f' threads left after 3s: {left or "none"}')
    bad += bool(left)
  print('OK' if not bad else f'VIOLATION: {bad} exhausted streams left helper threads behind')
  return 1 if bad else 0


if __name__ == '__main__':
  rc = main()
  sys.stdout.flush()
  os._exit(rc)
