"""ChainedRunner.get_result raises KeyError for two aggregating stages (R-C03-7).

ChainedRunner hands the COMBINED aggregation state of all stages to
TransformRunner.get_result of every aggregating stage; that method indexed
`self.agg_fns[key.metrics]` for every entry and raised KeyError on the entries
of the other stage. A chain of named stages with two aggregates therefore had
no result from get_result(state) / get_result(merge_states([...])) (what the
distributed runner calls), while the fused pipeline and the iterator's own
agg_result were fine.

exit 0 = get_result and merge+get_result report both stages, exit 1 = not.
"""
import sys

import numpy as np

sys.path.insert(0, '/repo')
from ml_metrics._src.aggregates import rolling_stats  # noqa: E402
from ml_metrics._src.chainables import transform  # noqa: E402


def main():
  t = (transform.TreeTransform.new(name='s1')
       .data_source([np.arange(4.), np.arange(4., 8.)])
       .agg(fn=rolling_stats.MeanAndVariance(), output_keys='raw')
       .chain(transform.TreeTransform.new(name='s2')
              .apply(fn=lambda x: x + 1)
              .agg(fn=rolling_stats.MeanAndVariance(), output_keys='shifted')))
  r = t.make()
  it = r.iterate()
  list(it)
  st = it.agg_state
  ok = True
  for label, fn in (('get_result(state)', lambda: r.get_result(st)),
                    ('get_result(merge_states([s, s]))', lambda: r.get_result(r.merge_states([st, st])))):
    try:
      res = fn()
      good = set(res) == {'raw', 'shifted'}
      print(label, '->', sorted(res), 'ok' if good else 'WRONG KEYS')
      ok &= good
    except Exception as e:  # pylint: disable=broad-exception-caught
      print(label, 'raised', type(e).__name__, e)
      ok = False
  print('OK' if ok else 'VIOLATION')
  sys.exit(0 if ok else 1)


if __name__ == '__main__':
  main()
