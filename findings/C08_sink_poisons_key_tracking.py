"""A sink in the middle of a chain breaks the build-time key tracking (R-C08-13).

A sink forwards every record unchanged.  TreeTransform.output_keys - the set of
keys the chain has assigned so far, used to validate later assign() calls and to
route batch() - added the sink's own default output key (SELF) to that set.
After a sink, a valid `assign` is rejected at build time ("Cannot mix SELF with
other keys") and `batch()` routes a column that does not exist (run-time
"Mismatched columns"), although the reference evaluation of the same chain is
well defined.  (filter(), the other pass-through operator, hands the tracked
keys through explicitly.)

exit 0 = chains with a sink in the middle build and produce the reference stream.
"""
import sys

sys.path.insert(0, '/repo')
from ml_metrics._src.chainables import transform  # noqa: E402


class Collect:

  def __init__(self):
    self.rows, self.closed = [], 0

  def write(self, x):
    self.rows.append(x)

  def close(self):
    self.closed += 1


def run(build, data):
  s = Collect()
  try:
    out = list(build(s).make().iterate(data))
    return ('ok', out, len(s.rows), s.closed)
  except Exception as e:  # pylint: disable=broad-exception-caught
    return ('raised', f'{type(e).__name__}: {str(e)[:70]}', len(s.rows), s.closed)


def main():
  T = transform.TreeTransform
  data = [{'x': 1}, {'x': 2}, {'x': 3}]
  cases = {
      'assign -> sink -> assign': (
          lambda s: T.new().assign('a', fn=lambda x: x * 10, input_keys='x').sink(s).assign('b', fn=lambda x: x + 1, input_keys='x'),
          [{'x': 1, 'a': 10, 'b': 2}, {'x': 2, 'a': 20, 'b': 3}, {'x': 3, 'a': 30, 'b': 4}]),
      'select -> sink -> assign': (
          lambda s: T.new().select('x', output_keys='y').sink(s).assign('b', fn=lambda y: y + 1, input_keys='y'),
          [{'y': 1, 'b': 2}, {'y': 2, 'b': 3}, {'y': 3, 'b': 4}]),
  }
  bad = 0
  # select replaces the record like apply does: keys assigned before it are gone
  recs = [{'a': i, 'b': i * 2} for i in range(4)]
  for name, build, want in (
      ('assign -> select -> batch', lambda: T.new().assign('x', fn=lambda a: a + 1, input_keys='a').select(('a', 'b')).batch(2),
       [{'a': [0, 1], 'b': [0, 2]}, {'a': [2, 3], 'b': [4, 6]}]),
      ('assign -> select -> assign (same key again)',
       lambda: T.new().assign('x', fn=lambda a: a + 1, input_keys='a').select(('a', 'b')).assign('x', fn=lambda a: a + 2, input_keys='a'),
       [{'a': i, 'b': i * 2, 'x': i + 2} for i in range(4)]),
  ):
    try:
      got = list(build().make().iterate(recs))
      got = [{k: list(v) if hasattr(v, '__len__') else v for k, v in r.items()} for r in got]
      ok = got == want
      print(f'{name}: ' + ('stream == reference' if ok else f'got {got}'))
    except Exception as e:  # pylint: disable=broad-exception-caught
      ok = False
      print(f'{name}: raised {type(e).__name__}: {str(e)[:70]}')
    bad += not ok
  for name, (build, want) in cases.items():
    kind, got, written, closed = run(build, data)
    ok = kind == 'ok' and got == want and written == 3 and closed == 1
    print(f'{name}: {kind} {got if kind != "ok" or not ok else "stream == reference"}; sink saw {written} records, closed {closed}x')
    bad += not ok
  print('OK' if not bad else f'VIOLATION: {bad} valid chain(s) with a sink are rejected or mis-routed')
  return 1 if bad else 0


if __name__ == '__main__':
  sys.exit(main())
