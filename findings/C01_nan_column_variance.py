"""A column that is all-NaN in ONE batch poisons the merged variance (R-C01-17).

Mean / MeanAndVariance skip NaN per column: a column without a valid value in
a batch has count 0 and NaN statistics, and Mean.merge treats such a column as
absent (math_utils.nanadd).  MeanAndVariance.merge combined the variances with
a plain `+`: `0 * NaN` is NaN, so a column that is empty in one batch (or one
shard) reported var = NaN for the whole stream although the same rows in one
batch give a finite variance.

exit 0 = every batching of the same rows gives the single-batch result.
"""
import sys
import warnings

sys.path.insert(0, '/repo')
import numpy as np  # noqa: E402
from ml_metrics._src.aggregates import rolling_stats  # noqa: E402

warnings.simplefilter('ignore')
A = np.array([[1.0, np.nan], [2.0, np.nan]])
B = np.array([[3.0, 5.0], [4.0, 7.0]])
C = np.array([[np.nan, 1.0], [np.nan, 3.0]])


def stats(state):
  return np.asarray(state.mean), np.asarray(state.var), np.asarray(state.count)


def main():
  bad = 0
  for name, parts in {'empty column first': (A, B), 'empty column second': (B, A),
                      'disjoint columns': (A, C), 'three batches': (A, C, B)}.items():
    want = stats(rolling_stats.MeanAndVariance().add(np.concatenate(parts)))
    acc = rolling_stats.MeanAndVariance()
    for p in parts:
      acc.add(p)
    shard = rolling_stats.MeanAndVariance().add(parts[0])
    for p in parts[1:]:
      shard.merge(rolling_stats.MeanAndVariance().add(p))
    for how, got in (('batches', stats(acc)), ('shards', stats(shard))):
      same = all(np.allclose(g, w, equal_nan=True) for g, w in zip(got, want))
      print(f'{name} / {how}: ' + ('same as one batch' if same else f'DIFFERENT var={got[1]} want {want[1]}'))
      bad += not same
  print('OK' if not bad else f'VIOLATION: {bad} batchings differ from the single batch')
  return 1 if bad else 0


if __name__ == '__main__':
  sys.exit(main())
