"""The async producer does not record a failure of its awaitable / aiter() (R-C05-10, async sibling).

AsyncIteratorQueue.async_enqueue_from_iterator resolved its argument
(`await iterator`, `aiter(iterator)`) BEFORE it registered as an enqueuer and
outside the failure-recording handler.  When opening the stream fails, the
producer's caller gets the error but the queue records nothing: enqueue_done
stays False and a consumer waits until its timeout (for ever without one)
instead of observing the exception.  Fix f8eb00d repaired the same gap in the
synchronous enqueue_from_iterator only.

exit 0 = the consumer observes the producer's exception.
"""
import asyncio
import logging
import os
import sys
import time

sys.path.insert(0, '/repo')
logging.disable(logging.CRITICAL)
from absl import logging as absl_logging  # noqa: E402
absl_logging.set_verbosity(absl_logging.FATAL)
from ml_metrics._src.utils import iter_utils  # noqa: E402


async def failing_open():
  raise ValueError('cannot open the stream')


class BadAiter:
  def __aiter__(self):
    raise ValueError('cannot iterate the stream')


async def scenario(name, make):
  q = iter_utils.AsyncIteratorQueue(2, timeout=2, name=name)
  prod = asyncio.create_task(q.async_enqueue_from_iterator(make()))
  t0 = time.time()
  try:
    got = await q.async_get()
    seen = f'value {got!r}'
  except BaseException as e:  # pylint: disable=broad-exception-caught
    seen = f'{type(e).__name__}({e})'
  try:
    await prod
  except Exception:  # pylint: disable=broad-exception-caught
    pass
  ok = seen.startswith('ValueError')
  print(f'{name}: consumer saw {seen} after {time.time() - t0:.1f}s; queue.exception={q.exception!r}')
  return ok


async def main():
  oks = [await scenario('failing awaitable', failing_open), await scenario('failing __aiter__', BadAiter)]
  bad = oks.count(False)
  print('OK' if not bad else f'VIOLATION: {bad} producer failures were never seen by the consumer')
  return 1 if bad else 0


if __name__ == '__main__':
  rc = asyncio.run(main())
  sys.stdout.flush()
  os._exit(rc)
