"""C10: second-generation checkpoint/restore of SequenceIterator repeats elements."""
from ml_metrics._src.chainables import io
ds = io.SequenceDataSource(list(range(10)))
it = iter(ds)
got = [next(it) for _ in range(3)]          # 0,1,2
it2 = it.from_state(it.state)               # gen 1 restore
got += [next(it2) for _ in range(2)]        # 3,4
it3 = it2.from_state(it2.state)             # gen 2 restore
got += list(it3)
print(got)
ok = got == list(range(10))
print('OK' if ok else 'FAIL: expected 0..9 exactly once')
raise SystemExit(0 if ok else 1)
