"""With error skipping on, a put() that times out drops the element it held (R-C12-20).

enqueue_from_iterator ran `self.put(next(iterator))` inside ONE try whose handler
ignores the exception and continues when ignore_error is set.  The handler is
meant for failures of the iterator ("assuming the iterator can skip error") —
but a TimeoutError of put() (bounded queue, consumer slower than the timeout)
took the same branch: the element just fetched was dropped silently, the loop
went on with the next one, and the stream ended cleanly with elements missing
("error skipping drops only failing elements").

exit 0 = a slow consumer receives every element or sees the timeout as an error.
"""
import logging
import os
import sys
import threading
import time

sys.path.insert(0, '/repo')
logging.disable(logging.CRITICAL)
from absl import logging as absl_logging  # noqa: E402
absl_logging.set_verbosity(absl_logging.FATAL)
from ml_metrics._src.utils import iter_utils  # noqa: E402


def main():
  q = iter_utils.IteratorQueue(1, ignore_error=True, timeout=0.2, name='slow consumer')
  producer = threading.Thread(target=lambda: _swallow(q.enqueue_from_iterator, iter(range(5))), daemon=True)
  producer.start()
  time.sleep(1.0)          # the consumer is slower than the producer's timeout
  got, end = [], None
  try:
    while True:
      got.append(q.get())
  except StopIteration as e:
    end = 'clean end-of-stream'
  except Exception as e:  # pylint: disable=broad-exception-caught
    end = f'{type(e).__name__}: {e}'
  print(f'received {got}, then {end}')
  lost_silently = end == 'clean end-of-stream' and got != [0, 1, 2, 3, 4]
  print('OK' if not lost_silently else
        f'VIOLATION: elements {sorted(set(range(5)) - set(got))} were dropped although none of them failed, and the stream ended cleanly')
  return 1 if lost_silently else 0


def _swallow(fn, *a):
  try:
    fn(*a)
  except Exception:  # pylint: disable=broad-exception-caught
    pass


if __name__ == '__main__':
  rc = main()
  sys.stdout.flush()
  os._exit(rc)
