"""C08: TreeTransform().filter(fn) as the first operator raises IndexError."""
from ml_metrics._src.chainables import transform
p = transform.TreeTransform().filter(lambda x: x > 1)
try:
  out = list(p.make().iterate([1, 2, 3]))
  print(out)
  ok = out == [2, 3]
except Exception as e:
  print('raised', type(e).__name__, e)
  ok = False
# a later assign must still be possible
p2 = transform.TreeTransform().filter(lambda x: x['a'] > 1).assign('b', fn=lambda x: x['a'] + 1)
out2 = list(p2.make().iterate([{'a': 1}, {'a': 2}]))
print(out2)
ok = ok and out2 == [{'a': 2, 'b': 3}]
print('OK' if ok else 'FAIL')
raise SystemExit(0 if ok else 1)
