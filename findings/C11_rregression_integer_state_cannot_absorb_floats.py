"""RRegression: a state built from integer features cannot add/merge float features — and the reverse order works (R-C11-16).

add() and merge() update the per-feature sums in place (`self.sum_x += ...`).
For multi-feature x these sums are ndarrays, and an in-place `+=` keeps the
RECEIVER's dtype: int64 += float64 raises UFuncTypeError ("same_kind"
casting).  A state that first saw integer features therefore fails on the
first float batch or float shard, while float-then-int works: the result of a
merge depends on the order of its operands ("merging gives the same result for
every grouping and order"; the same holds for the order of the batches).

exit 0 = both orders give the same result.
"""
import os
import sys

import numpy as np

sys.path.insert(0, '/repo')
from ml_metrics._src.aggregates import rolling_stats  # noqa: E402


def state(x, y):
  return rolling_stats.RRegression().add(np.asarray(x), np.asarray(y))


def outcome(f):
  try:
    return ('value', np.round(np.asarray(f(), dtype=float), 6).tolist())
  except Exception as e:  # pylint: disable=broad-exception-caught
    return (type(e).__name__, str(e)[:60])


def main():
  xi, yi = [[1, 2], [3, 5], [4, 4]], [1, 2, 4]
  xf, yf = [[0.5, 1.5], [2.5, 0.25]], [0.5, 3.0]
  bad = 0
  a = outcome(lambda: state(xf, yf).merge(state(xi, yi)).result())
  b = outcome(lambda: state(xi, yi).merge(state(xf, yf)).result())
  print('merge float <- int :', a)
  print('merge int <- float :', b, 'ok' if a == b else 'VIOLATION')
  bad += a != b
  c = outcome(lambda: state(xf, yf).add(np.asarray(xi), np.asarray(yi)).result())
  d = outcome(lambda: state(xi, yi).add(np.asarray(xf), np.asarray(yf)).result())
  print('batches float, int :', c)
  print('batches int, float :', d, 'ok' if c == d else 'VIOLATION')
  bad += c != d
  print('OK' if not bad else f'VIOLATION: {bad} results depend on the order of the operands')
  return 1 if bad else 0


if __name__ == '__main__':
  rc = main()
  sys.stdout.flush()
  os._exit(rc)
