"""C10 known finding: checkpoint with num_threads>0 loses prefetched elements."""
import time
from ml_metrics._src.chainables import transform, io
ds = io.SequenceDataSource(list(range(20)))
p = transform.TreeTransform.new(num_threads=2).data_source(ds).apply(fn=lambda x: x)
it = p.make().iterate()
got = [next(it) for _ in range(3)]
time.sleep(0.5)                       # let the pool threads prefetch
state = it.state
it2 = it.from_state(state)
rest = list(it2)
it.maybe_stop()
missing = sorted(set(range(20)) - set(got) - set(rest))
print('delivered before checkpoint', sorted(got), 'after restore', sorted(rest))
print('never delivered:', missing)
raise SystemExit(1 if missing else 0)
