"""A root leaf is listed only when it is truthy; a root array cannot be listed at all (R-C18-13).

_dfs_iter_tree decides whether the ROOT of a view is a leaf with `elif data:`.
A falsy root value (0, 0.0, '', False) is therefore not listed and not mapped
(`as_view(0, map_fn=f).apply()` returns 0 unmapped), and a root numpy array with
more than one element raises "truth value of an array is ambiguous" — although
arrays are leaves ("iterating a view lists every leaf exactly once with a path
that reads back that leaf ... applying a leaf function maps every leaf").

exit 0 = every root leaf is listed once, reads back, and is mapped.
"""
import os
import sys

sys.path.insert(0, '/repo')
import numpy as np  # noqa: E402
from ml_metrics._src.chainables import tree  # noqa: E402


def main():
  bad = 0
  for root in [5, 0, 0.0, '', 'x', False, np.array([1, 2]), np.zeros(1), np.array([])]:
    label = repr(root)
    try:
      view = tree.TreeMapView(root)
      keys = list(view)
      back = [view[k] for k in keys]
      mapped = tree.TreeMapView.as_view(root, map_fn=lambda x: ('mapped', x)).apply()
      ok = len(keys) == 1 and _same(back[0], root) and isinstance(mapped, tuple) and mapped[0] == 'mapped'
      print(f'root {label}: keys {keys}, mapped -> {mapped!r} ' + ('ok' if ok else 'WRONG: the root leaf is not listed / not mapped'))
    except Exception as e:  # pylint: disable=broad-exception-caught
      ok = False
      print(f'root {label}: raised {type(e).__name__}: {str(e)[:70]}')
    bad += not ok
  for empty in [{}, [], ()]:
    keys = list(tree.TreeMapView(empty))
    ok = keys == []
    print(f'empty container {empty!r}: keys {keys} ' + ('ok (no leaf)' if ok else 'WRONG'))
    bad += not ok
  print('OK' if not bad else f'VIOLATION: {bad} root values are not handled as the single leaf they are')
  return 1 if bad else 0


def _same(a, b):
  if isinstance(b, np.ndarray):
    return isinstance(a, np.ndarray) and np.array_equal(a, b)
  return a == b and type(a) is type(b)


if __name__ == '__main__':
  rc = main()
  sys.stdout.flush()
  os._exit(rc)
