"""A failing input record kills assign/filter/sink although skipping is on (R-C12-11).

processed_with_inputs pairs every output slot (a value or the skip marker) with
one recited input. _TeeIterator buffered nothing when reading the input itself
raised, so the skip marker that the operator chain produces for that failure
was paired with a recital that does not exist: IndexError("No element left.")
ended the pipeline for assign / filter / sink, while apply skipped the record.

6 records, some unreadable, iterate(ignore_error=True), source without its own
ignore_error. exit 0 = every operator kind delivers exactly the readable
records, aligned with their inputs.
"""
import sys
sys.path.insert(0,'/repo')
import logging; logging.disable(logging.CRITICAL)
from ml_metrics._src.chainables import transform, io
class Bad:
  def __init__(self,n,bad): self.n=n; self.bad=bad
  def __len__(self): return self.n
  def __getitem__(self,i):
    if isinstance(i,slice):
      r=range(*i.indices(self.n))
      if any(j in self.bad for j in r): raise ValueError(f'bad in {r}')
      return [{'x':j} for j in r]
    if i in self.bad: raise ValueError(f'bad record {i}')
    return {'x': i}
class S:
  def __init__(self): self.w=[]; self.closed=0
  def write(self,x): self.w.append(x)
  def close(self): self.closed+=1
bad=0
for badset in ({2},{0},{2,3},{5},{0,5}):
 for op in ('apply','assign','filter','sink'):
  t = transform.TreeTransform.new(name='p').data_source(io.SequenceDataSource(Bad(6,badset)))
  sink=None
  if op=='apply': t=t.apply(fn=lambda x: x+1, input_keys='x')
  if op=='assign': t=t.assign('y', fn=lambda x: x+1, input_keys='x')
  if op=='filter': t=t.filter(fn=lambda x: x>=0, input_keys='x')
  if op=='sink': sink=S(); t=t.sink(sink)
  want=[i for i in range(6) if i not in badset]
  try:
    got=list(t.make().iterate(ignore_error=True))
    xs=[(g-1) if op=='apply' else g['x'] for g in got]
    ok = xs==want and (op!='assign' or all(g['y']==g['x']+1 for g in got))
  except Exception as e:
    ok=False; xs=f'{type(e).__name__}: {e}'
  if not ok:
    bad+=1; print(op, sorted(badset), 'delivered', xs, 'expected', want)
print('OK' if not bad else f'VIOLATION ({bad} configurations)')
sys.exit(1 if bad else 0)
