"""C12: (1) FilterFn ignores ignore_error; (2) skip wrapper around a rebatching generator."""
from ml_metrics._src.chainables import transform
fails = []
def pred(x):
  if x == 2:
    raise ValueError('bad element')
  return x > 0
p = transform.TreeTransform().filter(pred)
try:
  out = list(p.make().iterate([1, 2, 3], ignore_error=True))
  if out != [1, 3]:
    fails.append(f'F-C12-1 filter with ignore_error gave {out}, expected [1, 3]')
except Exception as e:
  fails.append(f'F-C12-1 filter raised under ignore_error=True: {type(e).__name__}')
def f(xs):
  if 3 in xs:
    raise ValueError('bad batch')
  return [x * 10 for x in xs]
# rebatched assign: elements after the failing batch are silently lost
p3 = transform.TreeTransform().assign('b', fn=f, input_keys='a', batch_size=1)
data = [{'a': [i]} for i in (1, 2, 3, 4, 5)]
out3 = list(p3.make().iterate(data, ignore_error=True))
got = [d['a'][0] for d in out3]
print('delivered with batch_size:', got)
if 4 not in got or 5 not in got:
  fails.append(f'F-C12-2 elements after the failing batch were silently dropped: delivered {got}')
for x in fails: print('FAIL', x)
print('OK' if not fails else f'{len(fails)} failures')
raise SystemExit(1 if fails else 0)
