"""A producer whose iterable fails in __iter__ leaves the consumers waiting (R-C05-10).

IteratorQueue.enqueue_from_iterator called iter(iterator) BEFORE the producer
was registered and outside the try block that records a failure.  An iterable
whose __iter__ raises (a data source that opens its file there, a pipeline
whose iteration set-up fails) made the producer thread die with the exception
in a future nobody reads: nothing was recorded in the queue, enqueue_done never
became true and every consumer blocked for ever; on a prefetching courier
server the next-batch request never got an answer.

exit 0 = the consumer observes the producer's exception (no indefinite wait),
on the bare queue, through piter_multiplex and on the prefetching server.
"""
import os
import sys
import threading
from concurrent import futures

sys.path.insert(0, os.path.dirname(os.path.abspath(__file__)))
sys.path.insert(0, '/repo')
from _support import fake_courier  # noqa: E402,F401
from absl import logging  # noqa: E402
from ml_metrics._src.chainables import courier_server, lazy_fns  # noqa: E402
from ml_metrics._src.utils import iter_utils  # noqa: E402

logging.set_verbosity(logging.FATAL)


class BadSource:
  """An iterable whose iteration set-up fails (e.g. the file is missing)."""

  def __iter__(self):
    raise FileNotFoundError('cannot open the data source')


def observed(fn, wait=3.0):
  """Runs fn() in a thread; returns its result/exception or 'BLOCKED'."""
  out = {}

  def run():
    try:
      out['v'] = ('value', fn())
    except BaseException as e:  # pylint: disable=broad-exception-caught
      out['v'] = ('raised', type(e).__name__)

  t = threading.Thread(target=run, daemon=True)
  t.start()
  t.join(wait)
  return out.get('v', ('BLOCKED', None))


def main():
  bad = 0
  # 1. the bare queue, producer in a thread
  q = iter_utils.IteratorQueue(2, max_enqueuer=1, name='q')
  threading.Thread(target=lambda: observed(lambda: q.enqueue_from_iterator(BadSource())), daemon=True).start()
  got = observed(q.get)
  print('queue.get():', got)
  if got != ('raised', 'FileNotFoundError'):
    bad += 1
  # 2. piter_multiplex over one good and one failing input
  pool = futures.ThreadPoolExecutor(2)
  mq = iter_utils.piter_multiplex([BadSource(), iter(range(3))], pool, buffer_size=2)
  got = observed(lambda: list(mq))
  print('list(piter_multiplex):', got)
  if got != ('raised', 'FileNotFoundError'):
    bad += 1
  # 3. the prefetching server: the next-batch request must be answered with the failure
  server = courier_server.PrefetchedCourierServer('c05_prefetch')
  server._init_iterator(lazy_fns.pickler.dumps(lazy_fns.trace(BadSource)()))  # pylint: disable=protected-access

  def next_batch():
    batch = lazy_fns.pickler.loads(server._next_batch(2))  # pylint: disable=protected-access
    return [type(x).__name__ for x in batch]

  got = observed(next_batch)
  print('server._next_batch():', got)
  if got != ('value', ['FileNotFoundError']):
    bad += 1
  print('OK' if not bad else f'VIOLATION: {bad} consumer(s) never see the producer failure')
  return 1 if bad else 0


if __name__ == '__main__':
  threading.Timer(40, lambda: os._exit(3)).start()
  code = main()
  sys.stdout.flush()
  os._exit(code)
