"""TopKRetrieval's k dimension depends on the batch (R-C01-14).

TopKRetrieval.add evaluated the metrics at the configured k values only up to
the longest prediction row OF THE BATCH (max_pred_count = min(longest row,
max(k_list))) and truncated k_list accordingly.  The per-batch statistics
therefore had as many k entries as that batch happened to allow: feeding a
batch of short rankings and a batch of long ones gives state vectors of
different lengths, and accumulating them raises ValueError or silently
broadcasts, while the same data in one batch works.

exit 0 = every batching of the same examples gives the single-batch result.
"""
import itertools
import sys

sys.path.insert(0, '/repo')
import numpy as np  # noqa: E402
from ml_metrics._src.aggregates import retrieval  # noqa: E402

Y_TRUE = [[1], [2, 3], [4], [5, 6], [7]]
Y_PRED = [[1, 9], [3], [4, 8, 9, 1, 2], [9, 5, 6], [7]]


def run(batches, metrics):
  m = retrieval.TopKRetrieval(k_list=[1, 2, 5], metrics=metrics)
  for idx in batches:
    m.add([Y_TRUE[i] for i in idx], [Y_PRED[i] for i in idx])
  return m.result()


def main():
  bad = 0
  metrics = ['precision', 'recall', 'accuracy']
  want = run([range(5)], metrics)
  splits = {
      'short rows first': [[0, 1], [2, 3, 4]],
      'long rows first': [[2, 3], [0, 1, 4]],
      'one row per batch': [[i] for i in range(5)],
      'shards merged': None,
  }
  for name, batches in splits.items():
    try:
      if batches is None:
        a = retrieval.TopKRetrieval(k_list=[1, 2, 5], metrics=metrics)
        b = retrieval.TopKRetrieval(k_list=[1, 2, 5], metrics=metrics)
        a.add([Y_TRUE[i] for i in (0, 1, 4)], [Y_PRED[i] for i in (0, 1, 4)])
        b.add([Y_TRUE[i] for i in (2, 3)], [Y_PRED[i] for i in (2, 3)])
        a.merge(b)
        got = a.result()
      else:
        got = run(batches, metrics)
      same = all(np.allclose(got[k], want[k]) for k in want)
      print(f'{name}: ' + ('same as one batch' if same else f'DIFFERENT: {got} vs {want}'))
      bad += not same
    except Exception as e:  # pylint: disable=broad-exception-caught
      bad += 1
      print(f'{name}: raised {type(e).__name__}: {str(e)[:80]}')
  print('OK' if not bad else f'VIOLATION: {bad} batchings of the same data differ from the single batch')
  return 1 if bad else 0


if __name__ == '__main__':
  sys.exit(main())
