"""Iterating a view lists paths INTO bytes / range / deque values that cannot be read back (R-C18-17).

_dfs_iter_tree descends into every collections.abc.Sequence except str, but
the getter (and the setter) only index list / tuple nodes (and arrays):
a bytes value — a serialized example, an encoded image — is listed as
('a', Index(0)), ('a', Index(1)), ... and reading any of these paths raises
KeyError.  "Iterating a view lists every leaf exactly once with a path that
reads back that leaf".

exit 0 = every listed path reads back, and the values are listed as leaves.
"""
import collections
import os
import sys

sys.path.insert(0, '/repo')
from ml_metrics._src.chainables import tree  # noqa: E402


def main():
  bad = 0
  cases = [
      ('bytes value', {'a': b'xy', 'b': 1}),
      ('range value', {'a': range(3)}),
      ('deque value', {'a': collections.deque([1, 2])}),
      ('bytes inside a list', {'a': [b'xy', 'z']}),
      ('bytes root', b'xy'),
      ('list of lists (control)', {'a': [[1, 2], (3,)]}),
  ]
  for label, data in cases:
    view = tree.TreeMapView(data)
    keys = list(view.keys())
    failed = []
    for k in keys:
      try:
        view[k]
      except Exception as e:  # pylint: disable=broad-exception-caught
        failed.append((k, type(e).__name__))
    ok = not failed and bool(keys)
    print(f'{label}: {len(keys)} paths listed, {len(failed)} cannot be read back' + ('' if ok else f' e.g. {failed[:1]}') +
          (' ok' if ok else ' VIOLATION'))
    bad += not ok
  # items()/values() agree with keys()
  v = tree.TreeMapView({'a': b'xy', 'b': 1})
  try:
    items = dict(v.items())
    print('items():', items)
    bad += items != {tree.Key.new('a'): b'xy', tree.Key.new('b'): 1}
  except Exception as e:  # pylint: disable=broad-exception-caught
    print('items() RAISES', type(e).__name__, str(e)[:80])
    bad += 1
  print('OK' if not bad else f'VIOLATION: {bad} views list paths that do not read back')
  return 1 if bad else 0


if __name__ == '__main__':
  rc = main()
  sys.stdout.flush()
  os._exit(rc)
