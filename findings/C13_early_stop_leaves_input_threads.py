"""Stopping a multi-input piter() early leaves its input threads blocked (R-C13-10).

With several input iterators and an iterator function, piter() builds TWO
queues: an internal input queue filled from the input iterators by pool
threads, and the output queue it returns, filled by the worker threads that
read the input queue.  Stopping the consumer (maybe_stop on the output) stops
the workers, but nothing stops the internal input queue: its feeder threads
stay blocked in put() on the full bounded buffer for ever and
pool.shutdown() never returns.

exit 0 = after an early stop all helper threads finish and the pool shuts down.
"""
import itertools
import sys
import threading
import time
from concurrent import futures

sys.path.insert(0, '/repo')
from ml_metrics._src.utils import iter_utils  # noqa: E402


def main():
  pool = futures.ThreadPoolExecutor(8, thread_name_prefix='c13_pool')
  before = {t.ident for t in threading.enumerate()}
  q = iter_utils.piter(
      lambda it: (x + 1 for x in it),
      input_iterators=[itertools.count(0, 2), itertools.count(1, 2)],
      max_parallism=2,
      buffer_size=2,
      thread_pool=pool,
  )
  it = iter(q)
  got = [next(it) for _ in range(4)]
  it.maybe_stop()
  done = threading.Event()
  threading.Thread(target=lambda: (pool.shutdown(wait=True), done.set()), daemon=True).start()
  finished = done.wait(5)
  alive = [t.name for t in threading.enumerate() if t.ident not in before and t.is_alive() and 'c13_pool' in t.name]
  print(f'received {sorted(got)}; pool.shutdown() returned={finished}; pool threads still alive: {alive}')
  ok = finished and not alive
  print('OK' if ok else 'VIOLATION: helper threads of the internal input queue never finish after the early stop')
  return 0 if ok else 1


if __name__ == '__main__':
  threading.Timer(30, lambda: __import__('os')._exit(3)).start()
  code = main()
  sys.stdout.flush()
  __import__('os')._exit(code)
