"""A producer that starts after a stop request resumes producing (R-C05-9).

IteratorQueue.maybe_stop recorded a plain stop only by forcing the producer
counters to "all done". With more sources than pool threads the remaining
enqueue tasks are still queued in the pool when the consumer stops early; when
one of them starts, _start_enqueue increments the counters again, enqueue_done
turns False, the producer fills the bounded queue nobody drains and blocks for
ever: ThreadPoolExecutor.shutdown() (MultiplexIterator.maybe_stop) never
returns, helper threads never finish.

5 sources, 2 pool threads, buffer 2, stop after 3 elements.
exit 0 = the pool shuts down, exit 1 = it hangs.
"""
import os
import sys
import threading
from concurrent import futures

sys.path.insert(0, '/repo')
from ml_metrics._src.utils import iter_utils  # noqa: E402


def src(k):
  for i in range(1000):
    yield (k, i)


def main():
  pool = futures.ThreadPoolExecutor(max_workers=2)
  q = iter_utils.piter_multiplex([src(k) for k in range(5)], pool, buffer_size=2)
  _ = [q.get() for _ in range(3)]
  q.maybe_stop()
  done = threading.Event()

  def shut():
    pool.shutdown()
    done.set()

  threading.Thread(target=shut, daemon=True).start()
  ok = done.wait(5)
  print('pool shut down within 5 s:', ok, '| enqueue_done =', q.enqueue_done)
  print('OK' if ok else 'VIOLATION: producers started after the stop keep the pool alive')
  os._exit(0 if ok else 1)


if __name__ == '__main__':
  main()
