"""A checkpoint taken right after a restore forgets the position (R-C10-1).

DataIterator starts at _index = 0 and skips forward to the restored
start_index lazily, inside the next __next__; `state` recorded the bare _index.
Capturing the state of a freshly restored iterator (before drawing an element)
therefore recorded position 0, and restoring from THAT state replayed the
source from the beginning.

exit 0 = delivered + restored == uninterrupted run for every cut, exit 1 = not.
"""
import sys

sys.path.insert(0, '/repo')
from ml_metrics._src.chainables import io  # noqa: E402


def main():
  ok = True
  for shard in (None, (1, 3), (0, 2)):
    src = io.ShardedIterable(range(12))
    if shard:
      src = src.shard(*shard)
    full = list(iter(src))
    for cut in range(len(full) + 1):
      it = iter(src)
      got = [next(it) for _ in range(cut)]
      it2 = it.from_state(it.state)
      it3 = it2.from_state(it2.state)   # second checkpoint, no element drawn in between
      rest = list(it3)
      if got + rest != full:
        ok = False
        print(f'shard={shard} cut={cut}: delivered {got}, after restore+checkpoint+restore {rest}')
  print('OK' if ok else 'VIOLATION: elements repeated after a second restore')
  sys.exit(0 if ok else 1)


if __name__ == '__main__':
  main()
