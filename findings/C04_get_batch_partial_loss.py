"""IteratorQueue.get_batch discards a batch in progress (R-C04-11 / R-C15-7).

Two exits of get_batch raise although elements were already dequeued into the
local batch list; those elements are received by no consumer.

(a) generator failure: producer yields 1, 2 and then raises; a consumer that
    asks for get_batch(5, block=True) gets the ValueError and never sees 1, 2.
    PrefetchedCourierServer._next_batch calls exactly this (block=True) and
    swallows the exception, so the client receives [ValueError] only: the
    failure is NOT delivered "after the elements produced before it" (C15).
    KNOWN finding: upstream tests pin the behaviour
    (iter_utils_test.test_iterator_queue_flush_raises expects the raise,
    courier_server_test.test_batch_generator_with_shutdown expects a batch of
    length 1), so the repair is not a small safe patch.
(b) timeout: with a timeout configured, a blocking get_batch that holds a
    partial batch when the wait times out raised TimeoutError and dropped it.
    FIXED in /repo (returns the partial batch; the next call times out).

exit 0 = no element lost, exit 1 = lost.
"""
import sys
import threading
import time

sys.path.insert(0, '/repo')
from ml_metrics._src.utils import iter_utils  # noqa: E402


def gen():
  yield 1
  yield 2
  time.sleep(0.3)
  raise ValueError('boom')


def slow():
  yield 1
  time.sleep(2)
  yield 2


def main():
  q = iter_utils.IteratorQueue(4, name='q')
  threading.Thread(target=q.enqueue_from_iterator, args=(gen(),), daemon=True).start()
  time.sleep(0.1)
  got, errs = [], []
  for _ in range(3):
    try:
      got.append(q.get_batch(5, block=True))
    except Exception as e:  # pylint: disable=broad-exception-caught
      errs.append(repr(e))
      break
  flat = [x for b in got for x in b]
  ok_a = flat == [1, 2] and errs and 'boom' in errs[0]
  print('(a) failure after [1, 2]: batches', got, 'errors', errs, '->', 'ok' if ok_a else 'LOST')

  q2 = iter_utils.IteratorQueue(4, name='q2', timeout=0.3)
  threading.Thread(target=q2.enqueue_from_iterator, args=(slow(),), daemon=True).start()
  time.sleep(0.1)
  got2, n_to = [], 0
  for _ in range(12):
    try:
      got2.append(q2.get_batch(2, block=True))
    except StopIteration:
      break
    except TimeoutError:
      n_to += 1
  flat2 = [x for b in got2 for x in b]
  ok_b = flat2 == [1, 2]
  print('(b) timeout with partial batch: batches', got2, f'timeouts={n_to}', '->',
        'ok' if ok_b else 'LOST')
  which = sys.argv[1] if len(sys.argv) > 1 else 'both'
  ok = {'a': ok_a, 'b': ok_b, 'both': ok_a and ok_b}[which]
  sys.exit(0 if ok else 1)


if __name__ == '__main__':
  main()
