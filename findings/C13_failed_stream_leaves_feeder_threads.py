"""A failing parallel stream leaves the threads that feed it blocked for good (R-C13-12).

piter(generator_fn, input_iterators=[several]) stacks two queues: feeder
threads put the inputs on a bounded input queue, worker threads run the
generator function over it.  When the function FAILS, the workers stop and the
consumer sees the error, but nothing stops the input queue: the feeders stay
blocked in put() on the full queue ("when the stream ... fails ... all helper
threads finish").  Fix 10a7a3e linked the two queues for an early stop only.

exit 0 = no helper thread is left a moment after the consumer saw the failure.
"""
import logging
import os
import sys
import threading
import time

sys.path.insert(0, '/repo')
logging.disable(logging.CRITICAL)
from absl import logging as absl_logging  # noqa: E402
absl_logging.set_verbosity(absl_logging.FATAL)
from ml_metrics._src.utils import iter_utils  # noqa: E402


def failing(at):
  def gen(it):
    for x in it:
      if x == at:
        raise RuntimeError(f'boom at {x}')
      yield x
  return gen


def main():
  bad = 0
  for n_inputs, parallelism, at in [(2, 2, 5), (3, 1, 1003), (4, 3, 0)]:
    before = set(threading.enumerate())
    inputs = [iter(range(1000 * i, 1000 * (i + 1))) for i in range(n_inputs)]
    stream = iter_utils.piter(failing(at), input_iterators=inputs, max_parallism=parallelism, buffer_size=2)
    seen = None
    try:
      for _ in stream:
        pass
    except RuntimeError as e:
      seen = e
    deadline = time.time() + 3
    while time.time() < deadline and set(threading.enumerate()) - before:
      time.sleep(0.05)
    left = sorted(t.name for t in set(threading.enumerate()) - before)
    ok = seen is not None and not left
    print(f'{n_inputs} inputs, parallelism {parallelism}, failure at {at}: consumer saw {seen!r}; '
          f'threads left after 3s: {left or "none"}')
    bad += not ok
  print('OK' if not bad else f'VIOLATION: {bad} failed streams left helper threads behind')
  return 1 if bad else 0


if __name__ == '__main__':
  rc = main()
  sys.stdout.flush()
  os._exit(rc)
