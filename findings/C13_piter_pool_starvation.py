"""piter() with more input iterators than its own thread pool has workers deadlocks (R-C13-11).

When piter() creates the thread pool itself it used the executor default
(min(32, cpus + 4) threads).  Every input iterator needs one pool thread (a
feeder blocked on the bounded internal input queue) and the workers that drain
that queue are submitted AFTER the feeders.  With more input iterators than
pool threads the feeders occupy the whole pool, the workers never start, the
feeders block on the full input queue for ever: nothing is produced.

exit 0 = piter over many inputs (more than the default pool size) yields the
sequential multiset and its threads finish.
"""
import os
import sys
import threading

sys.path.insert(0, '/repo')
from ml_metrics._src.utils import iter_utils  # noqa: E402


def main():
  n_inputs = 2 * (min(32, (os.cpu_count() or 1) + 4)) + 3
  inputs = [iter(range(i * 10, i * 10 + 4)) for i in range(n_inputs)]
  want = sorted(x + 1 for i in range(n_inputs) for x in range(i * 10, i * 10 + 4))
  out = {}

  def run():
    q = iter_utils.piter(lambda it: (x + 1 for x in it), input_iterators=inputs, max_parallism=2)
    out['got'] = sorted(q)

  t = threading.Thread(target=run, daemon=True)
  t.start()
  t.join(15)
  if 'got' not in out:
    print(f'VIOLATION: piter over {n_inputs} inputs produced nothing within 15 s (feeders occupy every pool thread)')
    return 1
  ok = out['got'] == want
  print('OK' if ok else f'VIOLATION: wrong multiset ({len(out["got"])} of {len(want)} values)')
  return 0 if ok else 1


if __name__ == '__main__':
  code = main()
  sys.stdout.flush()
  os._exit(code)
