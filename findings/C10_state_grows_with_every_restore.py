"""Every restore of a sequence source nests its state one level deeper (R-C10-16).

SequenceDataSource.from_state replays the recorded chain of shard
configurations from the unsharded source; for the chain's root it ALSO calls
`.shard(0, 1, 0)`, which records the root as a parent once more.  The state of
a restored iterator is therefore one level deeper than the state it was
restored from: periodic checkpoint/restore makes every restore slower, and
after about a thousand generations from_state (it recurses over the chain)
dies with RecursionError ("for any number of successive checkpoints").

exit 0 = the state keeps its depth over 3000 successive restores.
"""
import os
import sys

sys.path.insert(0, '/repo')
from ml_metrics._src.chainables import io  # noqa: E402


def depth(state):
  d = 0
  while state is not None:
    d, state = d + 1, state.parent
  return d


def main():
  bad = 0
  for label, source in [('unsharded', io.SequenceDataSource(range(5000))),
                        ('shard 1 of 2', io.SequenceDataSource(range(9000)).shard(1, 2)),
                        ('nested shard', io.SequenceDataSource(range(20000)).shard(1, 2).shard(0, 3))]:
    expected = list(source)[:3001]
    it = source.iterate()
    start_depth = depth(it.state)
    got, err = [], None
    try:
      for _ in range(3000):
        got.append(next(it))
        it = it.from_state(it.state)
      got.append(next(it))
    except RecursionError as e:
      err = f'RecursionError after {len(got)} restores'
    ok = err is None and got == expected and depth(it.state) <= start_depth + 1
    print(f'{label}: {len(got)} elements over successive restores, state depth {start_depth} -> {depth(it.state)}'
          + (f', {err}' if err else '') + (' ok' if ok else ' WRONG'))
    bad += not ok
  print('OK' if not bad else f'VIOLATION: {bad} sources cannot be restored any number of times')
  return 1 if bad else 0


if __name__ == '__main__':
  sys.setrecursionlimit(1000)
  rc = main()
  sys.stdout.flush()
  os._exit(rc)
