"""After WorkerPool.iterate fails, a healthy worker never has capacity again (R-C06-15).

CourierClient.async_iterate marks its worker busy with an artificial pending
future and takes it back in a `finally`.  WorkerPool.iterate's clean-up cancelled
the still running tasks and then stopped the event loop at once:
state.cancel() only *schedules* the cancellation on the loop, the loop stopped
before running it, so the coroutine's `finally` never ran and the placeholder
stayed pending.  After a run that failed on one shard, the worker that was
still busy with another shard reports has_capacity == False for ever and
next_idle_worker never hands it out again.

exit 0 = after the failed run every worker has capacity again.
"""
import os
import queue
import sys
import threading
import time

sys.path.insert(0, os.path.dirname(os.path.abspath(__file__)))
sys.path.insert(0, '/repo')
from _support import fake_courier  # noqa: E402,F401
from absl import logging  # noqa: E402
from ml_metrics._src.chainables import courier_server, courier_worker, lazy_fns  # noqa: E402

logging.set_verbosity(logging.FATAL)


def shard(i):
  if i == 0:
    time.sleep(0.3)
    raise ValueError('application error in shard 0')
  for j in range(40):
    time.sleep(0.05)
    yield j


def main():
  servers = [courier_server.PrefetchedCourierServer(f'cap_{i}') for i in range(2)]
  for s in servers:
    s.start()
  pool = courier_worker.WorkerPool([s.address for s in servers], heartbeat_threshold_secs=20.0)
  pool.wait_until_alive(deadline_secs=20, minimum_num_workers=2)
  err = None
  try:
    tasks = [lazy_fns.trace(shard)(i) for i in range(2)]
    for _ in pool.iterate(tasks, generator_result_queue=queue.SimpleQueue(), total_tasks=2):
      pass
  except Exception as e:  # pylint: disable=broad-exception-caught
    err = e
  print('run ended with:', type(err).__name__, str(err)[:60])
  time.sleep(1.0)
  status = {w.address: (w.has_capacity, len(w.pendings)) for w in pool.all_workers}
  print('has_capacity / pending calls after the run:', status)
  stuck = [a for a, (cap, _) in status.items() if not cap]
  if err is None:
    print('demo did not provoke the application error')
    return 2
  if stuck:
    print(f'VIOLATION: workers {stuck} never regain capacity (placeholder future still pending)')
    return 1
  print('OK: every worker has capacity again')
  return 0


if __name__ == '__main__':
  threading.Timer(50, lambda: os._exit(3)).start()
  code = main()
  sys.stdout.flush()
  os._exit(code)
