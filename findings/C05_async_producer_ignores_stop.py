"""An async producer keeps pulling its iterator after a stop request / a sibling's failure (R-C05-3).

IteratorQueue.enqueue_from_iterator loops `while not self.enqueue_done`;
its async sibling AsyncIteratorQueue.async_enqueue_from_iterator looped
`while True`.  After maybe_stop(), or after another producer recorded a
failure, put() returns at once (the value is dropped) and the async producer
goes on drawing from its iterator: an endless source never returns, a finite
one is drained for nothing.

exit 0 = after the stop request / the sibling failure the other producer
returns without drawing further elements.
"""
import asyncio
import sys
import threading
import time

sys.path.insert(0, '/repo')
from ml_metrics._src.utils import iter_utils  # noqa: E402


async def scenario(kind):
  q = iter_utils.AsyncIteratorQueue(4, name=f'q_{kind}', timeout=1)
  pulled = {'n': 0}
  go_fail = asyncio.Event()

  async def endless():
    while True:
      pulled['n'] += 1
      yield pulled['n']
      await asyncio.sleep(0.001)

  async def failing():
    yield -1
    await go_fail.wait()
    raise ValueError('sibling failed')

  good = asyncio.ensure_future(q.async_enqueue_from_iterator(endless()))
  bad = None
  if kind == 'sibling-failure':
    bad = asyncio.ensure_future(q.async_enqueue_from_iterator(failing()))
  await asyncio.sleep(0.2)
  # a consumer drains a little so that producers are really running
  for _ in range(3):
    await q.async_get()
  if kind == 'stop-request':
    q.maybe_stop()
  else:
    go_fail.set()
    try:
      await bad
    except ValueError:
      pass
  at_stop = pulled['n']
  await asyncio.sleep(0.5)
  after = pulled['n']
  returned = good.done()
  good.cancel()
  return at_stop, after, returned


def main():
  bad = 0
  for kind in ('stop-request', 'sibling-failure'):
    at_stop, after, returned = asyncio.run(scenario(kind))
    print(f'{kind}: pulled {at_stop} at the stop, {after} half a second later, producer returned={returned}')
    if not returned or after - at_stop > 2:
      bad += 1
  print('OK' if not bad else f'VIOLATION: {bad} scenario(s): the async producer does not stop and return')
  return 1 if bad else 0


if __name__ == '__main__':
  threading.Timer(40, lambda: __import__('os')._exit(3)).start()
  code = main()
  sys.stdout.flush()
  __import__('os')._exit(code)
