"""A queue with error skipping hides a recorded failure from batch / iterating consumers (R-C05-13).

get_batch() breaks out of its loop — returning what it has, possibly nothing —
for any exception of get_nowait() when `ignore_error` is set.  That is meant
for a failing dequeue; but get_nowait() also RE-RAISES THE RECORDED producer /
stop failure (maybe_stop(exc), a put() that timed out) once the queue is
exhausted: with ignore_error the batch consumer then gets [] for ever and the
iterator built on it pops from its empty cache (IndexError) — only get()
raises the failure ("every consumer observes that exception").

exit 0 = every kind of consumer sees the recorded failure.
"""
import logging
import os
import sys

sys.path.insert(0, '/repo')
logging.disable(logging.CRITICAL)
from absl import logging as absl_logging  # noqa: E402
absl_logging.set_verbosity(absl_logging.FATAL)
from ml_metrics._src.utils import iter_utils  # noqa: E402


def stopped_queue():
  q = iter_utils.IteratorQueue(4, ignore_error=True, name='skipping')
  q.put_nowait(0)
  q.maybe_stop(ValueError('recorded failure'))
  return q


def main():
  bad = 0
  for label, consume in [('get()', lambda q: [q.get(), q.get()]),
                         ('get_batch()', lambda q: [q.get_batch(), q.get_batch(), q.get_batch()]),
                         ('iteration', lambda q: list(q))]:
    q = stopped_queue()
    try:
      got = consume(q)
      seen = f'no error, returned {got}'
    except Exception as e:  # pylint: disable=broad-exception-caught
      seen = f'{type(e).__name__}: {e}'
    ok = seen.startswith('ValueError: recorded failure')
    print(f'{label}: {seen} ' + ('ok' if ok else 'WRONG: the consumer does not observe the recorded failure'))
    bad += not ok
  print('OK' if not bad else f'VIOLATION: {bad} kinds of consumers never see the failure')
  return 1 if bad else 0


if __name__ == '__main__':
  rc = main()
  sys.stdout.flush()
  os._exit(rc)
