"""C04: a non-blocking drain through the public get_nowait() loses the last element."""
import queue
from ml_metrics._src.utils import iter_utils
q = iter_utils.IteratorQueue(0)
q.enqueue_from_iterator(iter([1, 2, 3]))
got, err = [], None
try:
  while True:
    got.append(q.get_nowait())
except StopIteration:
  pass
except Exception as e:
  err = e
print('received', got, 'error', repr(err))
ok = got == [1, 2, 3] and err is None
print('OK' if ok else 'FAIL')
raise SystemExit(0 if ok else 1)
