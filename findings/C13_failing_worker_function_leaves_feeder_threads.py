"""piter() raising while it sets up the workers leaves the feeder threads blocked (R-C13-16).

With several inputs piter first launches one feeder thread per input (they
fill a bounded input queue), then builds the worker iterators by CALLING the
worker function on that queue.  When that call raises (wrong arity, a function
that validates its input eagerly) piter re-raises to the caller — and nothing
stops the input queue: the feeders stay blocked in put() on the full buffer
for good, the caller has no handle to stop them ("when the stream ... fails
..., all helper threads finish").

exit 0 = no helper thread is left after piter() raised.
"""
import os
import sys
import threading
import time

sys.path.insert(0, '/repo')
from ml_metrics._src.utils import iter_utils  # noqa: E402


def eager_check(it):
  raise ValueError('worker function rejects its input')


def main():
  bad = 0
  for label, fn, kw in [('wrong arity', lambda: iter(()), dict(max_parallism=1)),
                        ('eager validation fails', eager_check, dict(max_parallism=2)),
                        ('second worker fails', None, dict(max_parallism=2))]:
    if fn is None:
      calls = []
      def fn(it, calls=calls):
        calls.append(1)
        if len(calls) == 2:
          raise ValueError('second worker cannot be built')
        return map(lambda x: x, it)
    before = set(threading.enumerate())
    try:
      iter_utils.piter(fn, input_iterators=[iter(range(100)), iter(range(100))], buffer_size=1, **kw)
      outcome = 'returned'
    except Exception as e:  # pylint: disable=broad-exception-caught
      outcome = f'raised {type(e).__name__}'
    deadline = time.time() + 2
    while time.time() < deadline and set(threading.enumerate()) - before:
      time.sleep(0.05)
    left = set(threading.enumerate()) - before
    print(f'{label}: piter {outcome}; helper threads left after 2s: {len(left)} ' + ('ok' if not left else 'VIOLATION'))
    bad += bool(left)
  print('OK' if not bad else f'VIOLATION: {bad} failed set-ups left feeder threads behind')
  return 1 if bad else 0


if __name__ == '__main__':
  rc = main()
  sys.stdout.flush()
  os._exit(rc)
