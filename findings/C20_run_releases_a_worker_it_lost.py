"""WorkerPool.run() frees a worker that meanwhile belongs to another pool (R-C20-12, strict form).

run() acquires a worker, submits the task and calls the unconditional
`worker.release()` in its `finally`.  While run() waits for the result another
thread of the SAME pool calls `release_all()` (as every pool-level operation
does in its own finally); the worker is free, pool B acquires it — and when
A.run() returns, its finally releases B's worker ("a pool can only release
workers it owns or that are free").  An acquire earlier on the path is no
lasting ownership fact: only a release that names its owner and is re-validated
under the worker's state lock is safe.

exit 0 = B still owns the worker after A.run() returned.
"""
import os
import sys
import threading

sys.path.insert(0, '/repo')
sys.path.insert(0, os.path.join(os.path.dirname(os.path.abspath(__file__)), '_support'))
import fake_courier  # noqa: E402,F401
from ml_metrics._src.chainables import courier_worker  # noqa: E402
from ml_metrics._src.chainables import lazy_fns  # noqa: E402


class _Pending:
  def __init__(self, ev):
    self._ev = ev

  def result(self):
    self._ev.wait(5)
    return 'done'


def main():
  pool_a = courier_worker.WorkerPool(['c20_run_w'])
  pool_b = courier_worker.WorkerPool(['c20_run_w'])
  worker = pool_a.all_workers[0]
  assert worker is pool_b.all_workers[0]
  submitted, answer = threading.Event(), threading.Event()
  orig_submit = courier_worker.Worker.submit
  orig_idle = courier_worker.WorkerPool.next_idle_worker

  def submit(self, task):
    submitted.set()
    return _Pending(answer)

  def next_idle_worker(self, *a, **k):
    w = self.all_workers[0]
    return w if w.acquire_by(self) else None

  courier_worker.Worker.submit = submit
  courier_worker.WorkerPool.next_idle_worker = next_idle_worker
  orig_wait = courier_worker.WorkerPool.wait_until_alive
  courier_worker.WorkerPool.wait_until_alive = lambda self, *a, **k: None
  try:
    out = []
    t = threading.Thread(target=lambda: out.append(pool_a.run(lazy_fns.trace(len)([1, 2]))), daemon=True)
    t.start()
    submitted.wait(5)
    pool_a.release_all()                      # another thread of pool A tidies up
    got_b = worker.acquire_by(pool_b)         # the worker is free: B takes it
    answer.set()
    t.join(5)
  finally:
    courier_worker.Worker.submit = orig_submit
    courier_worker.WorkerPool.next_idle_worker = orig_idle
    courier_worker.WorkerPool.wait_until_alive = orig_wait
  still_b = worker.is_locked(pool_b)
  print(f'A.run() returned {out}; B acquired the worker meanwhile: {got_b}; B still owns it after A.run() returned: {still_b}')
  bad = got_b and not still_b
  print('OK' if not bad else 'VIOLATION: A.run() released a worker that belonged to pool B')
  return 1 if bad else 0


if __name__ == '__main__':
  rc = main()
  sys.stdout.flush()
  os._exit(rc)
