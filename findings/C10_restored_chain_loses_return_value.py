"""A restored pipeline iterator forgets part of its configuration (R-C10-10).

_ChainedRunnerIterator.from_state rebuilt the iterator without the `state`,
`total` and `single_batch` arguments of its constructor.  `_with_agg` is
computed as `state and (...)`, so the restored iterator had _with_agg = None:
at the end of the resumed run StopIteration carried no AggregateResult (the
uninterrupted run returns the final aggregate and aggregation state that way;
`yield from`, orchestrate and the worker pool read it from there), and
len(iterator) dropped to 0.

exit 0 = the resumed run ends with the same StopIteration value (aggregate
result + state) and reports the same length as the uninterrupted run.
"""
import sys

sys.path.insert(0, '/repo')
import numpy as np  # noqa: E402
from ml_metrics._src.aggregates import rolling_stats  # noqa: E402
from ml_metrics._src.chainables import io, transform  # noqa: E402


def pipe():
  ds = io.SequenceDataSource([np.arange(i * 3., i * 3. + 3) for i in range(6)])
  return (transform.TreeTransform.new(name='s1').data_source(ds)
          .agg(fn=rolling_stats.MeanAndVariance(), output_keys='m'))


def drain(it):
  n = 0
  while True:
    try:
      next(it)
      n += 1
    except StopIteration as e:
      return n, e.value


def main():
  bad = 0
  r = pipe().make()
  full_it = r.iterate(total=6)
  _, full = drain(full_it)
  want = (type(full).__name__, int(full.agg_state[next(iter(full.agg_state))]._count))
  for cut in range(0, 6):
    it = r.iterate(total=6)
    for _ in range(cut):
      next(it)
    resumed = it.from_state(it.state)
    length = len(resumed)
    _, ret = drain(resumed)
    got = (type(ret).__name__, int(ret.agg_state[next(iter(ret.agg_state))]._count) if ret is not None else None)
    if got != want or length != 6:
      bad += 1
      print(f'cut={cut}: resumed run returned {got} with len {length}; uninterrupted run returned {want} with len 6')
  print('OK' if not bad else f'VIOLATION: {bad} cut positions lose the returned aggregate / the length')
  sys.exit(1 if bad else 0)


if __name__ == '__main__':
  main()
