"""A failing element inside a lazily sliced sub-sequence is followed by repeats (R-C12-13).

_RangeIterator reads ahead with `self._cache.extend(self.data[i:i+n])` inside
the try block whose handler shrinks the window and retries from the same i.
When the slice is lazy (a MergedSequences used as a sub-sequence of another
MergedSequences / of SequenceDataSource.from_sequences returns an iterator for
a slice), the failure surfaces half-way through extend(): the elements read
before it stay in the cache, i is not advanced, and the retry reads them again.

exit 0 = with error skipping every readable element is delivered exactly once.
"""
import sys

sys.path.insert(0, '/repo')
from ml_metrics._src.chainables import io  # noqa: E402
from ml_metrics._src.utils import iter_utils  # noqa: E402


class Seq:
  """A random-access sequence whose element `bad` cannot be read."""

  def __init__(self, n, bad):
    self.n, self.bad = n, bad

  def __len__(self):
    return self.n

  def __getitem__(self, i):
    if isinstance(i, slice):
      return [self[j] for j in range(*i.indices(self.n))]
    if i == self.bad:
      raise ValueError(f'unreadable element {i}')
    if not 0 <= i < self.n:
      raise IndexError(i)
    return i


def main():
  bad_cases = 0
  for n in (6, 10, 17):
    for bad in range(n):
      for inner_batch in (1, 2, 8):
        want = [i for i in range(n) if i != bad]
        inner = iter_utils.MergedSequences([Seq(n, bad)], max_batch_size=inner_batch)
        ds = io.SequenceDataSource.from_sequences([inner], ignore_error=True)
        got = list(ds)
        if got != want:
          bad_cases += 1
          if bad_cases <= 5:
            print(f'n={n} bad={bad} inner read-ahead={inner_batch}: delivered {got}, expected {want}')
  print('OK' if not bad_cases else f'VIOLATION: {bad_cases} cases deliver elements twice (or lose them)')
  sys.exit(1 if bad_cases else 0)


if __name__ == '__main__':
  main()
