"""With n workers the return values of the input generators are collected n times (R-C13-17).

piter(fn, input_iterators=[g1, g2], max_parallism=n) multiplexes the inputs
into one queue and lets n workers read it through ONE shared, lock-protected
iterator.  The end of that queue is `StopIteration(*returned)` — the return
values of g1 and g2 — and a queue-backed iterator raises it again on every
further next().  Each of the n workers therefore ends with the same values and
the output queue records them n times: returned == ['a','b','a','b','a','b']
for n = 3, where one worker (and the sequential evaluation) gives ['a', 'b']:
"collects every generator's return value" — each once.

exit 0 = the collected return values do not depend on the number of workers.
"""
import os
import sys

sys.path.insert(0, '/repo')
from ml_metrics._src.utils import iter_utils  # noqa: E402


def gen(tag, n):
  for i in range(n):
    yield (tag, i)
  return tag


def main():
  bad = 0
  want = None
  for workers in (1, 2, 3, 5):
    q = iter_utils.piter(lambda it: map(lambda x: x, it), input_iterators=[gen('a', 4), gen('b', 3)],
                         max_parallism=workers, buffer_size=2)
    values = sorted(q)
    returned = sorted(q.returned)
    if want is None:
      want = returned
    ok = returned == want and len(values) == 7
    print(f'{workers} worker(s): {len(values)} values, returned={returned} ' + ('ok' if ok else 'VIOLATION'))
    bad += not ok
  print('OK' if not bad else f'VIOLATION: {bad} degrees of parallelism collect other return values than one worker')
  return 1 if bad else 0


if __name__ == '__main__':
  rc = main()
  sys.stdout.flush()
  os._exit(rc)
