"""A consumer that only polls get_nowait() never wakes the blocked producer (R-C04-5).

get() and get_batch() notify the enqueue condition after a successful dequeue;
the public non-blocking get_nowait() does not.  On a bounded queue the
producer blocked in put() (buffer full) waits on that condition: a consumer
that drains the queue by polling get_nowait() frees the slot but the producer
is never told - with no timeout configured it stays blocked for ever and the
consumer sees queue.Empty for ever (elements never delivered, no
end-of-stream).

exit 0 = a polling consumer receives every element and then end-of-stream.
"""
import queue
import sys
import threading
import time

sys.path.insert(0, '/repo')
from ml_metrics._src.utils import iter_utils  # noqa: E402


def main():
  q = iter_utils.IteratorQueue(1, name='polling')
  t = threading.Thread(target=q.enqueue_from_iterator, args=(range(5),), daemon=True)
  t.start()
  got, end = [], None
  deadline = time.time() + 5
  while time.time() < deadline:
    try:
      got.append(q.get_nowait())
    except queue.Empty:
      time.sleep(0.01)
    except StopIteration as e:
      end = e
      break
  print(f'received {got}, end-of-stream={end is not None}, producer still alive={t.is_alive()}')
  ok = got == [0, 1, 2, 3, 4] and end is not None and not t.is_alive()
  print('OK' if ok else 'VIOLATION: the producer stays blocked in put() although its slot was freed')
  return 0 if ok else 1


if __name__ == '__main__':
  code = main()
  sys.stdout.flush()
  __import__('os')._exit(code)
