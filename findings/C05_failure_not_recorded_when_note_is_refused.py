"""A producer failure whose exception object refuses add_note() is never recorded: the consumer waits forever (R-C05-15).

The failure handlers of the producers decorate the caught exception
(`e.add_note(...)`) BEFORE they record it (`self._exception = e`) and stop the
queue.  add_note() stores `__notes__` on the object — an exception class that
is a frozen dataclass (or defines __slots__ / a restrictive __setattr__)
raises from it.  The handler is left by that second exception: nothing is
recorded, the enqueuer is never counted as done, and every consumer of a queue
without a timeout blocks for good: "every consumer observes that exception
(never a clean end-of-stream and never an indefinite wait)".

exit 0 = the consumer observes the producer's exception.
"""
import asyncio
import dataclasses
import os
import sys
import threading

sys.path.insert(0, '/repo')
from ml_metrics._src.utils import iter_utils  # noqa: E402


@dataclasses.dataclass(frozen=True)
class BadRecord(Exception):
  index: int


def failing():
  yield 1
  raise BadRecord(7)


class FailingOpen:
  def __iter__(self):
    raise BadRecord(0)


async def afailing():
  yield 1
  raise BadRecord(7)


def observe(q):
  got = []
  def consume():
    try:
      while True:
        got.append(('value', q.get()))
    except BaseException as e:  # pylint: disable=broad-exception-caught
      got.append((type(e).__name__, str(e)[:40]))
  t = threading.Thread(target=consume, daemon=True)
  t.start()
  t.join(3)
  return 'consumer still blocked after 3s' if t.is_alive() else got[-1]


def main():
  bad = 0
  for label, make in [('iterator fails at its 2nd element', failing), ('iterable fails when opened', FailingOpen)]:
    q = iter_utils.IteratorQueue(4, name=label)
    def produce():
      try:
        q.enqueue_from_iterator(make())
      except BaseException:  # pylint: disable=broad-exception-caught
        pass
    threading.Thread(target=produce, daemon=True).start()
    res = observe(q)
    ok = isinstance(res, tuple) and res[0] == 'BadRecord'
    print(f'sync, {label}: recorded={q.exception!r}; consumer: {res} ' + ('ok' if ok else 'VIOLATION'))
    bad += not ok
  q = iter_utils.AsyncIteratorQueue(4, name='async') if hasattr(iter_utils, 'AsyncIteratorQueue') else None
  if q is not None:
    def aproduce():
      try:
        asyncio.run(q.async_enqueue_from_iterator(afailing()))
      except BaseException:  # pylint: disable=broad-exception-caught
        pass
    threading.Thread(target=aproduce, daemon=True).start()
    res = observe(q)
    ok = isinstance(res, tuple) and res[0] == 'BadRecord'
    print(f'async, iterator fails at its 2nd element: recorded={q.exception!r}; consumer: {res} ' + ('ok' if ok else 'VIOLATION'))
    bad += not ok
  print('OK' if not bad else f'VIOLATION: {bad} producer failures were not delivered')
  return 1 if bad else 0


if __name__ == '__main__':
  rc = main()
  sys.stdout.flush()
  os._exit(rc)
