"""C20/C06: pool-level operations leave workers acquired (fake courier transport)."""
import sys, types, time
from concurrent import futures

# -- a fake `courier` module: Client(...).futures.<method>(...) -> done Future
class _Futures:
  def __init__(self, addr): self.addr = addr
  def __getattr__(self, name):
    def call(*a, **k):
      f = futures.Future()
      if name == 'maybe_make' and BEHAVIOUR.get(self.addr) == 'fail':
        f.set_exception(ValueError('task failed'))
      else:
        f.set_result(None)
      return f
    return call
class Client:
  def __init__(self, addr, call_timeout=None): self.futures = _Futures(addr)
class Server:
  def __init__(self, *a, **k): pass
fake = types.ModuleType('courier'); fake.Client = Client; fake.Server = Server
sys.modules['courier'] = fake
BEHAVIOUR = {}

from ml_metrics._src.utils import courier_utils
from ml_metrics._src.chainables import courier_worker, orchestrate, lazy_fns

def fresh_pool(names):
  for n in names:
    courier_utils.worker_registry().register(n, time.time())
  return courier_worker.WorkerPool(names)

fails = []
# F-C20-1: as_completed raises -> workers stay acquired
BEHAVIOUR.clear(); BEHAVIOUR['w1'] = 'fail'; BEHAVIOUR['w2'] = 'fail'
pool = fresh_pool(['w1', 'w2'])
try:
  list(orchestrate.as_completed(pool, [lazy_fns.trace(len)([1]) for _ in range(2)]))
except Exception as e:
  pass
if pool.acquired_workers:
  fails.append(f'as_completed raised and left {len(pool.acquired_workers)} worker(s) acquired')
pool.release_all()
# F-C20-2: WorkerPool.run raises -> worker stays acquired
BEHAVIOUR.clear(); BEHAVIOUR['w3'] = 'fail'
pool = fresh_pool(['w3'])
try:
  pool.run(lazy_fns.trace(len)([1]))
except Exception:
  pass
if pool.acquired_workers:
  fails.append(f'WorkerPool.run raised and left {len(pool.acquired_workers)} worker(s) acquired')
pool.release_all()
# F-C20-3: next_idle_worker keeps an acquired-but-dead worker
BEHAVIOUR.clear()
pool = fresh_pool(['w4', 'w5'])
courier_utils.worker_registry().unregister('w4')     # w4 is dead
w = pool.next_idle_worker(maybe_acquire=True)
if w is not None:
  w.release()
if pool.acquired_workers:
  fails.append(f'next_idle_worker kept {[x.address for x in pool.acquired_workers]} acquired without returning it')
pool.release_all()
for f in fails: print('FAIL', f)
print('OK' if not fails else f'{len(fails)} failures')
raise SystemExit(1 if fails else 0)
