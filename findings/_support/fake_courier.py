"""In-process fake of the `courier` RPC package (Server/Client/StatusError) so that
the real CourierServer / WorkerPool / orchestrate code can run in this sandbox,
where the `courier` wheel is not installed. Importing this module installs the fake
as sys.modules['courier']. HOOKS: fn(address, method, future) -> True if answered."""
import collections
from concurrent import futures
import os
import sys
import threading
import time
import types as pytypes

# ----------------------------------------------------------------------------
# In-process fake of the `courier` package.
# ----------------------------------------------------------------------------
SERVERS = {}  # address -> Server
HOOKS = []  # fn(address, method, future) -> True if the hook answered


class StatusError(Exception):

  def __init__(self, code, message):
    super().__init__(message)
    self.code = code
    self.message = message


class Server:

  def __init__(self, name=None, port=None):
    self.address = name or f'localhost:{port or 0}'
    self._handlers = {}
    self.has_started = False

  def Bind(self, name, fn):  # pylint: disable=invalid-name
    self._handlers[name] = fn

  def Start(self):  # pylint: disable=invalid-name
    self.has_started = True
    SERVERS[self.address] = self

  def Stop(self):  # pylint: disable=invalid-name
    self.has_started = False
    if SERVERS.get(self.address) is self:
      del SERVERS[self.address]


def set_future(future, result=None, exc=None):
  try:
    if exc is not None:
      future.set_exception(exc)
    else:
      future.set_result(result)
  except futures.InvalidStateError:
    pass  # The caller gave up already.


class _Futures:

  def __init__(self, client):
    self._client = client

  def __getattr__(self, method):
    address = self._client.address

    def call(*args, **kwargs):
      future = futures.Future()

      def run():
        for hook in list(HOOKS):
          if hook(address, method, future):
            return
        server = SERVERS.get(address)
        if server is None or method not in server._handlers:
          return set_future(future, exc=StatusError(14, f'{address} unavailable'))
        try:
          set_future(future, server._handlers[method](*args, **kwargs))
        except BaseException as e:  # pylint: disable=broad-exception-caught
          set_future(future, exc=e)

      threading.Thread(target=run, daemon=True).start()
      return future

    return call


class Client:

  def __init__(self, address, call_timeout=None):
    self.address = address
    self.call_timeout = call_timeout
    self.futures = _Futures(self)


_fake = pytypes.ModuleType('courier')
_fake.Server = Server
_fake.Client = Client
_fake.StatusError = StatusError
sys.modules['courier'] = _fake

