"""A StopIteration raised while a lazy ARGUMENT is evaluated becomes a RuntimeError (R-C17-13).

LazyFn.result_ materialises its positional arguments with a generator
expression: `tuple(_maybe_make(arg) for arg in self.args)`.  An exception of
type StopIteration raised inside a generator is converted by the interpreter
into RuntimeError("generator raised StopIteration") (PEP 479).  The eager
expression `f(next(iter([])))` raises StopIteration; the traced one raises
RuntimeError — keyword arguments (a dict comprehension) and the callee itself
are not affected, so the outcome depends on WHERE the sub-expression sits.

exit 0 = the traced expression raises what the eager one raises.
"""
import os
import sys

sys.path.insert(0, '/repo')
from ml_metrics._src.chainables import lazy_fns  # noqa: E402


def ident(x=None, **kw):
  return x


def outcome(fn):
  try:
    return ('value', fn())
  except BaseException as e:  # pylint: disable=broad-exception-caught
    return (type(e).__name__, str(e)[:40])


def main():
  bad = 0
  cases = [
      ('positional argument', lambda: ident(next(iter([]))), lambda: lazy_fns.maybe_make(lazy_fns.trace(ident)(lazy_fns.trace(next)(iter([]))))),
      ('keyword argument', lambda: ident(k=next(iter([]))), lambda: lazy_fns.maybe_make(lazy_fns.trace(ident)(k=lazy_fns.trace(next)(iter([]))))),
      ('the call itself', lambda: next(iter([])), lambda: lazy_fns.maybe_make(lazy_fns.trace(next)(iter([])))),
      ('positional argument, value present', lambda: ident(next(iter([7]))), lambda: lazy_fns.maybe_make(lazy_fns.trace(ident)(lazy_fns.trace(next)(iter([7]))))),
  ]
  for label, eager, lazy in cases:
    e, l = outcome(eager), outcome(lazy)
    ok = e[0] == l[0] and (e[0] != 'value' or e[1] == l[1])
    print(f'{label}: eager {e}, traced {l} ' + ('ok' if ok else 'DIFFERENT'))
    bad += not ok
  print('OK' if not bad else f'VIOLATION: {bad} traced expressions do not behave like the eager expression')
  return 1 if bad else 0


if __name__ == '__main__':
  rc = main()
  sys.stdout.flush()
  os._exit(rc)
