"""Restoring twice from one captured state doubled the aggregate (R-C10-9).

_RunnerIterator.state deep-copies the aggregate on capture, but
_RunnerIterator.from_state handed the captured accumulators themselves to the
restored iterator, whose update_state then mutated them in place.  Running the
restored iterator therefore changed the checkpoint: restoring from the same
captured state again (the job failed a second time before the next checkpoint
was written) resumed from accumulators that already contained the batches of
the first resumed run.

exit 0 = both runs resumed from the same state report the aggregate of the
uninterrupted run, and the captured state is unchanged by running them.
"""
import copy
import sys

sys.path.insert(0, '/repo')
import numpy as np  # noqa: E402
from ml_metrics._src.aggregates import rolling_stats  # noqa: E402
from ml_metrics._src.chainables import io, transform  # noqa: E402


def pipe(chained):
  ds = io.SequenceDataSource([np.arange(i * 3., i * 3. + 3) for i in range(6)])
  t = transform.TreeTransform.new(name='s1').data_source(ds)
  if chained:
    return t.apply(fn=lambda x: x + 1).chain(
        transform.TreeTransform.new(name='s2').agg(
            fn=rolling_stats.MeanAndVariance(), output_keys='m'))
  return t.agg(fn=rolling_stats.MeanAndVariance(), output_keys='m')


def main():
  bad = 0
  for chained in (False, True):
    r = pipe(chained).make()
    full_it = r.iterate()
    list(full_it)
    full = full_it.agg_result
    for cut in range(0, 7):
      it = r.iterate()
      for _ in range(cut):
        next(it)
      state = it.state
      counts = []
      for _ in range(2):
        resumed = it.from_state(state)
        list(resumed)
        agg = resumed.agg_result
        counts.append({k: int(v._count) for k, v in agg.items()})
      want = {k: int(v._count) for k, v in full.items()}
      if counts != [want, want]:
        bad += 1
        print(f'chained={chained} cut={cut}: first/second resume counts {counts}, expected {want}')
  print('OK' if not bad else f'VIOLATION: {bad} cut positions: the second resume from the same state differs')
  sys.exit(1 if bad else 0)


if __name__ == '__main__':
  main()
