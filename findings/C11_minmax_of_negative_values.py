"""MinMaxAndCount reports max 0 for all-negative data, and a fresh state is not neutral under merge (R-C11-18).

The running maximum starts at 0 (the running minimum at +inf): `np.maximum(0,
max(batch))` is 0 whenever every value is negative, and `fresh.merge(s)` turns
s.max = -1 into 0 — "a freshly created (empty) state is a neutral element on
either side".  The neutral element of max is -inf.

exit 0 = max of negative data is the true maximum, and fresh ⊕ s == s ⊕ fresh == s.
"""
import os
import sys

import numpy as np

sys.path.insert(0, '/repo')
from ml_metrics._src.aggregates import rolling_stats  # noqa: E402


def mm():
  return rolling_stats.MinMaxAndCount()


def triple(s):
  return (int(s.count), float(np.asarray(s.min)), float(np.asarray(s.max)))


def main():
  bad = 0
  for label, data in [('all negative', [-3.0, -1.0, -2.0]), ('mixed (control)', [-3.0, 4.0, 2.0]), ('all positive (control)', [3.0, 1.0, 2.0])]:
    want = (len(data), min(data), max(data))
    s = mm().add(data)
    a = triple(s)
    b = triple(mm().merge(mm().add(data)))
    c = triple(mm().add(data).merge(mm()))
    ok = a == want and b == want and c == want
    print(f'{label}: add -> {a}; fresh.merge(s) -> {b}; s.merge(fresh) -> {c}; expected {want} ' + ('ok' if ok else 'VIOLATION'))
    bad += not ok
  halves = triple(mm().add([-5.0, -4.0]).merge(mm().add([-9.0, -7.0])))
  ok = halves == (4, -9.0, -4.0)
  print(f'two negative shards merged -> {halves}; expected (4, -9.0, -4.0) ' + ('ok' if ok else 'VIOLATION'))
  bad += not ok
  print('OK' if not bad else f'VIOLATION: {bad} results differ from min/max of the data')
  return 1 if bad else 0


if __name__ == '__main__':
  rc = main()
  sys.stdout.flush()
  os._exit(rc)
