"""as_completed crashes without any fault: three workers, one fast and two slow tasks (R-C06-12).

After the task iterator is exhausted as_completed releases the workers it does
not need and reserves some proven ("preferred") ones as back-ups for the
unproven workers that are still running:

    candidates = list(preferred - running or acquired - running)
    reserved.update(random.sample(candidates, k=len(running - preferred)))

With one proven idle worker and two unproven running ones, k = 2 exceeds the
single candidate and random.sample raises ValueError("Sample larger than
population"): the run aborts although no worker failed and two results were
never delivered.

exit 0 = all three results are delivered exactly once and the workers released.
"""
import os
import sys
import threading
import time

sys.path.insert(0, os.path.dirname(os.path.abspath(__file__)))
sys.path.insert(0, '/repo')
from _support import fake_courier  # noqa: E402,F401  (installs sys.modules['courier'])
from absl import logging  # noqa: E402
from ml_metrics._src.chainables import courier_server, courier_worker, lazy_fns, orchestrate  # noqa: E402

logging.set_verbosity(logging.FATAL)


def work(i):
  time.sleep(0.05 if i == 0 else 1.0)
  return i * 10


def main():
  servers = [courier_server.CourierServer(f'w_{i}') for i in range(3)]
  for s in servers:
    s.start()
  pool = courier_worker.WorkerPool([s.address for s in servers], heartbeat_threshold_secs=20.0)
  pool.wait_until_alive(deadline_secs=20, minimum_num_workers=3)
  outcome = {'results': [], 'error': None, 'done': False}

  def run():
    try:
      tasks = (lazy_fns.trace(work)(i) for i in range(3))
      for r in orchestrate.as_completed(pool, tasks):
        outcome['results'].append(r)
    except BaseException as e:  # pylint: disable=broad-exception-caught
      outcome['error'] = e
    outcome['done'] = True

  t = threading.Thread(target=run, daemon=True)
  t.start()
  t.join(30)
  ok = True
  if not outcome['done']:
    print('VIOLATION: run did not finish')
    ok = False
  if outcome['error'] is not None:
    e = outcome['error']
    print(f'VIOLATION: fault-free run failed: {type(e).__name__}: {e}; delivered {sorted(outcome["results"])}')
    ok = False
  elif sorted(outcome['results']) != [0, 10, 20]:
    print(f'VIOLATION: delivered {sorted(outcome["results"])}, expected [0, 10, 20]')
    ok = False
  locked = [w.address for w in pool.all_workers if w.is_locked()]
  if locked:
    print(f'VIOLATION: workers {locked} not released')
    ok = False
  if ok:
    print('OK: [0, 10, 20] delivered, all workers released')
  return 0 if ok else 1


if __name__ == '__main__':
  threading.Timer(50, lambda: os._exit(3)).start()
  code = main()
  sys.stdout.flush()
  os._exit(code)
