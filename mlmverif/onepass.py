"""Single-pass discipline: a one-shot iterable is consumed at most once.

A generator object, a `map`/`zip`/`filter`/`iter` object or a parameter typed
`Iterable`/`Iterator` can be traversed once.  Consuming it inside a loop (or a
comprehension) that it was created outside of — or at two places — silently
yields nothing the second time: the second aggregate gets no slices, the second
stage merges no states.  The analysis reports such consumption sites.

Sources
  * parameters annotated Iterable / Iterator / Generator (not Sequence etc.);
  * locals bound to a generator expression, a call of `iter/map/zip/filter`,
    a call that resolves to a generator function, or a method call whose name
    is only ever defined as a generator method in the repository;
  * elements of a list/tuple (comprehension) built from such expressions, when
    bound again by iterating that container.
A name stops being a source where it is re-bound to `list(x)`, `tuple(x)`,
`sorted(x)`, `set(x)`, `dict(x)` (materialised).
"""
from __future__ import annotations

import ast

from mlmverif.core import FuncInfo, Repo, parent_map, unparse

ONE_SHOT_CALLS = {'iter', 'map', 'zip', 'filter', 'enumerate', 'reversed', 'itertools.chain',
                  'itt.chain', 'itertools.chain.from_iterable', 'itt.chain.from_iterable'}
# wrappers whose purpose is to SHARE one iterator between several consumers
SHARED_WRAPPERS = {'_ThreadSafeIterator': 'lock-protected iterator shared by the pool threads on purpose'}
MATERIALISE = {'list', 'tuple', 'sorted', 'set', 'dict', 'frozenset', 'collections.deque'}
NON_CONSUMING = {'next', 'anext', 'iter', 'aiter', 'mit.first', 'mit.spy', 'mit.prepend', 'mit.peekable',
                 'isinstance', 'len', 'type', 'id', 'repr', 'str', 'print', 'hasattr', 'getattr',
                 'logging.info', 'logging.debug', 'logging.warning', 'logging.error', 'callable'}


def _conditional(node: ast.AST, pm: dict, fn: ast.AST) -> bool:
  """True when `node` only executes on some paths (it sits in an arm of an if / try / match below `fn`)."""
  q = pm.get(node)
  while q is not None and q is not fn:
    if isinstance(q, (ast.If, ast.Try, ast.Match, ast.IfExp)):
      return True
    q = pm.get(q)
  return False


def _has_yield(fn: ast.AST) -> bool:
  stack = list(ast.iter_child_nodes(fn))
  while stack:
    x = stack.pop()
    if isinstance(x, (ast.Yield, ast.YieldFrom)):
      return True
    if isinstance(x, (ast.FunctionDef, ast.AsyncFunctionDef, ast.Lambda, ast.ClassDef)):
      continue
    stack.extend(ast.iter_child_nodes(x))
  return False


class OnePass:

  def __init__(self, repo: Repo):
    self.repo = repo
    self.gen_methods: dict[str, bool] = {}
    by_name: dict[str, list[bool]] = {}
    for fi in repo.all_functions():
      by_name.setdefault(fi.name, []).append(_has_yield(fi.node))
    # a method/function name that is a generator function wherever it is defined
    self.gen_names = {n for n, v in by_name.items() if v and all(v)}
    self.analysed_sources = 0

  def is_one_shot_expr(self, e: ast.AST, fi: FuncInfo) -> bool:
    if isinstance(e, ast.GeneratorExp):
      return True
    if isinstance(e, ast.Call):
      fn = unparse(e.func)
      if fn in ONE_SHOT_CALLS:
        return True
      last = fn.split('.')[-1]
      if isinstance(e.func, ast.Attribute) and last in self.gen_names:
        return True
      if isinstance(e.func, ast.Name) and last in self.gen_names and (
          last in fi.module.functions):
        return True
    return False

  def _elements_one_shot(self, e: ast.AST, fi: FuncInfo) -> set[int] | None:
    """Positions of tuple elements that are one-shot for a container of tuples."""
    elt = None
    if isinstance(e, (ast.ListComp, ast.SetComp)):
      elt = e.elt
    elif isinstance(e, (ast.List, ast.Tuple)) and e.elts:
      elt = e.elts[0]
    if elt is None:
      return None
    if isinstance(elt, ast.Tuple):
      pos = {i for i, x in enumerate(elt.elts) if self.is_one_shot_expr(x, fi)}
      return pos or None
    return {-1} if self.is_one_shot_expr(elt, fi) else None

  def analyse(self, fi: FuncInfo) -> list[tuple[ast.AST, str]]:
    fn = fi.node
    pm = parent_map(fn)
    out = []

    def loops_of(n):
      ls = []
      prev = n
      q = pm.get(n)
      while q is not None and q is not fn:
        if isinstance(q, (ast.For, ast.While, ast.AsyncFor)) and prev is not getattr(q, 'iter', None):
          ls.append(q)
        if isinstance(q, ast.comprehension):
          comp = pm.get(q)
          first = comp.generators[0] if comp is not None else None
          # the iterable of the FIRST generator is evaluated once, outside the loop
          if not (q is first and prev is q.iter):
            ls.append(comp)
          prev = comp
          q = pm.get(comp)
          continue
        if isinstance(q, (ast.ListComp, ast.SetComp, ast.DictComp, ast.GeneratorExp)):
          # reached through the element / key / value expression
          ls.append(q)
        if isinstance(q, (ast.FunctionDef, ast.AsyncFunctionDef, ast.Lambda)):
          break
        prev = q
        q = pm.get(q)
      return ls

    # sources: name -> (definition node, kind)
    sources: dict[str, list[ast.AST]] = {}
    a = fn.args
    for p in a.posonlyargs + a.args + a.kwonlyargs:
      ann = unparse(p.annotation) if p.annotation is not None else ''
      ann = ann.replace('typing.', '').replace('collections.abc.', '').replace('abc.', '')
      if ann.startswith(('Iterable[', 'Iterator[', 'Generator[', 'AsyncIterable[', 'AsyncIterator[')) or ann in (
          'Iterable', 'Iterator'):
        sources.setdefault(p.arg, []).append(fn)
    container_elems: dict[str, set[int]] = {}
    for x in ast.walk(fn):
      if isinstance(x, ast.Assign) and len(x.targets) == 1 and isinstance(x.targets[0], ast.Name):
        t = x.targets[0].id
        if self.is_one_shot_expr(x.value, fi):
          sources.setdefault(t, []).append(x)
        pos = self._elements_one_shot(x.value, fi)
        if pos:
          container_elems[t] = pos
    # loop variables drawn from a container of one-shot elements
    for x in ast.walk(fn):
      if isinstance(x, (ast.For, ast.comprehension)) and isinstance(x.iter, ast.Name) and (
          x.iter.id in container_elems):
        pos = container_elems[x.iter.id]
        cdef = next((d for d in ast.walk(fn) if isinstance(d, ast.Assign) and isinstance(
            d.targets[0], ast.Name) and d.targets[0].id == x.iter.id), fn)
        if -1 in pos and isinstance(x.target, ast.Name):
          sources.setdefault(x.target.id, []).append(cdef)
        elif isinstance(x.target, ast.Tuple):
          for i in pos:
            if 0 <= i < len(x.target.elts) and isinstance(x.target.elts[i], ast.Name):
              sources.setdefault(x.target.elts[i].id, []).append(cdef)
    self.analysed_sources += len(sources)
    if not sources:
      return out
    # materialisation points: name re-bound to list(name) etc.
    materialised_at: dict[str, int] = {}
    for x in ast.walk(fn):
      if isinstance(x, ast.Assign) and len(x.targets) == 1 and isinstance(x.targets[0], ast.Name):
        t = x.targets[0].id
        v = x.value
        if t in sources and isinstance(v, ast.Call) and unparse(v.func).split('.')[-1] in SHARED_WRAPPERS and (
            v.args and isinstance(v.args[0], ast.Name) and v.args[0].id == t):
          materialised_at[t] = min(materialised_at.get(t, 10**9), x.lineno)
        if t in sources and isinstance(v, ast.Call) and unparse(v.func) in MATERIALISE and v.args and (
            isinstance(v.args[0], ast.Name) and v.args[0].id == t) and not loops_of(x) and not _conditional(x, pm, fn):
          materialised_at[t] = min(materialised_at.get(t, 10**9), x.lineno)
    # consumption sites
    sites: dict[str, list[ast.AST]] = {}
    for x in ast.walk(fn):
      if isinstance(x, (ast.For, ast.AsyncFor, ast.comprehension)) and isinstance(x.iter, ast.Name):
        sites.setdefault(x.iter.id, []).append(x if not isinstance(x, ast.comprehension) else x.iter)
      elif isinstance(x, ast.YieldFrom) and isinstance(x.value, ast.Name):
        sites.setdefault(x.value.id, []).append(x)
      elif isinstance(x, ast.Call) and unparse(x.func) not in NON_CONSUMING:
        par = pm.get(x)
        rebinds = {t.id for t in par.targets if isinstance(t, ast.Name)} if isinstance(par, ast.Assign) else set()
        for arg in list(x.args) + [k.value for k in x.keywords]:
          if isinstance(arg, ast.Name) and arg.id in rebinds:
            continue
          if isinstance(arg, ast.Name):
            sites.setdefault(arg.id, []).append(x)
          elif isinstance(arg, ast.Starred) and isinstance(arg.value, ast.Name):
            sites.setdefault(arg.value.id, []).append(x)
    for name, defs in sources.items():
      uses = [u for u in sites.get(name, []) if getattr(u, 'lineno', 0) < materialised_at.get(name, 10**9)
              or name not in materialised_at]
      if name in materialised_at:
        uses = [u for u in uses if getattr(u, 'lineno', 0) <= materialised_at[name]]
        # the materialising call itself is the single allowed use
        uses = [u for u in uses if not (isinstance(u, ast.Call) and unparse(u.func) in MATERIALISE
                                        and getattr(u, 'lineno', 0) == materialised_at[name])]
      for u in uses:
        for lp in loops_of(u):
          inside = set(map(id, ast.walk(lp)))
          if all(id(d) not in inside for d in defs):
            what = 'parameter' if defs[0] is fn else f'one-shot iterable (bound at line {getattr(defs[0], "lineno", "?")})'
            out.append((u, f'`{name}`, a {what}, is consumed inside a loop/comprehension'
                        f' it was created outside of (line {getattr(lp, "lineno", "?")}): only'
                        ' the first iteration sees its elements'))
            break
    # de-duplicate by node
    seen = set()
    res = []
    for n, msg in out:
      if id(n) not in seen:
        seen.add(id(n))
        res.append((n, msg))
    return res

  # ---------------------------------------------------------------------------
  # second discipline: a one-shot local is traversed by at most ONE full consumer on any path

  FULL_CONSUMERS = {'list', 'tuple', 'sorted', 'set', 'dict', 'frozenset', 'sum', 'max', 'min', 'map', 'zip', 'filter',
                    'enumerate', 'collections.deque', 'collections.Counter', 'np.array', 'np.asarray', 'np.fromiter',
                    'np.stack', 'np.concatenate', 'itertools.chain', 'itt.chain', 'itertools.chain.from_iterable',
                    'itt.chain.from_iterable', 'mit.last', 'mit.ilen', 'functools.reduce'}

  def analyse_twice(self, fi: FuncInfo) -> tuple[int, list[tuple[ast.AST, str]]]:
    """(number of one-shot locals examined, findings): two full traversals of one one-shot local on a common path.

    A local bound exactly once to a one-shot expression (map/zip/filter/generator expression/generator call) is
    empty after its first full traversal (for-loop, comprehension, yield from, or a call that walks all of it:
    list/tuple/sum/map/zip/...).  Two such sites are on a common path unless they sit in the two arms of one `if`
    or the arm holding the first one ends in return/raise/continue/break.
    """
    fn = fi.node
    pm = parent_map(fn)
    defs: dict[str, list[ast.Assign]] = {}
    for x in ast.walk(fn):
      if isinstance(x, ast.Assign):
        for t in x.targets:
          for y in ast.walk(t):
            if isinstance(y, ast.Name):
              defs.setdefault(y.id, []).append(x)
      elif isinstance(x, (ast.AugAssign, ast.AnnAssign, ast.NamedExpr)) and isinstance(x.target, ast.Name):
        defs.setdefault(x.target.id, []).append(x)
      elif isinstance(x, (ast.For, ast.AsyncFor, ast.comprehension)):
        for y in ast.walk(x.target):
          if isinstance(y, ast.Name):
            defs.setdefault(y.id, []).append(x)
    params = {p.arg for p in fn.args.posonlyargs + fn.args.args + fn.args.kwonlyargs}
    locals_ = {n: d[0] for n, d in defs.items() if len(d) == 1 and n not in params and isinstance(d[0], ast.Assign)
               and len(d[0].targets) == 1 and isinstance(d[0].targets[0], ast.Name) and self.is_one_shot_expr(d[0].value, fi)
               and not (isinstance(d[0].value, ast.Call) and unparse(d[0].value.func) in ('iter', 'reversed'))}
    out = []
    if not locals_:
      return 0, out

    def chain(n):
      c = []
      while n is not None and n is not fn:
        c.append(n)
        n = pm.get(n)
      return c[::-1]

    def arm_of(ifnode, child):
      for fld in ('body', 'orelse', 'handlers', 'finalbody'):
        b = getattr(ifnode, fld, None)
        if isinstance(b, list) and any(child is s for s in b):
          return fld, b
      return None, None

    for name, d in locals_.items():
      sites = []
      for x in ast.walk(fn):
        if isinstance(x, (ast.For, ast.AsyncFor)) and isinstance(x.iter, ast.Name) and x.iter.id == name:
          sites.append(x)
        elif isinstance(x, ast.comprehension) and isinstance(x.iter, ast.Name) and x.iter.id == name:
          sites.append(pm.get(x))
        elif isinstance(x, ast.YieldFrom) and isinstance(x.value, ast.Name) and x.value.id == name:
          sites.append(x)
        elif isinstance(x, ast.Call) and unparse(x.func) in self.FULL_CONSUMERS:
          for arg in x.args:
            a0 = arg.value if isinstance(arg, ast.Starred) else arg
            if isinstance(a0, ast.Name) and a0.id == name:
              sites.append(x)
      sites = [s for s in sites if s is not None and getattr(s, 'lineno', 0) >= d.lineno]
      sites.sort(key=lambda s: (s.lineno, s.col_offset))
      for i in range(len(sites)):
        for j in range(i + 1, len(sites)):
          a, b = sites[i], sites[j]
          ca, cb = chain(a), chain(b)
          k = 0
          while k < min(len(ca), len(cb)) and ca[k] is cb[k]:
            k += 1
          exclusive = False
          if k > 0 and k < len(ca) and k < len(cb) and isinstance(ca[k - 1], (ast.If, ast.Try)):
            fa, _ = arm_of(ca[k - 1], ca[k])
            fb, _ = arm_of(ca[k - 1], cb[k])
            exclusive = fa is not None and fb is not None and fa != fb and not (
                isinstance(ca[k - 1], ast.Try) and {fa, fb} & {'finalbody'})
          # the arm that holds the first site leaves the function / iteration before the second is reached
          for idx in range(k, len(ca)):
            par = ca[idx - 1] if idx > 0 else fn
            if isinstance(par, ast.If):
              _, arm = arm_of(par, ca[idx])
              if arm and isinstance(arm[-1], (ast.Return, ast.Raise, ast.Continue, ast.Break)) and not any(
                  cb_ is par for cb_ in cb[idx:]):
                exclusive = True
          if not exclusive:
            out.append((b, f'`{name}` (bound at line {d.lineno} to `{unparse(d.value)[:40]}`, a one-shot iterator) is traversed at'
                        f' line {a.lineno} and again at line {b.lineno}: the second traversal sees nothing'))
            break
        else:
          continue
        break
    return len(locals_), out
