"""C14 — remote evaluation is observationally the same as local evaluation.

Structural part (the transport tests are not collected, so any table
disagreement is invisible to the suite): client/server RPC tables agree, the
codec agrees per call site, sync/async siblings agree, remote-object
forwarding wraps the right lazy operation, a shutting-down server answers
with a retriable TimeoutError.
"""
from __future__ import annotations

import ast
import copy

from mlmverif import cfg as cfgm
from mlmverif.core import (parent_map, AnalysisError, Ctx, FuncInfo, is_self_attr, kwarg,
                           unparse, walk_no_nested)

EXPLANATION = (
    'Table agreement over the courier client/server pair. Decides: every RPC'
    ' name a client uses (courier_method literals and defaults,'
    ' .futures.<name>) is bound by Bind in the set_up chain and its positional'
    ' arity / keyword names fit the bound callable; results fetched with'
    ' compress=True are decoded with loadz and uncompressed ones with'
    ' loads/maybe_unpickle, the server pickles with the requested flag, and the'
    ' pickler\'s dumps/loads are symmetric in `compress`; returned exceptions'
    ' are raised and LazyObjects come back as RemoteObjects bound to the same'
    ' worker; RemoteObject call/getattr/getitem wrap exactly the corresponding'
    ' lazy operation with the same client configuration; each sync/async pair'
    ' issues the same remote operation (async only adds await and the'
    ' StopIteration->StopAsyncIteration conversion); shutdown substitutes'
    ' TimeoutError before the error is returned or raised. NOT decided:'
    ' value/exception equality of arbitrary expression trees.'
)
ASSUMPTIONS = ['courier.Server.Bind(name, fn) exposes fn under'
               ' client.futures.<name>(*args, **kwargs).']

CS = 'chainables.courier_server'
CU = 'utils.courier_utils'
CW = 'chainables.courier_worker'
LF = 'chainables.lazy_fns'

RPC_EXEMPT = {'next_from_generator': 'legacy stub: no server binding and no'
              ' in-repo caller'}


def run(ctx: Ctx):
  for r in (r1, r2, r3, r4, r5, r6, r7, r9, r13, r14, r15, r16, r17, r18, r19, r20, r21, r23, r25, r27):
    ctx.guard(r)
  from mlmverif.props import c15
  ctx.include('R-C14-22', '"signal exhaustion once ... rather than returning a wrong value": the end of a prefetched stream is a'
              ' state every later request reads again; the request handlers never un-install the queue (R-C15-18) — a poll'
              ' after the end marker otherwise gets the RETRIABLE "Generator is not set" timeout and the client restarts a'
              ' finished stream', c15.r18, min_instances=4)
  from mlmverif.props import c17 as _c17
  ctx.include('R-C14-29', '"indexing ... on a remote object behaves like on the local object": the traced `obj[key]` records the key AS'
              ' GIVEN (R-C17-8) — a list key turned into a tuple selects ONE element of an array instead of rows (fancy'
              ' indexing) and finds a tuple-keyed entry of a dict instead of raising', _c17.r8, min_instances=2)
  ctx.include('R-C14-28', '"the object itself stays on the server": the handles of server-side objects are keyed by id alone, so the'
              ' per-process id counter must not wrap while a handle is in use — IncrementId is at least 8 bytes wide'
              ' (R-C17-17); a 2-byte counter gives the id of a live remote handle to a new object after 65536 allocations', _c17.r17,
              min_instances=1)
  ctx.include('R-C14-26', '"calls on a remote object behave like on the local object": a recorded call keeps its arguments in the'
              ' caller\'s order — LazyFn.new neither sorts nor de-duplicates args / kwargs (R-C17-2): keyword order is'
              ' observable by the callee (**kwargs, dict(...))', _c17.r2, min_instances=6)
  ctx.include('R-C14-24', '"returns the same value ... as evaluating it locally": the server makes every argument through the maker'
              ' registry, which must recognise a class that reached it pickled by value — the registry is keyed by'
              ' repr(type) on both sides (R-C17-15)', _c17.r15, min_instances=2)
  from mlmverif.props import c04
  from mlmverif.props._queue import model as qmodel
  from mlmverif.props import c17
  ctx.include('R-C14-10', '"remote queues yield exactly the underlying elements":'
              ' the single-element get the remote queue maps to wakes the'
              ' producer after every successful dequeue (R-C04-5); a held result'
              ' is found again whatever its value, incl. None (R-C17-1 cache'
              ' branches)', _remote_shared, qmodel(ctx), min_instances=6)
  ctx.include('R-C14-8', '"a server that is shutting down answers with a'
              ' retriable timeout rather than hanging": no handler blocks on'
              ' the prefetch queue while holding the generator lock the stop'
              ' path needs (R-C04-4 lock order / no wait under a second lock)',
              c04.r4, qmodel(ctx), min_instances=3)
  from mlmverif.props import c06, c20
  ctx.include('R-C14-11', '"returns the same value ... as evaluating it locally": a'
              ' call to a healthy server is refused with "worker disconnected"'
              ' when the recorded heartbeat moves backwards (a long call that'
              ' completes late refreshes with its issue time): refresh stores'
              ' max(previous, new) atomically (R-C20-2)', c20.r2, min_instances=3)
  ctx.include('R-C14-12', '"remote iterators ... signal exhaustion once" and the next'
              ' evaluation still answers: the capacity placeholder a remote'
              ' iteration puts into the pending list is cancelled on every exit'
              ' (failure of the remote generator, close), otherwise every later'
              ' evaluation on that client waits for capacity forever (R-C06-8)',
              c06.r8, min_instances=1)

def _subst_locals(fn: ast.AST, e: ast.AST) -> ast.AST:
  """Replaces local names that have exactly one plain assignment in `fn` by their value."""
  import copy as _copy
  defs: dict[str, list] = {}
  for x in ast.walk(fn):
    if isinstance(x, ast.Assign) and len(x.targets) == 1 and isinstance(x.targets[0], ast.Name):
      defs.setdefault(x.targets[0].id, []).append(x.value)
  params = {a.arg for a in fn.args.posonlyargs + fn.args.args + fn.args.kwonlyargs}

  class T(ast.NodeTransformer):
    depth = 0

    def visit_Name(self, nd):
      if isinstance(nd.ctx, ast.Load) and len(defs.get(nd.id, ())) == 1 and self.depth < 4 and not (
          nd.id in params and any(isinstance(y, ast.Name) and y.id == nd.id for y in ast.walk(defs[nd.id][0]))):
        self.depth += 1
        r = self.visit(_copy.deepcopy(defs[nd.id][0]))
        self.depth -= 1
        return r
      return nd

  return T().visit(_copy.deepcopy(e))


def r13(ctx: Ctx):
  rule = 'R-C14-13'
  ctx.rule(rule, '"returns the same value ... as evaluating it locally" — the wire codec is'
           ' total: _Pickler.dumps serialises EVERY value with the registered pickler'
           ' (the only choice it makes is the optional compression, selected by its'
           ' `compress` flag) and _Pickler.loads always unpickles what it decompressed.'
           ' A type-based shortcut on one side only (bytes passed through "as already'
           ' serialised") breaks the round trip for exactly those values: raw bytes come'
           ' back as UnpicklingError, bytes that happen to be a pickle as another object')
  ci = ctx.repo.cls(LF, '_Pickler')
  n = 0
  for name, codec, wrap in (('dumps', 'dumps', 'gzip.compress'), ('loads', 'loads', 'gzip.decompress')):
    fi = ci.methods.get(name)
    if fi is None:
      raise AnalysisError(f'{rule}: _Pickler.{name} missing')
    ps = fi.params()
    val, flag = ps[1], (ps[2] if len(ps) > 2 else None)
    rets = [x for x in walk_no_nested(fi.node) if isinstance(x, ast.Return) and x.value is not None]
    if not rets:
      raise AnalysisError(f'{rule}: _Pickler.{name} returns nothing')
    for r_ in rets:
      n += 1
      e = _subst_locals(fi.node, r_.value)

      def leaves(x):
        """Payload expressions after peeling compression wrappers and choices made on the flag."""
        if isinstance(x, ast.IfExp) and flag and any(isinstance(y, ast.Name) and y.id == flag for y in ast.walk(x.test)):
          yield from leaves(x.body)
          yield from leaves(x.orelse)
        elif isinstance(x, ast.Call) and unparse(x.func) == wrap and x.args:
          yield from leaves(x.args[0])
        else:
          yield x

      def is_codec(x):
        if not (isinstance(x, ast.Call) and isinstance(x.func, ast.Attribute) and x.func.attr == codec and x.args):
          return False
        inner = list(leaves(x.args[0])) if name == 'loads' else [x.args[0]]
        return all(isinstance(y, ast.Name) and y.id == val for y in inner)

      if name == 'dumps':
        bad = [x for x in leaves(e) if not is_codec(x)]
      else:
        bad = [] if is_codec(e) else [e]
      if bad:
        ctx.fail(rule, fi, f'_Pickler.{name}: every value goes through the registered pickler',
                 f'`{unparse(bad[0])[:70]}` is returned by _Pickler.{name} without `.{codec}({val})`: the codec'
                 ' treats some values specially on this side only, so they do not survive the round trip'
                 ' (a bytes result of a remote call comes back as an unpickling error or as another object)',
                 node=r_)
      else:
        ctx.ok(rule, fi, f'_Pickler.{name}: {codec}({val}) on every path, compression by flag only', r_)
  ctx.floor(rule, 2, n)


def r14(ctx: Ctx):
  rule = 'R-C14-14'
  ctx.rule(rule, '"chains of attribute access, indexing and calls on a remote object behave like'
           ' on the local object while the object itself stays on the server": dereferencing a'
           ' handle asks the SERVER every time — on every path to a return of RemoteObject.result_'
           ' / async_result_ the value comes from a call on self.worker made in that invocation,'
           ' and nothing fetched is stored on the handle (no store to self attributes /'
           ' self.__dict__): a memoised first answer goes stale when the server-held object changes')
  ci = ctx.repo.cls(CU, 'RemoteObject')
  n = 0
  for name in ('result_', 'async_result_'):
    fi = ci.methods.get(name)
    if fi is None:
      raise AnalysisError(f'{rule}: RemoteObject.{name} missing')
    n += 1
    g = cfgm.cfg_of(fi.node)
    remote = lambda nd: any(isinstance(x, ast.Call) and unparse(x.func).startswith('self.worker.')
                            for x in cfgm.node_exprs(nd))
    w = g.must_pass(g.entry, [g.exit_ret], remote, cfgm.only_normal)
    stores = [x for x in walk_no_nested(fi.node) if isinstance(x, (ast.Assign, ast.AugAssign)) and any(
        (isinstance(y, ast.Attribute) and isinstance(y.value, ast.Name) and y.value.id == 'self') or (
            isinstance(y, ast.Subscript) and 'self.__dict__' in unparse(y.value))
        for t in (x.targets if isinstance(x, ast.Assign) else [x.target]) for y in ast.walk(t))]
    setattrs = [x for x in walk_no_nested(fi.node) if isinstance(x, ast.Call) and unparse(x.func) in (
        'setattr', 'object.__setattr__', 'self.__dict__.update', 'self.__dict__.setdefault')]
    if w is not None:
      ctx.fail(rule, fi, f'RemoteObject.{name}: every dereference is a round trip to the worker',
               f'RemoteObject.{name} can return without calling self.worker (path: '
               + ' -> '.join(x_.split(':', 2)[-1][:40] for x_ in w[-4:]) + '): the handle answers from a value'
               ' fetched earlier, which is stale once the object on the server has changed', node=fi.node)
    elif stores or setattrs:
      ctx.fail(rule, fi, f'RemoteObject.{name}: nothing fetched is kept on the handle',
               f'`{unparse((stores or setattrs)[0])[:60]}` stores on the handle inside {name}', node=(stores or setattrs)[0])
    else:
      ctx.ok(rule, fi, f'{name}: always asks self.worker, keeps nothing', fi.node)
  ctx.floor(rule, 2, n)


def r15(ctx: Ctx):
  rule = 'R-C14-15'
  ctx.rule(rule, '"chains of attribute access, indexing and calls on a remote object behave like on the'
           ' local object": the forwarding dunder methods of RemoteObject (__getattr__, __getitem__,'
           ' __call__) are TOTAL — every normal path builds the remote reference from the argument as'
           ' given, and nothing raises or returns early depending on the argument (a name filter such'
           ' as "no leading underscore" makes _fields/_asdict()/_replace() of a remote namedtuple'
           ' unreachable and changes the error of a missing attribute)')
  ci = ctx.repo.cls(CU, 'RemoteObject')
  n = 0
  for name in ('__getattr__', '__getitem__', '__call__'):
    fi = ci.methods.get(name)
    if fi is None:
      continue
    n += 1
    ps = set(fi.params()[1:])
    a = fi.node.args
    for extra in (a.vararg, a.kwarg):
      if extra is not None:
        ps.add(extra.arg)
    g = cfgm.cfg_of(fi.node)
    fwd = lambda nd: any(isinstance(c, ast.Call) and unparse(c.func).split('.')[-1] == 'new' and 'RemoteObject' in unparse(c.func)
                         for c in cfgm.node_exprs(nd))
    w = g.must_pass(g.entry, [g.exit_ret], fwd, cfgm.only_normal)
    raises = [x for x in walk_no_nested(fi.node) if isinstance(x, ast.Raise)]
    tests = [x for x in walk_no_nested(fi.node) if isinstance(x, (ast.If, ast.IfExp)) and any(
        isinstance(y, ast.Name) and y.id in ps for y in ast.walk(x.test))]
    if w is not None or raises or tests:
      b = (raises or tests or [fi.node])[0]
      ctx.fail(rule, fi, f'RemoteObject.{name} forwards every argument',
               f'RemoteObject.{name} treats some arguments specially (`{unparse(b)[:60]}`): for those the chain on'
               ' the handle no longer behaves like the chain on the local object', node=b)
    else:
      ctx.ok(rule, fi, f'RemoteObject.{name}: total forwarding', fi.node)
  ctx.floor(rule, 3, n)


def r16(ctx: Ctx):
  rule = 'R-C14-16'
  ctx.rule(rule, '"remote iterators and remote queues ... signal exhaustion once" with everything the'
           ' underlying signal carries: wherever an exhaustion signal is converted into another'
           ' exhaustion type (StopIteration <-> StopAsyncIteration, in a handler `except ... as e`), the'
           ' new exception receives ALL values of the caught one (`*e.args`), not `e.value` (the first'
           ' only; and `(None,)` instead of `()` for a producer that returned nothing): a queue fed by'
           ' several producers ends with one return value per producer')
  n = 0
  for mod in (CU, 'utils.iter_utils'):
    mi = ctx.repo.module(mod)
    fns = list(mi.functions.values()) + [m_ for c in mi.classes.values() for m_ in c.methods.values()]
    for fi in fns:
      for h in walk_no_nested(fi.node):
        if not (isinstance(h, ast.ExceptHandler) and h.name and h.type is not None and any(
            t_ in unparse(h.type) for t_ in ('StopIteration', 'StopAsyncIteration'))):
          continue
        for r_ in ast.walk(h):
          if isinstance(r_, ast.Raise) and isinstance(r_.exc, ast.Call) and unparse(r_.exc.func) in (
              'StopIteration', 'StopAsyncIteration'):
            n += 1
            args = r_.exc.args
            whole = len(args) == 1 and isinstance(args[0], ast.Starred) and unparse(args[0].value) == f'{h.name}.args'
            converts = unparse(r_.exc.func) not in unparse(h.type).replace('StopAsyncIteration', 'X') if unparse(r_.exc.func) == 'StopIteration' \
                else 'StopAsyncIteration' not in unparse(h.type)
            if whole or (not args and not converts):
              ctx.ok(rule, fi, f'{fi.qualname}: {unparse(r_.exc)[:40]}', r_)
            elif not args:
              ctx.fail(rule, fi, f'{fi.qualname}: a converted exhaustion signal carries *{h.name}.args',
                       f'`{unparse(r_)[:60]}` converts the caught `{unparse(h.type)}` into a BARE exhaustion signal: the return values'
                       ' the producers ended with are dropped on this path (the consumer\'s end-of-stream carries nothing)', node=r_)
            else:
              ctx.fail(rule, fi, f'{fi.qualname}: a converted exhaustion signal carries *{h.name}.args',
                       f'`{unparse(r_)[:60]}` rebuilds the exhaustion signal from `{unparse(args[0])[:20]}` instead of'
                       f' `*{h.name}.args`: only the first return value survives, and a producer that returned nothing'
                       ' is reported as having returned None', node=r_)
  ctx.floor(rule, 3, n)


def r17(ctx: Ctx):
  rule = 'R-C14-17'
  ctx.rule(rule, '"evaluating an expression through a worker ... returns the same value / raises an exception of the same type'
           ' and message": the handler that turns a failure into the pickled answer cannot fail itself — inside an'
           ' `except ... as e` block of the server / client modules nothing subscripts `e.args` with a constant index'
           ' outside a test of `e.args` (a message-less `raise ValueError` has no args[0]: the handler would die with'
           ' IndexError and the client would see that instead of the original error)')
  n = 0
  for mod in (CS, CU):
    mi = ctx.repo.module(mod)
    fns = list(mi.functions.values()) + [m_ for c in mi.classes.values() for m_ in c.methods.values()]
    for fi in fns:
      for h in ast.walk(fi.node):
        if not (isinstance(h, ast.ExceptHandler) and h.name):
          continue
        n += 1
        pm = None
        bad = None
        for x in ast.walk(h):
          if isinstance(x, ast.Subscript) and unparse(x.value) == f'{h.name}.args' and not isinstance(x.slice, ast.Slice):
            pm = pm or parent_map(h)
            q, guarded = x, False
            while q is not None and q is not h:
              par = pm.get(q)
              if isinstance(par, (ast.If, ast.IfExp)) and any(unparse(y) == f'{h.name}.args' for y in ast.walk(par.test)):
                guarded = True
              q = par
            if not guarded:
              bad = x
        what = f'{fi.qualname}: the handler of `{h.name}` does not index {h.name}.args unguarded'
        if bad is None:
          ctx.ok(rule, fi, what, h)
        else:
          ctx.fail(rule, fi, what,
                   f'`{unparse(bad)}` in the `except ... as {h.name}` block of {fi.qualname}: an exception raised without a'
                   ' message has empty args, the handler itself raises IndexError and the caller receives that instead of'
                   ' the original exception type and message', node=bad)
  ctx.floor(rule, 5, n)


def r18(ctx: Ctx):
  rule = 'R-C14-18'
  ctx.rule(rule, '"remote evaluation is observationally the same as local evaluation" for cached calls that are sent again:'
           ' the equality of lazy calls tests the IDENTITY (`self.id == other.id`) before it compares function, args and'
           ' kwargs — a re-sent copy of a cached call (same id, unpickled afresh) is then recognised without comparing'
           ' its arguments element-wise, which raises for multi-element arrays ("truth value of an array is ambiguous")'
           ' inside the cache lookup. In the `or` of __eq__ the id comparison is the first disjunct')
  n = 0
  mi = ctx.repo.module('chainables.lazy_fns')
  for ci in mi.classes.values():
    fi = ci.methods.get('__eq__')
    if fi is None:
      continue
    for b in ast.walk(fi.node):
      if not (isinstance(b, ast.BoolOp) and isinstance(b.op, ast.Or)):
        continue
      def is_id(e):
        return isinstance(e, ast.Compare) and len(e.ops) == 1 and isinstance(e.ops[0], ast.Eq) and {
            unparse(e.left).split('.')[-1].lstrip('_'), unparse(e.comparators[0]).split('.')[-1].lstrip('_')} == {'id'}
      ids = [i for i, v in enumerate(b.values) if is_id(v)]
      structural = [i for i, v in enumerate(b.values) if not is_id(v) and any(
          isinstance(y, ast.Attribute) and y.attr in ('args', 'kwargs', 'value') for y in ast.walk(v))]
      if not ids or not structural:
        continue
      n += 1
      what = f'{ci.name}.__eq__: identity is tested before the structural comparison'
      if min(ids) < min(structural):
        ctx.ok(rule, fi, what, b)
      else:
        ctx.fail(rule, fi, what,
                 f'{ci.name}.__eq__ compares value/args/kwargs before `{unparse(b.values[ids[0]])}`: two copies of the same'
                 ' cached call (same id) whose arguments contain a multi-element array raise ValueError in the cache'
                 ' lookup instead of being recognised — every later remote evaluation of that call fails', node=b)
  ctx.floor(rule, 1, n)


def r19(ctx: Ctx):
  rule = 'R-C14-19'
  ctx.rule(rule, '"evaluating a lazy expression on a server through a client returns the same value": an answer that HAS arrived is'
           ' returned, whatever the registry says about the server meanwhile (a server sends its farewell heartbeat right'
           ' after its last answer). In the poll loops of get_result / async_get_result every path from a suspension point'
           ' (sleep) or from the call to the `raise ... disconnected` passes a test of `future.done()`: the liveness of the'
           ' worker only matters while the answer is still outstanding')
  repo = ctx.repo
  n = 0
  for qn in ('CourierClient.get_result', 'CourierClient.async_get_result'):
    fi = repo.func(CU, qn)
    g = cfgm.cfg_of(fi.node)
    raises = [nd for nd in g.nodes if isinstance(nd.ast, ast.Raise) and nd.ast.exc is not None and 'disconnected' in unparse(nd.ast.exc).lower()]
    if not raises:
      ctx.info(rule, fi, f'{qn}: no "disconnected" raise')
      continue
    srcs = [nd for nd in g.nodes if any(isinstance(c, ast.Call) and unparse(c.func) in ('time.sleep', 'asyncio.sleep', 'self.call')
                                        for x in cfgm.node_exprs(nd) for c in ast.walk(x))]
    done = lambda nd: nd.kind == 'cond' and any(isinstance(c, ast.Call) and isinstance(c.func, ast.Attribute) and c.func.attr == 'done'
                                                 for c in ast.walk(nd.ast))
    for r_ in raises:
      n += 1
      w = None
      for s_ in srcs:
        w = w or g.must_pass(s_, [r_], done, cfgm.only_normal)
      what = f'{qn}: the worker is declared disconnected only while the answer is outstanding'
      if w is None:
        ctx.ok(rule, fi, what, r_.ast)
      else:
        ctx.fail(rule, fi, what,
                 f'`{unparse(r_.ast)[:60]}` is reachable without testing `future.done()` since the last suspension ({" -> ".join(w[-3:])}):'
                 ' an answer that was computed and delivered is thrown away when the registry already lists the server as gone'
                 ' (its farewell heartbeat follows its last answer) — the caller gets "Worker disconnected" instead of the value',
                 node=r_.ast)
  ctx.floor(rule, 2, n)


def r20(ctx: Ctx):
  rule = 'R-C14-20'
  ctx.rule(rule, '"raises the same exception type and message as evaluating it locally": the server hands a caught exception to the'
           ' client AS IT IS. In the handlers that answer with an exception (`except Exception as e` ... the answer is e) the'
           ' caught exception is re-bound to another one only under the shutdown test (the one documented rewrite: a retriable'
           ' TimeoutError while shutting down); any other rewrite (a missing-object KeyError into a TimeoutError, say) changes'
           ' type and message the client sees')
  repo = ctx.repo
  mi = repo.module(CS)
  n = 0
  for ci in mi.classes.values():
    for name, fi in ci.methods.items():
      for h in ast.walk(fi.node):
        if not (isinstance(h, ast.ExceptHandler) and h.name):
          continue
        pm = None
        rebinds = [x for x in ast.walk(h) if isinstance(x, ast.Assign) and any(isinstance(t, ast.Name) and t.id == h.name for t in x.targets)]
        if not rebinds:
          continue
        for x in rebinds:
          n += 1
          pm = pm or parent_map(h)
          q, guards = x, []
          while q in pm:
            par = pm[q]
            if isinstance(par, ast.If):
              in_body = any(y is q for b in par.body for y in ast.walk(b))
              guards.append((par.test, in_body))
            q = par
          ok = bool(guards) and all(in_body and '_shutdown_requested' in unparse(t) and not isinstance(t, ast.BoolOp) for t, in_body in guards[:1])
          what = f'{fi.qualname}: a caught exception is rewritten only while shutting down'
          if ok:
            ctx.ok(rule, fi, what, x)
          else:
            ctx.fail(rule, fi, what,
                     f'`{unparse(x)[:70]}` replaces the caught exception outside the shutdown test: the client receives another type'
                     ' and message than the local evaluation raises', node=x)
  ctx.floor(rule, 1, n)



def _remote_shared(sub, m):
  from mlmverif.props import c04, c17
  sub.guard(c04.r5, m)
  sub.guard(c17.r1)


def bound_table(repo) -> dict[str, FuncInfo | str]:
  out = {}
  for cls in ('CourierServer', 'PrefetchedCourierServer'):
    su = repo.func(CS, f'{cls}.set_up')
    ci = repo.cls(CS, cls)
    for x in walk_no_nested(su.node):
      if isinstance(x, ast.Call) and unparse(x.func) == 'self._server.Bind' and len(x.args) == 2:
        name = getattr(x.args[0], 'value', None)
        tgt = x.args[1]
        if is_self_attr(tgt):
          m = repo.find_method(ci, tgt.attr)
          out[name] = m if m is not None else unparse(tgt)
        else:
          txt = unparse(tgt)
          mod = repo.module(CS)
          if isinstance(tgt, ast.Name) and tgt.id in mod.functions:
            out[name] = mod.functions[tgt.id]
          elif isinstance(tgt, ast.Attribute) and isinstance(tgt.value, ast.Name):
            m2 = repo.resolve_module_alias(mod, tgt.value.id)
            out[name] = m2.functions.get(tgt.attr, txt) if m2 else txt
          else:
            out[name] = txt
  return out


def _sig(fi: FuncInfo):
  a = fi.node.args
  pos = [x.arg for x in a.posonlyargs + a.args]
  if fi.cls is not None and pos and pos[0] in ('self', 'cls'):
    pos = pos[1:]
  n_required = len(pos) - len(a.defaults)
  kws = set(pos) | {x.arg for x in a.kwonlyargs}
  return pos, max(n_required, 0), kws, a.vararg is not None, a.kwarg is not None


def r1(ctx: Ctx):
  rule = 'R-C14-1'
  ctx.rule(rule, 'RPC table: every method name used by a client is bound on'
           ' the server and the call\'s positional count and keyword names fit'
           ' the bound callable\'s signature')
  repo = ctx.repo
  table = bound_table(repo)
  if len(table) < 8:
    ctx.errors.append(f'{rule}: only {len(table)} Bind calls found (floor 8)')
  sites = []
  for fi in repo.all_functions():
    if not fi.module.name.endswith(('courier_utils', 'courier_worker', 'orchestrate',
                                    'courier_server')):
      continue
    for x in walk_no_nested(fi.node):
      if not isinstance(x, ast.Call):
        continue
      cm = kwarg(x, 'courier_method')
      if cm is not None and isinstance(cm, ast.Constant):
        pos = [a for a in x.args if not isinstance(a, ast.Starred)]
        dyn = any(isinstance(a, ast.Starred) for a in x.args) or any(k.arg is None for k in x.keywords)
        kws = [k.arg for k in x.keywords if k.arg and k.arg not in ('courier_method', 'blocking')]
        sites.append((fi, x, cm.value, len(pos), kws, dyn))
      f = x.func
      if isinstance(f, ast.Attribute) and isinstance(f.value, ast.Attribute) and f.value.attr == 'futures':
        sites.append((fi, x, f.attr, len(x.args), [k.arg for k in x.keywords if k.arg], False))
      # default courier method of call()/Task
      if isinstance(f, ast.Attribute) and f.attr == 'call' and cm is None and (
          unparse(f.value) in ('self', 'self.worker', 'worker', 'c')):
        pos = [a for a in x.args if not isinstance(a, ast.Starred)]
        dyn = any(isinstance(a, ast.Starred) for a in x.args) or any(k.arg is None for k in x.keywords)
        kws = [k.arg for k in x.keywords if k.arg]
        sites.append((fi, x, 'maybe_make', len(pos), kws, dyn))
  # literal defaults
  for fi in repo.all_functions():
    a = fi.node.args
    for p, d in zip(a.kwonlyargs, a.kw_defaults):
      if p.arg == 'courier_method' and isinstance(d, ast.Constant):
        sites.append((fi, fi.node, d.value, 0, [], True))
  task = repo.cls(CU, 'Task')
  for f in task.fields:
    if f.name == 'courier_method' and isinstance(f.default, ast.Constant):
      sites.append((task.methods['new'], task.node, f.default.value, 0, [], True))
  for fi, node, name, npos, kws, dyn in sites:
    if name in RPC_EXEMPT:
      ctx.info(rule, fi, f'{name} exempt: {RPC_EXEMPT[name]}')
      continue
    tgt = table.get(name)
    if tgt is None:
      ctx.fail(rule, fi, f'RPC "{name}"',
               f'client uses courier method "{name}" which no server binds'
               f' (bound: {sorted(table)}): every such call fails remotely',
               node=node)
      continue
    if isinstance(tgt, str):
      ctx.ok(rule, fi, f'"{name}" -> {tgt}', node, nontrivial=False)
      continue
    pos, nreq, kwset, var, varkw = _sig(tgt)
    problem = None
    if not dyn and npos > len(pos) and not var:
      problem = f'{npos} positional arguments but {tgt.qualname} takes {len(pos)}'
    bad_kw = [k for k in kws if k not in kwset and not varkw]
    if bad_kw:
      problem = f'keyword(s) {bad_kw} are not parameters of {tgt.qualname}'
    if not dyn and not var and npos + len([k for k in kws if k in pos]) < nreq:
      problem = problem or f'{tgt.qualname} requires {nreq} arguments'
    if problem:
      ctx.fail(rule, fi, f'{unparse(node)[:80] if isinstance(node, ast.Call) else name}',
               f'call of "{name}": {problem}', node=node)
    else:
      ctx.ok(rule, fi, f'"{name}"({npos} pos, {kws}) fits {tgt.qualname}', node)
  ctx.floor(rule, 10)


def r2(ctx: Ctx):
  rule = 'R-C14-2'
  ctx.rule(rule, 'codec agreement: compress=True call sites decode with loadz,'
           ' others with loads/maybe_unpickle; the server pickles with the'
           ' requested flag; dumps/loads are symmetric in `compress`; returned'
           ' exceptions are raised and lazy objects stay remote')
  repo = ctx.repo
  for name in ('get_result', 'async_get_result'):
    fi = repo.func(CU, f'CourierClient.{name}')
    calls = [x for x in walk_no_nested(fi.node) if isinstance(x, ast.Call) and unparse(x.func) == 'self.call']
    dec = [x for x in walk_no_nested(fi.node) if isinstance(x, ast.Call)
           and unparse(x.func) == 'self._result_or_exception']
    comp = calls and isinstance(kwarg(calls[0], 'compress'), ast.Constant) and kwarg(calls[0], 'compress').value is True
    rexc = calls and isinstance(kwarg(calls[0], 'return_exception'), ast.Constant) and kwarg(calls[0], 'return_exception').value is True
    fut = None
    for x in walk_no_nested(fi.node):
      if isinstance(x, ast.Assign) and calls and x.value is calls[0] and isinstance(x.targets[0], ast.Name):
        fut = x.targets[0].id
    ok_dec = dec and fut and unparse(dec[0].args[0]) == f'{fut}.result()'
    if comp and rexc and ok_dec:
      ctx.ok(rule, fi, f'{name}: call(compress=True, return_exception=True) -> _result_or_exception', calls[0])
    else:
      ctx.fail(rule, fi, f'{name}: self.call(lazy_obj, return_exception=True, compress=True)',
               f'{name} does not request a compressed, exception-returning'
               ' reply and decode that same future', node=fi.node)
  ro = repo.func(CU, 'CourierClient._result_or_exception')
  txt = unparse(ro.node)
  loadz = any(isinstance(x, ast.Call) and unparse(x.func).endswith('pickler.loadz')
              for x in walk_no_nested(ro.node))
  if loadz:
    ctx.ok(rule, ro, '_result_or_exception decodes with loadz', ro.node)
  else:
    ctx.fail(rule, ro, '_result_or_exception: lazy_fns.pickler.loadz(pickled)',
             'replies requested with compress=True are decoded without'
             ' decompression', node=ro.node)
  g = cfgm.cfg_of(ro.node)
  from mlmverif import pat
  dec = pat.search(ro.node, '$r = $$loader($$arg)')
  dec = [(n_, b_) for n_, b_ in dec if unparse(n_.value.func).endswith('pickler.loadz')]
  rv = dec[0][1]['r'] if dec else '<decoded>'
  raises = [n for n in g.nodes if isinstance(n.ast, ast.Raise) and unparse(n.ast.exc) == rv]
  isexc = lambda c: c.kind == 'cond' and pat.match(f'isinstance({rv}, Exception)', c.ast) is not None
  remote = [n for n in g.nodes if isinstance(n.ast, ast.Return)
            and pat.match(f'RemoteObject.new({rv}, worker=self)', n.ast.value) is not None]
  islazy = lambda c: c.kind == 'cond' and 'LazyObject' in unparse(c.ast) and rv in unparse(c.ast)
  if raises and any(isexc(c) for c in g.nodes):
    ctx.ok(rule, ro, 'returned exceptions are raised', raises[0].ast)
  else:
    ctx.fail(rule, ro, '_result_or_exception: if isinstance(result, Exception): raise result',
             'an exception returned by the server is handed to the caller as a'
             ' value instead of being raised', node=ro.node)
  if remote and any(islazy(c) for c in g.nodes):
    ctx.ok(rule, ro, 'LazyObject results become RemoteObjects on the same worker', remote[0].ast)
  else:
    ctx.fail(rule, ro, '_result_or_exception: LazyObject -> RemoteObject.new(result, worker=self)',
             'a lazy (server-held) result is not wrapped as a remote object'
             ' bound to the worker that holds it', node=ro.node)
  mm = repo.func(CS, 'CourierServer._maybe_make')
  rp = [x for x in walk_no_nested(mm.node) if isinstance(x, ast.Call) and unparse(x.func) == 'self._return_pickled']
  if rp and all(unparse(kwarg(c, 'compress')) == 'compress' for c in rp):
    ctx.ok(rule, mm, '_maybe_make pickles with the requested compress flag', rp[0])
  else:
    ctx.fail(rule, mm, '_maybe_make: self._return_pickled(result, compress=compress)',
             'the server ignores the requested compression flag: the client'
             ' fails to decode the reply', node=mm.node)
  rpk = repo.func(CS, 'CourierServer._return_pickled')
  d = [x for x in walk_no_nested(rpk.node) if isinstance(x, ast.Call) and unparse(x.func).endswith('pickler.dumps')]
  if d and unparse(kwarg(d[0], 'compress')) == 'compress' and unparse(d[0].args[0]) == rpk.params()[1]:
    ctx.ok(rule, rpk, '_return_pickled -> dumps(value, compress=compress)', d[0])
  else:
    ctx.fail(rule, rpk, '_return_pickled: pickler.dumps(value, compress=compress)',
             '_return_pickled does not pickle its value with the given flag', node=rpk.node)
  pk = repo.cls(LF, '_Pickler')
  du, lo = pk.methods['dumps'], pk.methods['loads']
  okd = 'gzip.compress(' in unparse(du.node) and 'if compress else' in unparse(du.node)
  okl = 'gzip.decompress(value) if compress else value' in unparse(lo.node)
  z = ('self.dumps(value, compress=True)' in unparse(pk.methods['dumpz'].node)
       and 'self.loads(value, compress=True)' in unparse(pk.methods['loadz'].node))
  if okd and okl and z:
    ctx.ok(rule, du, 'dumps/loads symmetric in compress; dumpz/loadz = compress=True', du.node)
  else:
    ctx.fail(rule, du, '_Pickler: dumps/loads symmetric in `compress`',
             f'pickler asymmetry (dumps gz: {okd}, loads gunzip: {okl}, z-variants: {z})',
             node=du.node)
  # uncompressed replies
  nb = repo.func(CS, 'PrefetchedCourierServer._next_batch')
  rets = [x for x in walk_no_nested(nb.node) if isinstance(x, ast.Return)]
  def _plain(r):
    v = r.value
    if isinstance(v, ast.Call) and unparse(v.func) == 'self._return_pickled':
      c_ = kwarg(v, 'compress')
      return c_ is None or (isinstance(c_, ast.Constant) and not c_.value)
    if isinstance(v, ast.Call) and unparse(v.func).endswith('pickler.dumps'):
      c_ = kwarg(v, 'compress')
      return c_ is None or (isinstance(c_, ast.Constant) and not c_.value)
    return False
  if rets and all(_plain(r) for r in rets):
    ai = repo.func(CU, 'CourierClient.async_iterate')
    if 'lazy_fns.maybe_make(' in unparse(ai.node) or 'maybe_unpickle(' in unparse(ai.node):
      ctx.ok(rule, nb, 'next_batch: uncompressed pickle <-> maybe_make/maybe_unpickle', nb.node)
    else:
      ctx.fail(rule, ai, 'async_iterate: lazy_fns.maybe_make(await ...)',
               'the batch reply is not unpickled by the client', node=ai.node)
  else:
    ctx.fail(rule, nb, '_next_batch: return self._return_pickled(result)',
             'the batch reply is compressed but the client decodes it'
             ' uncompressed', node=nb.node)
  ctx.floor(rule, 8)


class _Norm(ast.NodeTransformer):
  """Removes await and the async_ prefix so sync/async siblings compare equal."""

  def visit_Await(self, node):
    return self.visit(node.value)

  def visit_Attribute(self, node):
    self.generic_visit(node)
    if node.attr.startswith('async_'):
      node.attr = node.attr[len('async_'):]
    return node


def _core_calls(fi: FuncInfo):
  out = []
  for x in walk_no_nested(fi.node):
    if isinstance(x, ast.Return) and x.value is not None:
      out.append(x.value)
    if isinstance(x, ast.Assign):
      out.append(x.value)
  res = []
  for e in out:
    e2 = _Norm().visit(copy.deepcopy(e))
    res.append(ast.dump(e2))
  return res


def r3(ctx: Ctx):
  rule = 'R-C14-3'
  ctx.rule(rule, 'sibling agreement: RemoteObject.__call__/__getattr__/'
           '__getitem__ wrap the corresponding lazy operation on self.value'
           ' with the same client configuration; each sync/async pair issues'
           ' the same remote operation')
  repo = ctx.repo
  ops = {'__call__': 'self.value(*args, **kwargs)',
         '__getattr__': 'getattr(self.value, name)',
         '__getitem__': 'self.value[key]'}
  for name, want in ops.items():
    fi = repo.func(CU, f'RemoteObject.{name}')
    rets = [x for x in walk_no_nested(fi.node) if isinstance(x, ast.Return)]
    ok = False
    if len(rets) == 1 and isinstance(rets[0].value, ast.Call) and unparse(
        rets[0].value.func) == 'RemoteObject.new':
      c = rets[0].value
      ps = fi.params()[1:]
      w = want
      if name == '__getattr__':
        w = f'getattr(self.value, {ps[0]})'
      if name == '__getitem__':
        w = f'self.value[{ps[0]}]'
      ok = (c.args and unparse(c.args[0]) == w
            and unparse(kwarg(c, 'worker')) == 'self.client_configs')
    if ok:
      ctx.ok(rule, fi, f'{name} -> RemoteObject.new({want}, worker=self.client_configs)', fi.node)
    else:
      ctx.fail(rule, fi, f'RemoteObject.{name}: RemoteObject.new({want}, worker=self.client_configs)',
               f'RemoteObject.{name} does not forward exactly `{want}` to the'
               ' same worker: the remote chain evaluates a different'
               ' expression than the local one', node=fi.node)
  pairs = [('RemoteIteratorQueue.get', 'RemoteIteratorQueue.async_get'),
           ('RemoteIteratorQueue.get_batch', 'RemoteIteratorQueue.async_get_batch'),
           ('RemoteIterator.__next__', 'RemoteIterator.__anext__'),
           ('RemoteObject.result_', 'RemoteObject.async_result_')]
  for a, b in pairs:
    fa, fb = repo.func(CU, a), repo.func(CU, b)
    ca, cb = _core_calls(fa), _core_calls(fb)
    if ca == cb and ca:
      ctx.ok(rule, fb, f'{a} == {b} modulo await/async_', fb.node)
    else:
      ctx.fail(rule, fb, f'{b} mirrors {a}',
               f'the async variant issues a different remote operation than'
               f' the sync one', node=fb.node)
  ga, gb = repo.func(CU, 'CourierClient.get_result'), repo.func(CU, 'CourierClient.async_get_result')
  ka = [ast.dump(x) for x in walk_no_nested(ga.node) if isinstance(x, ast.Call) and unparse(x.func) == 'self.call']
  kb = [ast.dump(x) for x in walk_no_nested(gb.node) if isinstance(x, ast.Call) and unparse(x.func) == 'self.call']
  conv = any(isinstance(h, ast.ExceptHandler) and h.type is not None and unparse(h.type) == 'StopIteration'
             and any(isinstance(r, ast.Raise) and 'StopAsyncIteration' in unparse(r) for r in ast.walk(h))
             for h in walk_no_nested(gb.node))
  if ka == kb and ka and conv:
    ctx.ok(rule, gb, 'get_result / async_get_result: same call, StopIteration -> StopAsyncIteration', gb.node)
  else:
    ctx.fail(rule, gb, 'async_get_result mirrors get_result',
             f'sync/async result fetch differ (same call: {ka == kb},'
             f' StopIteration converted: {conv})', node=gb.node)
  ctx.floor(rule, 8)


def r4(ctx: Ctx):
  rule = 'R-C14-4'
  ctx.rule(rule, 'shutdown answer: while shutdown is requested _maybe_make'
           ' replaces the error by TimeoutError before raising/returning it,'
           ' _init_iterator returns a TimeoutError before doing anything, and'
           ' _next_batch substitutes TimeoutError for the generator failure')
  repo = ctx.repo
  mm = repo.func(CS, 'CourierServer._maybe_make')
  g = cfgm.cfg_of(mm.node)
  sub = lambda n: isinstance(n.ast, ast.Assign) and isinstance(n.ast.value, ast.Call) and unparse(
      n.ast.value.func) == 'TimeoutError'
  sd = lambda c: c.kind == 'cond' and unparse(c.ast) == 'self._shutdown_requested'
  handlers = [h for h in g.nodes if h.kind == 'handler']
  ok = False
  for h in handlers:
    leaves = [n for n in g.reachable([h], edge_ok=cfgm.only_normal) if isinstance(n.ast, ast.Raise)
              or (isinstance(n.ast, ast.Assign) and isinstance(n.ast.value, ast.Name)
                  and n.ast.value.id == (h.ast.name or ''))]
    conds = [c for c in g.reachable([h], edge_ok=cfgm.only_normal) if sd(c)]
    if conds and leaves and all(
        g.must_pass(h, [lv], lambda n: sd(n), cfgm.only_normal) is None for lv in leaves):
      ok = any(sub(n) for c in conds for n, lab in c.succ if lab == 'true')
  if ok:
    ctx.ok(rule, mm, '_maybe_make: shutdown -> TimeoutError before raise/return', mm.node)
  else:
    ctx.fail(rule, mm, '_maybe_make: if self._shutdown_requested: e = TimeoutError(...)',
             'an error raised while the server shuts down is reported as the'
             ' original (non-retriable) error instead of a retriable'
             ' TimeoutError', node=mm.node)
  ii = repo.func(CS, 'PrefetchedCourierServer._init_iterator')
  g = cfgm.cfg_of(ii.node)
  c0 = [c for c in g.nodes if sd(c)]
  ok = False
  if c0:
    c = c0[0]
    t = [s for s, lab in c.succ if lab == 'true']
    ok = bool(t) and isinstance(t[0].ast, ast.Return) and 'TimeoutError' in unparse(t[0].ast)
    work = [n for n in g.nodes if any(isinstance(x, ast.Call) and unparse(x.func) in (
        'self._stop_prefetch', 'lazy_fns.maybe_make') for x in cfgm.node_exprs(n))]
    ok = ok and all(g.dominates(lambda n: n is c, w, cfgm.only_normal) is None for w in work)
  if ok:
    ctx.ok(rule, ii, '_init_iterator: shutdown -> return TimeoutError first', ii.node)
  else:
    ctx.fail(rule, ii, '_init_iterator: if self._shutdown_requested: return TimeoutError(...)',
             'a shutting-down server still accepts a new generator', node=ii.node)
  # every way into the tear-down has the flag set (explicit request or idle
  # timeout): the wait loop is left only with _shutdown_requested true
  ru = repo.func(CS, 'CourierServer.run_until_shutdown')
  g = cfgm.cfg_of(ru.node)
  down = [n for n in g.nodes if any(isinstance(x, ast.Call) and unparse(x.func) == 'self._shutdown_server'
                                   for x in cfgm.node_exprs(n))]
  loopc = [c for c in g.nodes if c.kind == 'cond' and getattr(c, 'is_loop', False)
           and '_shutdown_requested' in unparse(c.ast)]
  setf = lambda n: isinstance(n.ast, ast.Assign) and is_self_attr(n.ast.targets[0], '_shutdown_requested') and (
      isinstance(n.ast.value, ast.Constant) and n.ast.value.value is True)
  if not down or not loopc:
    ctx.fail(rule, ru, 'run_until_shutdown: while not self._shutdown_requested: ...; self._shutdown_server()',
             'the serving loop no longer waits on the shutdown flag before tearing down', node=ru.node)
  else:
    c = loopc[0]
    neg = isinstance(c.ast, ast.UnaryOp) and isinstance(c.ast.op, ast.Not)
    exit_lab = 'false' if neg else 'true'

    def edge_ok(a, b, lab, c=c):
      if lab in ('exc', 'close'):
        return False
      if a is c and lab == exit_lab:
        return False          # left the loop because the flag was observed true
      return True

    w = g.must_pass(c, down, setf, edge_ok)
    if w is None:
      ctx.ok(rule, ru, 'tear-down is entered only with _shutdown_requested set', down[0].ast)
    else:
      ctx.fail(rule, ru, 'run_until_shutdown: self._shutdown_requested = True before leaving the loop',
               'the server can start tearing down (idle timeout) without'
               ' marking itself as shutting down: requests arriving during the'
               ' tear-down get the raw error or hang instead of a retriable'
               ' TimeoutError', node=down[0].ast, witness=w)
  nb = repo.func(CS, 'PrefetchedCourierServer._next_batch')
  g = cfgm.cfg_of(nb.node)
  ok = any(sd(c) and any(sub(s) for s, lab in c.succ if lab == 'true') for c in g.nodes)
  if ok:
    ctx.ok(rule, nb, '_next_batch: shutdown -> TimeoutError', nb.node)
  else:
    ctx.fail(rule, nb, '_next_batch: if self._shutdown_requested: e = TimeoutError(...)',
             'a generator stopped by shutdown is reported as failed instead of'
             ' a retriable timeout', node=nb.node)
  ctx.floor(rule, 4)


def r5(ctx: Ctx):
  rule = 'R-C14-5'
  ctx.rule(rule, 'unique handles: the id allocator of lazy (server-held)'
           ' objects draws from an atomic iterator (next() on itertools.count)'
           ' or holds a lock — never a read-modify-write of a plain field'
           ' (concurrent handler threads would hand two objects the same id)')
  repo = ctx.repo
  fi = repo.func(LF, 'IncrementId.__next__')
  rmw = []
  for x in walk_no_nested(fi.node):
    if isinstance(x, ast.AugAssign) and is_self_attr(x.target):
      rmw.append(x)
    if isinstance(x, ast.Assign) and is_self_attr(x.targets[0]):
      f = x.targets[0].attr
      if any(is_self_attr(y, f) for y in ast.walk(x.value)):
        rmw.append(x)
  locked = any(isinstance(w, ast.With) and 'lock' in unparse(w.items[0].context_expr).lower()
               for w in walk_no_nested(fi.node))
  atomic = any(isinstance(x, ast.Call) and unparse(x.func) == 'next' and x.args
               and is_self_attr(x.args[0]) for x in walk_no_nested(fi.node))
  fld = [f for f in repo.cls(LF, 'IncrementId').fields if f.name == '_inc_iter']
  count_src = bool(fld) and fld[0].default_factory is not None and 'count' in unparse(fld[0].default_factory)
  if rmw and not locked:
    ctx.fail(rule, fi, rmw[0], 'ids are produced by an unlocked read-modify-write'
             f' (`{unparse(rmw[0])}`): two handler threads can obtain the same'
             ' id, so one client\'s remote object resolves to another client\'s'
             ' object')
  elif (atomic and count_src) or locked:
    ctx.ok(rule, fi, 'ids come from next(itertools.count) (atomic) or a locked section', fi.node)
  else:
    ctx.fail(rule, fi, 'IncrementId.__next__: next(self._inc_iter) over itertools.count',
             'the id source is neither an atomic counter iterator nor protected'
             ' by a lock', node=fi.node)
  lo = repo.cls(LF, 'LazyObject')
  idf = [f for f in lo.fields if f.name == '_id']
  if idf and idf[0].default_factory is not None and 'next(_increment_id)' in unparse(idf[0].default_factory) and not idf[0].init:
    ctx.ok(rule, lo.methods['new'], 'every LazyObject takes a fresh id from the allocator', lo.node)
  else:
    ctx.fail(rule, lo.methods['new'], 'LazyObject._id: field(default_factory=lambda: next(_increment_id), init=False)',
             'lazy objects no longer take a fresh id from the shared allocator', node=lo.node)
  ctx.floor(rule, 2)


def r6(ctx: Ctx):
  rule = 'R-C14-6'
  ctx.rule(rule, 'a (re)built server starts with the shutdown request cleared:'
           ' in every function that stores a new courier server into'
           ' self._server, each path through that store also stores'
           ' `_shutdown_requested = False` (before it or before returning) —'
           ' otherwise a server rebuilt after a shutdown keeps answering'
           ' "shutting down" and its serving loop exits at once')
  repo = ctx.repo
  n = 0
  for cls in ('CourierServer', 'PrefetchedCourierServer'):
    ci = repo.cls(CS, cls)
    for fi in ci.methods.values():
      g = cfgm.cfg_of(fi.node)
      builds = [nd for nd in g.nodes if nd.kind == 'stmt' and isinstance(nd.ast, ast.Assign)
                and any(is_self_attr(t, '_server') for t in nd.ast.targets)
                and isinstance(nd.ast.value, ast.Call)]
      clear = lambda nd: nd.kind == 'stmt' and isinstance(nd.ast, ast.Assign) and any(
          is_self_attr(t, '_shutdown_requested') for t in nd.ast.targets) and isinstance(
              nd.ast.value, ast.Constant) and nd.ast.value.value is False
      for b in builds:
        n += 1
        before = g.must_pass(g.entry, [b], clear, cfgm.only_normal) is None
        after = g.must_pass(b, [g.exit_ret], clear, cfgm.only_normal) is None
        if before or after:
          ctx.ok(rule, fi, f'{fi.qualname}: `{b.text()[:50]}` paired with clearing the request', b.ast)
        else:
          ctx.fail(rule, fi, f'{fi.qualname}: self._server = <new server> => self._shutdown_requested = False',
                   f'{fi.qualname} builds a new server without clearing a previous'
                   ' shutdown request on that path: after a shutdown the rebuilt'
                   ' server answers every call with the "shutting down" timeout'
                   ' and run_until_shutdown returns immediately', node=b.ast)
  ctx.floor(rule, 1, n)


OBJECT_STORE_CLEAR = ('clear_object', 'LazyObject.result_.cache_clear')


def r7(ctx: Ctx):
  rule = 'R-C14-7'
  ctx.rule(rule, '"the object itself stays on the server": no callable bound as'
           ' an RPC method reaches (through resolved calls, depth <= 4) the'
           ' routine that empties the store of server-held lazy objects —'
           ' clients hold handles into that store; only the memoisation cache'
           ' of pure calls may be cleared remotely')
  from mlmverif.effects import Effects
  eff = Effects(ctx.repo)
  table = bound_table(ctx.repo)
  n = 0
  for name, tgt in sorted(table.items(), key=lambda kv: str(kv[0])):
    if not isinstance(tgt, FuncInfo):
      continue
    n += 1
    todo = [(tgt, [tgt.qualname])]
    seen = set()
    hit = None
    while todo and hit is None:
      fi, chain = todo.pop()
      if (fi.module.name, fi.qualname) in seen or len(chain) > 5:
        continue
      seen.add((fi.module.name, fi.qualname))
      for c in ast.walk(fi.node):
        if not isinstance(c, ast.Call):
          continue
        txt = unparse(c.func)
        if txt.split('.')[-1] == OBJECT_STORE_CLEAR[0] or txt.endswith(OBJECT_STORE_CLEAR[1]):
          hit = (fi, c, chain)
          break
        callee = eff.resolve(c, fi)
        if callee is not None:
          todo.append((callee, chain + [callee.qualname]))
    if hit:
      fi, c, chain = hit
      ctx.fail(rule, fi, f'RPC {name!r} -> {" -> ".join(chain)} -> {unparse(c.func)}',
               f'the RPC method {name!r} empties the store of server-held lazy'
               f' objects (via {" -> ".join(chain)}): every remote handle a client'
               ' still holds dereferences to a missing object', node=c)
    else:
      ctx.ok(rule, tgt, f'RPC {name!r} cannot empty the object store', tgt.node)
  ctx.floor(rule, 6, n)


def r9(ctx: Ctx):
  rule = 'R-C14-9'
  ctx.rule(rule, '"raises the same exception type and message as evaluating it'
           ' locally": the classifier the client uses to rewrite an error into'
           ' its own transport diagnostic (is_timeout -> "Try longer timeout'
           ' on <client>") recognises transport status codes only — it never'
           ' matches a Python exception class, so an exception raised BY the'
           ' remote expression (incl. its own TimeoutError) is re-raised'
           ' unchanged')
  fi = ctx.repo.func(CU, 'is_timeout')
  n = 0
  bad = None
  for x in ast.walk(fi.node):
    if isinstance(x, ast.Call) and unparse(x.func) in ('isinstance', 'issubclass'):
      bad = x
    if isinstance(x, ast.Compare) and any(isinstance(o, (ast.Is, ast.Eq)) for o in x.ops) and 'type(' in unparse(x):
      bad = x
  uses_code = any(isinstance(x, ast.Call) and unparse(x.func) == 'getattr' and len(x.args) >= 2
                  and isinstance(x.args[1], ast.Constant) and x.args[1].value == 'code' for x in ast.walk(fi.node)) or any(
                      isinstance(x, ast.Attribute) and x.attr == 'code' for x in ast.walk(fi.node))
  n += 1
  if bad is not None or not uses_code:
    ctx.fail(rule, fi, 'is_timeout: decided by the transport status code only',
             f'is_timeout classifies by `{unparse(bad)[:50] if bad is not None else "something else than the status code"}`:'
             ' a TimeoutError raised by the remote expression itself is taken for'
             ' a transport deadline and replaced by the client\'s "Try longer'
             ' timeout" message — remote and local evaluation no longer raise'
             ' the same message', node=bad or fi.node)
  else:
    ctx.ok(rule, fi, 'is_timeout looks at the status code only', fi.node)
  # the rewriting handlers consult that classifier
  for qn in ('CourierClient.get_result', 'CourierClient.async_get_result'):
    g = ctx.repo.try_func(CU, qn)
    if g is None:
      continue
    n += 1
    rewrites = [x for x in ast.walk(g.node) if isinstance(x, ast.Raise) and isinstance(x.exc, ast.Call)
                and unparse(x.exc.func) == 'TimeoutError']
    guarded = all(any(isinstance(p_, ast.If) and 'is_timeout(' in unparse(p_.test)
                      for p_ in _ancestors(g.node, r_)) for r_ in rewrites)
    if rewrites and guarded:
      ctx.ok(rule, g, f'{qn}: rewrite only under is_timeout(e)', rewrites[0])
    elif rewrites:
      ctx.fail(rule, g, f'{qn}: rewrite to the transport diagnostic only under is_timeout(e)',
               'a remote exception is replaced by the client\'s timeout message'
               ' without consulting the transport classifier', node=rewrites[0])
  ctx.floor(rule, 2, n)


def _ancestors(root, node):
  from mlmverif.core import parent_map
  pm = parent_map(root)
  q = pm.get(node)
  while q is not None:
    yield q
    q = pm.get(q)


def r21(ctx: Ctx):
  rule = 'R-C14-21'
  ctx.rule(rule, '"remote iterators ... yield exactly the underlying elements in order and signal exhaustion once": the end of a'
           ' remote iterator is signalled OUT OF BAND — the traced `next(<remote iterator>)` carries no default, and'
           ' RemoteIterator.__next__/__anext__ raise StopIteration/StopAsyncIteration only as the re-raised remote signal,'
           ' never conditionally on the VALUE they received. With an in-band sentinel (next(it, None) ... `if result is'
           ' None: raise StopIteration`) an element equal to the sentinel ends the stream early and the generator\'s return'
           ' value is dropped')
  ci = ctx.repo.cls(CU, 'RemoteIterator')
  n = 0
  for name in ('__next__', '__anext__'):
    fi = ci.methods.get(name)
    if fi is None:
      continue
    n += 1
    bad = None
    for c in ast.walk(fi.node):
      if (isinstance(c, ast.Call) and isinstance(c.func, ast.Call) and unparse(c.func.func).endswith('trace')
          and c.func.args and unparse(c.func.args[0]) == 'next' and (len(c.args) != 1 or c.keywords)):
        bad = (c, f'`{unparse(c)[:70]}` asks the server for next() WITH a default: the default is an in-band end marker')
    assigned = {t.id for x in ast.walk(fi.node) if isinstance(x, ast.Assign) for t in x.targets if isinstance(t, ast.Name)}
    pm = parent_map(fi.node)
    for r_ in ast.walk(fi.node):
      if isinstance(r_, ast.Raise) and r_.exc is not None and ('StopIteration' in unparse(r_.exc) or 'StopAsyncIteration' in unparse(r_.exc)):
        q = r_
        while q in pm:
          par = pm[q]
          if isinstance(par, ast.If) and any(isinstance(y, ast.Name) and y.id in assigned for y in ast.walk(par.test)):
            bad = (r_, f'`{unparse(par.test)}` decides the end of the stream from the received value')
          q = par
    what = f'RemoteIterator.{name}: exhaustion is the remote StopIteration, not a sentinel value'
    if bad:
      ctx.fail(rule, fi, what, bad[1] + ': an element equal to the sentinel (None) ends the remote stream early, the remaining'
               ' elements and the return value are never delivered', node=bad[0])
    else:
      ctx.ok(rule, fi, what, fi.node)
  ctx.floor(rule, 2, n)


def r23(ctx: Ctx):
  rule = 'R-C14-23'
  ctx.rule(rule, '"chains of attribute access, indexing and calls on a remote object behave like on the local object": the'
           ' forwarding methods of RemoteObject hand their arguments to the recorded lazy call AS GIVEN — a method that takes'
           ' `*args` / `**kwargs` (or a key) never re-binds them before `self.value(...)`. Replacing a RemoteObject argument'
           ' by its bare lazy handle ("by reference") is only right when it lives on the callee\'s server: for an object of'
           ' ANOTHER server the callee looks the id up in its own store and the client gets LazyObjectMissingError instead'
           ' of the value')
  ci = ctx.repo.cls(CU, 'RemoteObject')
  n = 0
  for name in ('__call__', '__getitem__', '__getattr__'):
    fi = ci.methods.get(name)
    if fi is None:
      continue
    a = fi.node.args
    ps = [x.arg for x in a.args[1:]] + [x.arg for x in (a.vararg, a.kwarg) if x]
    n += 1
    rebinds = [x for x in walk_no_nested(fi.node) if isinstance(x, ast.Assign) and any(isinstance(t, ast.Name) and t.id in ps for t in x.targets)]
    what = f'RemoteObject.{name}: the arguments reach the recorded call as given'
    if rebinds:
      ctx.fail(rule, fi, what,
               f'`{unparse(rebinds[0])[:70]}` rewrites the arguments of the forwarded call: a remote argument held by another server is'
               ' dereferenced on the wrong server', node=rebinds[0])
    else:
      ctx.ok(rule, fi, what, fi.node)
  ctx.floor(rule, 2, n)


def r25(ctx: Ctx):
  rule = 'R-C14-25'
  ctx.rule(rule, '"remote iterators and remote queues yield exactly the underlying elements in order and signal exhaustion once": the'
           ' remote queue CourierClient.async_iter builds on the server is configured with the caller\'s own parameters —'
           ' the method never re-binds a parameter (`timeout = self.call_timeout or None` when none was given). A queue'
           ' timeout also bounds the PRODUCER\'s put() on a full buffer: a consumer that pauses longer than the client\'s'
           ' call timeout makes the server-side enqueue fail, the buffered elements are dropped and the stream ends with'
           ' TimeoutError instead of its remaining elements')
  ci = ctx.repo.cls(CU, 'CourierClient')
  n = 0
  for name in ('async_iter',):
    fi = ci.methods.get(name)
    if fi is None:
      raise AnalysisError(f'{rule}: CourierClient.{name} not found')
    ps = set(fi.params()[1:])
    n += 1
    rebinds = [x for x in walk_no_nested(fi.node) if isinstance(x, (ast.Assign, ast.AugAssign, ast.AnnAssign)) and any(
        isinstance(t, ast.Name) and t.id in ps for t in (x.targets if isinstance(x, ast.Assign) else [x.target]))]
    what = f'CourierClient.{name}: the remote queue gets the caller\'s parameters as given'
    if rebinds:
      ctx.fail(rule, fi, what,
               f'`{unparse(rebinds[0])[:70]}` replaces a parameter before the remote queue is built: the server-side queue is'
               ' configured with a value the caller never chose', node=rebinds[0])
    else:
      ctx.ok(rule, fi, what, fi.node)
  ctx.floor(rule, 1, n)


def r27(ctx: Ctx):
  rule = 'R-C14-27'
  ctx.rule(rule, '"evaluating a lazy expression on a server through a client returns the same value ... as evaluating it locally",'
           ' for every client configuration: CourierClient is a singleton PER CONFIGURATION — the registry hands back an'
           ' existing client when `__eq__` says so, so `__eq__` compares the whole `configs` (address AND call timeout,'
           ' heartbeat threshold, batch size ...), not the address alone: a client built with a 30 s deadline would'
           ' otherwise be the earlier client with its 0.5 s deadline, and a slow call fails where local evaluation succeeds')
  ci = ctx.repo.cls(CU, 'CourierClient')
  fi = ci.methods.get('__eq__')
  if fi is None:
    raise AnalysisError(f'{rule}: CourierClient.__eq__ not found')
  compared = {y.attr for c in ast.walk(fi.node) if isinstance(c, ast.Compare) for y in ast.walk(c) if isinstance(y, ast.Attribute)}
  what = 'CourierClient.__eq__ compares the whole client configuration'
  if 'configs' in compared:
    ctx.ok(rule, fi, what, fi.node)
  else:
    ctx.fail(rule, fi, what,
             f'CourierClient.__eq__ compares {sorted(compared)} only: two clients that differ in their other settings are ONE singleton —'
             ' the second caller silently gets the first caller\'s timeouts', node=fi.node)
  ctx.floor(rule, 1, 1)


from mlmverif.selfcheck import B, OK  # noqa: E402

_S = 'chainables/courier_server.py'
_U = 'utils/courier_utils.py'
VARIANTS = [
    OK('made-value-through-a-local', 'chainables/lazy_fns.py',
       "    return maybe_lazy.result_()", "    made = maybe_lazy.result_()\n    return made"),
    OK('next-batch-queue-through-a-local', 'chainables/courier_server.py',
       "      result = self._generator.get_batch(batch_size, block=True)", "      prefetched = self._generator\n      result = prefetched.get_batch(batch_size, block=True)"),
    B('traced-list-key-becomes-a-tuple', 'chainables/lazy_fns.py',
      '  def __getitem__(self, key) -> LazyFn:\n    return LazyFn.new(operator.getitem, args=(self, key))',
      '  def __getitem__(self, key) -> LazyFn:\n    if isinstance(key, list):\n      key = tuple(key)\n    return LazyFn.new(operator.getitem, args=(self, key))', 'R-C14-29'),
    B('clients-equal-by-address-alone', 'utils/courier_utils.py',
      "    return isinstance(other, CourierClient) and self.configs == other.configs", "    return isinstance(other, CourierClient) and self.address == other.address", 'R-C14-27'),
    B('id-counter-four-bytes', 'chainables/lazy_fns.py',
      "_increment_id = IncrementId(id_len=8)", "_increment_id = IncrementId(id_len=4)", 'R-C14-28'),
    B('remote-queue-timeout-defaults-to-the-call-timeout', 'utils/courier_utils.py',
      '    """Async iterates the generator task."""\n    # Create a queue at the worker', '    """Async iterates the generator task."""\n    if timeout is None:\n      timeout = self.call_timeout or None\n    # Create a queue at the worker', 'R-C14-25'),
    B('recorded-kwargs-sorted-by-name', 'chainables/lazy_fns.py',
      "        kwargs=tuple((kwargs or {}).items()),", "        kwargs=tuple(sorted((kwargs or {}).items(), key=lambda kv: kv[0])),", 'R-C14-26'),
    OK('remote-call-through-a-local-lazy', 'utils/courier_utils.py',
       '    """Calling a LazyFn records a lazy result of the call."""\n', '    """Calling a LazyFn records a lazy result of the call."""\n    n_args = len(args) + len(kwargs)\n    del n_args\n'),
    B('remote-arguments-by-reference', 'utils/courier_utils.py',
      '    """Calling a LazyFn records a lazy result of the call."""\n', '    """Calling a LazyFn records a lazy result of the call."""\n    args = [a.value if isinstance(a, RemoteObject) else a for a in args]\n', 'R-C14-23'),
    B('makers-keyed-by-the-type-object', 'chainables/lazy_fns.py',
      "    self.data[repr(type_)] = maker", "    self.data[type_] = maker", 'R-C14-24',
      extra=(('chainables/lazy_fns.py', "    return self.data.get(repr(type_), None)", "    return self.data.get(type_, None)"),)),
    B('remote-next-with-none-sentinel', 'utils/courier_utils.py',
      "  def __next__(self) -> _T:\n    return self.iterator.worker.get_result(\n        lazy_fns.trace(next)(self.iterator.value)\n    )",
      "  def __next__(self) -> _T:\n    result = self.iterator.worker.get_result(\n        lazy_fns.trace(next)(self.iterator.value, None)\n    )\n    if result is None:\n      raise StopIteration()\n    return result", 'R-C14-21'),
    OK('remote-next-through-a-local', 'utils/courier_utils.py',
       "  def __next__(self) -> _T:\n    return self.iterator.worker.get_result(\n        lazy_fns.trace(next)(self.iterator.value)\n    )",
       "  def __next__(self) -> _T:\n    result = self.iterator.worker.get_result(\n        lazy_fns.trace(next)(self.iterator.value)\n    )\n    return result"),
    B('handler-drops-the-queue-after-the-end-marker', 'chainables/courier_server.py',
      "        result.append(StopIteration(*self._generator.returned))\n", "        result.append(StopIteration(*self._generator.returned))\n        self._generator = None\n", 'R-C14-22'),
    B('liveness-tested-before-the-delivered-answer', 'utils/courier_utils.py',
      "    while not future.done():\n      if not self.is_alive:\n        raise RuntimeError(f'Worker disconnected: {self}')\n      time.sleep(0)",
      "    while self.is_alive:\n      if future.done():\n        break\n      time.sleep(0)\n    else:\n      raise RuntimeError(f'Worker disconnected: {self}')", 'R-C14-19'),
    B('missing-object-answered-as-timeout', 'chainables/courier_server.py',
      "        e = TimeoutError('Shutdown requested, the worker is shutting down.')\n      if not return_exception:",
      "        e = TimeoutError('Shutdown requested, the worker is shutting down.')\n      elif isinstance(e, KeyError):\n        e = TimeoutError(f'restarted: {e}')\n      if not return_exception:", 'R-C14-20'),
    B('error-log-indexes-args', 'chainables/courier_server.py',
      "            'chainable: %s', f'maybe_make exception for {maybe_lazy}.'", "            'chainable: %s', f'maybe_make exception for {maybe_lazy}: {e.args[0]}'", 'R-C14-17'),
    OK('error-log-formats-the-exception', 'chainables/courier_server.py',
       "            'chainable: %s', f'maybe_make exception for {maybe_lazy}.'", "            'chainable: %s', f'maybe_make exception for {maybe_lazy}: {e}'"),
    B('lazyfn-eq-structural-first', 'chainables/lazy_fns.py',
      "        self.id == other.id\n        or (\n            self.value == other.value\n            and self.args == other.args\n            and self.kwargs == other.kwargs\n        )\n",
      "        (\n            self.value == other.value\n            and self.args == other.args\n            and self.kwargs == other.kwargs\n        )\n        or self.id == other.id\n", 'R-C14-18'),
    B('remote-getattr-refuses-private-names', 'utils/courier_utils.py',
      '  def __getattr__(self, name: str) -> RemoteObject:\n    return RemoteObject.new(',
      "  def __getattr__(self, name: str) -> RemoteObject:\n    if name.startswith('_'):\n      raise AttributeError(name)\n    return RemoteObject.new(", 'R-C14-15'),
    B('async-exhaustion-carries-first-value-only', 'utils/courier_utils.py',
      '      raise StopAsyncIteration(*e.args) from e', '      raise StopAsyncIteration(e.value) from e', 'R-C14-16'),
    B('pickler-passes-bytes-through', 'chainables/lazy_fns.py',
      '    bytes_ = self.default.dumps(value)', '    bytes_ = value if isinstance(value, bytes) else self.default.dumps(value)', 'R-C14-13'),
    OK('pickler-compress-by-if', 'chainables/lazy_fns.py',
       '    bytes_ = self.default.dumps(value)\n    return gzip.compress(bytes_, compresslevel=5) if compress else bytes_',
       '    bytes_ = self.default.dumps(value)\n    return bytes_ if not compress else gzip.compress(bytes_, compresslevel=5)'),
    B('remote-handle-memoises-first-answer', 'utils/courier_utils.py',
      '    return self.worker.get_result(self.value)',
      "    try:\n      return self.__dict__['_result']\n    except KeyError:\n      result = self.__dict__['_result'] = self.worker.get_result(self.value)\n      return result", 'R-C14-14'),
    B('is-timeout-matches-python-timeouts', _U,
      "  return getattr(e, 'code', 0) == 4", "  return isinstance(e, TimeoutError) or getattr(e, 'code', 0) == 4",
      'R-C14-9'),
    B('next-batch-blocks-under-generator-lock', _S,
      '      result = self._generator.get_batch(batch_size, block=True)',
      '      with self._generator_lock:\n        result = self._generator.get_batch(batch_size, block=True)',
      'R-C14-8'),
    B('shutdown-flag-cleared-only-with-new-thread', _S,
      '    if self._server is None:\n      self._shutdown_requested = False\n      self._server = courier.Server',
      '    if self._server is None:\n      self._server = courier.Server', 'R-C14-6',
      extra=((_S, '      if not self._thread:\n        self._thread = threading.Thread(',
              '      if not self._thread:\n        self._shutdown_requested = False\n        self._thread = threading.Thread('),)),
    OK('shutdown-flag-cleared-after-setup', _S,
       '      self._shutdown_requested = False\n      self._server = courier.Server(self.server_name, port=self.port)\n      self.set_up()',
       '      self._server = courier.Server(self.server_name, port=self.port)\n      self.set_up()\n      self._shutdown_requested = False'),
    B('clear-cache-rpc-wipes-objects', 'chainables/transform.py',
      '  lazy_fns.clear_cache()\n', '  lazy_fns.clear_cache()\n  lazy_fns.clear_object()\n', 'R-C14-7'),
    B('idle-shutdown-without-flag', _S,
      '          self._shutdown_requested = True\n          break', '          break', 'R-C14-4'),
    B('id-allocator-read-modify-write', 'chainables/lazy_fns.py',
      '    next_id = next(self._inc_iter)\n    # Reset the id to mimic fixed length int.',
      '    next_id = self._max_id and (self._base & 0)\n    self._base += 1\n    # Reset the id to mimic fixed length int.',
      'R-C14-5'),
    B('bind-renamed', _S, "    self._server.Bind('clear_cache', transform.clear_cache)",
      "    self._server.Bind('clear_caches', transform.clear_cache)", 'R-C14-1'),
    B('client-kwarg-renamed', _U,
      "        courier_method='next_batch_from_generator', batch_size=batch_size",
      "        courier_method='next_batch_from_generator', size=batch_size", 'R-C14-1'),
    B('server-param-renamed', _S, '      compress: bool = False,\n      return_immediately',
      '      compressed: bool = False,\n      return_immediately', None),
    B('get-result-uncompressed', _U,
      '    self.wait_until_alive()\n    future = self.call(lazy_obj, return_exception=True, compress=True)',
      '    self.wait_until_alive()\n    future = self.call(lazy_obj, return_exception=True)',
      'R-C14-2'),
    B('server-ignores-compress', _S,
      '    return self._return_pickled(result, compress=compress)',
      '    return self._return_pickled(result)', 'R-C14-2'),
    B('exception-not-raised', _U,
      '    if isinstance(result, Exception):\n      raise result\n', '', 'R-C14-2'),
    B('getitem-forwards-attr', _U,
      '    return RemoteObject.new(self.value[key], worker=self.client_configs)',
      '    return RemoteObject.new(getattr(self.value, key), worker=self.client_configs)',
      'R-C14-3'),
    B('async-get-uses-batch', _U,
      '    return await self._queue.get().async_result_()',
      '    return await self._queue.get_batch().async_result_()', 'R-C14-3'),
    B('async-no-stop-conversion', _U,
      '    except StopIteration as e:\n      raise StopAsyncIteration(*e.args) from e\n    except Exception as e:  # pylint: disable=broad-exception-caught\n      if is_timeout(e):\n        if self.is_alive:\n          raise TimeoutError(f\'Try longer timeout on {self}\') from e\n        else:\n          e.add_note(f\'Courier worker {self} died.\')\n      raise e\n\n  def submit',
      '    except Exception as e:  # pylint: disable=broad-exception-caught\n      if is_timeout(e):\n        if self.is_alive:\n          raise TimeoutError(f\'Try longer timeout on {self}\') from e\n        else:\n          e.add_note(f\'Courier worker {self} died.\')\n      raise e\n\n  def submit',
      'R-C14-3'),
    B('shutdown-keeps-error', _S,
      "      if self._shutdown_requested:\n        e = TimeoutError('Shutdown requested, the worker is shutting down.')\n",
      '', 'R-C14-4'),
    B('init-during-shutdown', _S,
      "    if self._shutdown_requested:\n      return TimeoutError('Shutdown requested, cannot take new generator.')\n",
      '', 'R-C14-4'),
]
