"""Symbolic summary of SequenceDataSource.shard (shared by C09 and C10)."""
from __future__ import annotations

import ast

from mlmverif import affine as af
from mlmverif.core import AnalysisError, Ctx, FuncInfo, is_self_attr, unparse
from mlmverif.sym import Poly

IO = 'chainables.io'


class ShardSummary:
  """start/end of shard k of K over the parent's [S, E) as piecewise terms.

  Symbols: S = parent start, E = parent end, q,r = divmod(<length expr>, K),
  k = shard_index, K = num_shards, o = offset.
  """

  def __init__(self, repo):
    self.repo = repo
    self.fi: FuncInfo = repo.func(IO, 'SequenceDataSource.shard')
    ps = self.fi.params()
    if len(ps) < 3:
      raise AnalysisError('SequenceDataSource.shard: unexpected signature')
    self.p_index, self.p_num = ps[1], ps[2]
    self.p_off = ps[3] if len(ps) > 3 else None
    self.length_expr: ast.AST | None = None
    self.divisor: ast.AST | None = None
    self.q_name = self.r_name = None
    self.start: Poly | None = None
    self.end: Poly | None = None
    self.replace_call: ast.Call | None = None
    self.state_ctor: ast.Call | None = None
    # possible values (source text) of locals that hold non-arithmetic values
    self.other_locals: dict[str, set[str]] = {}
    self._run()

  def _run(self):
    S, E, k, Kn, o = af.V('S'), af.V('E'), af.V('k'), af.V('K'), af.V('o')
    env = {
        self.p_index: k, self.p_num: Kn,
        'self.start': S, 'self.end': E, 'self._start': S,
    }
    if self.p_off:
      env[self.p_off] = o
    ev = af.AffEval(env)
    for s in self.fi.node.body:
      if isinstance(s, ast.Expr) and isinstance(s.value, ast.Constant):
        continue
      if isinstance(s, ast.If):
        # argument validation: must end in raise
        if all(isinstance(x, ast.Raise) for x in s.body) and not s.orelse:
          continue
        # a branch that only re-binds locals holding non-arithmetic values
        # (e.g. the recorded parent state): keep every possible value
        asg = [x for x in s.body + s.orelse]
        if asg and all(isinstance(x, ast.Assign) and len(x.targets) == 1 and isinstance(
            x.targets[0], ast.Name) and x.targets[0].id not in ev.env for x in asg):
          for x in asg:
            self.other_locals.setdefault(x.targets[0].id, set()).add(unparse(x.value))
          continue
        raise AnalysisError(f'shard(): unsupported if-statement at line {s.lineno}')
      if isinstance(s, ast.Assign) and isinstance(s.value, ast.Call) and unparse(
          s.value.func) == 'divmod':
        t = s.targets[0]
        if not (isinstance(t, ast.Tuple) and len(t.elts) == 2 and all(
            isinstance(x, ast.Name) for x in t.elts) and len(s.value.args) == 2):
          raise AnalysisError('shard(): unsupported divmod form')
        self.q_name, self.r_name = t.elts[0].id, t.elts[1].id
        self.length_expr, self.divisor = s.value.args
        ev.env[self.q_name] = af.V('q')
        ev.env[self.r_name] = af.V('r')
        continue
      if isinstance(s, ast.Assign) and isinstance(s.value, ast.Call) and 'ShardConfig' in unparse(
          s.value.func):
        self.state_ctor = s.value
        self.state_var = s.targets[0].id if isinstance(s.targets[0], ast.Name) else None
        continue
      if isinstance(s, ast.Assign) and len(s.targets) == 1:
        try:
          ev.assign(s.targets[0], s.value)
        except af.AffUnsupported:
          if not isinstance(s.targets[0], ast.Name):
            raise
          ev.env.pop(s.targets[0].id, None)
          self.other_locals[s.targets[0].id] = {unparse(s.value)}
        continue
      if isinstance(s, ast.AugAssign) and isinstance(s.target, ast.Name):
        cur = ev.env.get(s.target.id)
        if cur is None:
          raise AnalysisError(f'shard(): {s.target.id} used before assignment')
        v = ev.expr(s.value)
        ev.env[s.target.id] = cur + v if isinstance(s.op, ast.Add) else cur - v
        continue
      if isinstance(s, ast.For):
        # names assigned in the loop are not visible before their assignment
        ev.run_loop(s)
        continue
      if isinstance(s, ast.Return):
        call = s.value
        if isinstance(call, ast.Call) and unparse(call.func) in (
            'dc.replace', 'dataclasses.replace'):
          self.replace_call = call
          for kw in call.keywords:
            if kw.arg == '_start':
              self.start = ev.expr(kw.value)
            elif kw.arg == '_end':
              self.end = ev.expr(kw.value)
            elif kw.arg == '_shard_state' and isinstance(kw.value, ast.Call):
              self.state_ctor = kw.value
          continue
        raise AnalysisError('shard(): return is not dataclasses.replace(self, ...)')
      raise AnalysisError(f'shard(): unsupported statement `{unparse(s)[:50]}`')
    if self.start is None or self.end is None:
      raise AnalysisError('shard(): _start/_end are not passed to dataclasses.replace')
    if self.q_name is None:
      raise AnalysisError('shard(): divmod of the length by num_shards not found')


def summary(ctx: Ctx) -> ShardSummary:
  s = getattr(ctx.repo, '_mlm_shard', None)
  if s is None:
    s = ShardSummary(ctx.repo)
    ctx.repo._mlm_shard = s
  return s
