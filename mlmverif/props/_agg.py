"""Shared enumeration of accumulator classes for C01 / C11."""
from __future__ import annotations

import ast

from mlmverif.core import AnalysisError, ClassInfo, Ctx, FuncInfo, Repo
from mlmverif.effects import Effects

AGG_MODULES = (
    'aggregates.base', 'aggregates.rolling_stats', 'aggregates.classification',
    'aggregates.retrieval', 'aggregates.text', 'aggregates.utils',
    'aggregates.keras_metric_wrapper', 'metrics.classification',
)
MERGE_NAMES = ('merge', '__iadd__', '__add__')


class AggModel:

  def __init__(self, repo: Repo):
    self.repo = repo
    self.eff = Effects(repo)
    self.classes: list[ClassInfo] = []
    for mod in AGG_MODULES:
      mi = repo.module(mod)
      for ci in mi.classes.values():
        self.classes.append(ci)
    # classes defining (not just inheriting) a merge-like method
    self.merge_methods: list[tuple[ClassInfo, FuncInfo]] = []
    for ci in self.classes:
      for name in MERGE_NAMES:
        m = ci.methods.get(name)
        if m is None:
          continue
        if self._is_abstract(m):
          continue
        self.merge_methods.append((ci, m))
    # concrete accumulator classes: any class whose MRO provides merge
    self.accumulators: list[ClassInfo] = []
    for ci in self.classes:
      m = repo.find_method(ci, 'merge')
      if m is not None and not self._is_abstract(m):
        if 'Protocol' in ' '.join(ci.bases):
          continue
        self.accumulators.append(ci)

  def _is_abstract(self, m: FuncInfo) -> bool:
    if any('abstractmethod' in d for d in m.decorators):
      return True
    body = [s for s in m.node.body if not (
        isinstance(s, ast.Expr) and isinstance(s.value, ast.Constant))]
    if not body:
      return True
    if len(body) == 1 and isinstance(body[0], ast.Raise) and 'NotImplementedError' in (
        ast.unparse(body[0])):
      return True
    return False

  def operand(self, m: FuncInfo) -> str:
    ps = m.params()
    if len(ps) < 2:
      raise AnalysisError(f'{m.qualname}: merge-like method without an operand')
    return ps[1]

  def method_of(self, ci: ClassInfo, name: str) -> FuncInfo | None:
    m = self.repo.find_method(ci, name)
    if m is None:
      return None
    if m.cls is not ci:
      return FuncInfo(m.module, m.qualname, m.node, ci)
    return m


def model(ctx: Ctx) -> AggModel:
  m = getattr(ctx.repo, '_mlm_agg_model', None)
  if m is None:
    m = AggModel(ctx.repo)
    ctx.repo._mlm_agg_model = m
  return m
