"""C04 — iterator queues deliver exactly once and terminate (structural part).

Decides the classical necessary conditions of a two-condition monitor:
condition-variable discipline under every calling context, predicate loops,
lock balance on every exit, lock-order acyclicity, wake-up obligations, the
end-of-stream payload, and single transfer of each element through the
put/get wrappers.  Does not decide exactly-once delivery as a statement about
interleavings.
"""
from __future__ import annotations

import ast

from mlmverif import cfg as cfgm
from mlmverif.core import (parent_map, AnalysisError, Ctx, FuncInfo, is_self_attr, norm,
                           unparse, walk_no_nested)
from mlmverif.locks import ls_has, ls_str
from mlmverif.props._queue import DEQ, ENQ, QCLS, QMOD, STATES, model
from mlmverif.sync import (calls_method, enclosing_loops, mentions_attr,
                           node_of)

EXPLANATION = (
    'Static lockset/CFG analysis of IteratorQueue (and subclasses, helper'
    ' _release_and_notify, and client classes holding a queue). Decides:'
    ' wait/notify only with the condition held in every calling context'
    ' including direct public entry; waits inside re-testing loops; lock'
    ' multiset balanced on every normal/exceptional exit; lock-order graph'
    ' acyclic and no wait while a second lock is held; wake-up obligations'
    ' after successful put/get and when enqueueing finishes; end-of-stream'
    ' raises carry exception-or-StopIteration(returned); each element moves'
    ' through put/get wrappers exactly once per call. NOT decided: exactly-once'
    ' delivery / ordering across interleavings (runtime quantities).'
)
ASSUMPTIONS = [
    'queue.Queue/SimpleQueue/asyncio.Queue put_nowait/get_nowait are atomic'
    ' and raise Full/Empty as documented.',
    'threading.Condition() wraps an RLock (reentrant); Condition.wait fully'
    ' releases only its own lock.',
]

_QUEUE_FUNCS_HELPERS = ('_release_and_notify',)


def _in_family(m, fi: FuncInfo) -> bool:
  if fi.cls is not None and any(fi.cls.name == c.name for c in m.classes):
    return True
  return fi.cls is None and fi.name in _QUEUE_FUNCS_HELPERS


def run(ctx: Ctx):
  m = model(ctx)
  eng = m.eng
  for r in (r1, r2, r3, r4, r5, r6, r7, r8, r9, r10, r11, r13, r14, r16, r17, r18, r19, r20, r21, r22):
    ctx.guard(r, m)
  from mlmverif.props import c13
  from mlmverif.props import c13 as _c13
  ctx.include('R-C04-23', '"consumers get every element exactly once" in a stacked stream: the stop link points from the RESULT queue to'
              ' the input queue (`result.stop_with(<input>)`, R-C13-10) — linked the other way round, the end of the feeders'
              ' stops the result queue while the workers still hold elements: their remaining puts are dropped and the'
              ' consumer gets end-of-stream with the tail of the stream missing', _c13.r10, min_instances=1)
  ctx.include('R-C04-25', '"consumers get every element exactly once and then exactly one end-of-stream": the multiplexing queue knows how'
              ' many producers to expect BEFORE any of them runs (max_enqueuer=len(inputs), R-C13-2): with a busy pool the'
              ' producers that already started can finish before a queued one begins, and the stream would end early', _c13.r2,
              min_instances=1)
  from mlmverif.props import c14 as _c14
  ctx.include('R-C04-24', '"exactly one end-of-stream carrying all producers\' return values" on the ASYNC consumer paths too: every'
              ' conversion of the queue\'s StopIteration into StopAsyncIteration passes `*e.args` on (R-C14-16) — a bare'
              ' `StopAsyncIteration()` ends `async for` / async_get_batch consumers (and a queue chained behind them) with'
              ' no return values', _c14.r16, min_instances=3)
  ctx.include('R-C04-15', '"end-of-stream carrying all producers\' return values":'
              ' the enqueue loops forward every return value of their iterator'
              ' (`*e.args` / `e.value`), also when the iterator is another queue'
              ' whose end-of-stream carries several (R-C13-4)', c13.r4, min_instances=2)
  ctx.include('R-C04-12', '"no interleaving leaves a producer or consumer blocked'
              ' for ever" on the stop/failure paths: a recorded failure and a'
              ' stop request wake ALL waiters on both conditions (R-C05-1,'
              ' R-C05-5)', _c05_shared, m, min_instances=10)
  if eng.unknown_lock_exprs:
    ctx.note('lock-like expressions not resolved: '
             + '; '.join(sorted(eng.unknown_lock_exprs)))


def r1(ctx: Ctx, m):
  rule = 'R-C04-1'
  ctx.rule(rule, 'every wait/notify/notify_all on a queue condition executes'
           ' with that condition in the lockset, in every calling context'
           ' (public entry = empty lockset)')
  by_site: dict = {}
  for ev in m.eng.events:
    if ev.kind not in ('wait', 'notify') or ev.lock not in (DEQ, ENQ):
      continue
    by_site.setdefault((ev.fi, id(ev.node)), []).append(ev)
  waits = notifies = 0
  for (fi, _), evs in by_site.items():
    bad = [e for e in evs if not e.held]
    ev0 = evs[0]
    if ev0.kind == 'wait':
      waits += 1
    else:
      notifies += 1
    if bad:
      b = bad[0]
      ctx.fail(rule, fi, ev0.node,
               f'{unparse(ev0.node)} runs without {b.lock} held: lockset'
               f' {ls_str(b.before)} via {" > ".join(b.chain)} (public entry'
               ' with no lock held) — threading raises RuntimeError "cannot'
               ' notify on un-acquired lock"',
               witness=[f'context: {" > ".join(e.chain)} lockset {ls_str(e.before)}'
                        for e in bad])
    else:
      ctx.ok(rule, fi, unparse(ev0.node), ev0.node,
             detail=f'{len(evs)} context(s), e.g. {" > ".join(ev0.chain)}')
  ctx.floor(rule, 5)
  if waits < 2:
    raise AnalysisError(f'{rule}: only {waits} wait sites found (floor 2)')


def r2(ctx: Ctx, m):
  rule = 'R-C04-2'
  ctx.rule(rule, 'every Condition.wait lies in a loop that re-tests its'
           ' predicate after waking (no wait under a plain if)')
  seen = set()
  for ev in m.eng.events:
    if ev.kind != 'wait' or ev.lock not in (DEQ, ENQ):
      continue
    if (ev.fi, id(ev.node)) in seen:
      continue
    seen.add((ev.fi, id(ev.node)))
    fi = ev.fi
    loops = enclosing_loops(fi.node, ev.node)
    g = cfgm.cfg_of(fi.node)
    nodes = node_of(g, ev.node)
    in_cycle = False
    for n in nodes:
      reach = g.reachable([n], edge_ok=cfgm.no_close)
      if n in reach:
        in_cycle = True
    # after waking, the normal exit is reached only through a re-test
    witness = None
    wl = [l for l in loops if isinstance(l, ast.While)]

    def retest(nd, wl=wl, fi=fi):
      if nd.kind == 'cond' and any(nd.ast is l.test for l in wl):
        return True
      if done_test(fi, nd):
        return True
      return any(isinstance(x, ast.Call) and isinstance(x.func, ast.Attribute)
                 and x.func.attr in ('get_nowait', 'put_nowait', 'empty', 'full')
                 for x in cfgm.node_exprs(nd))

    for n in nodes:
      starts = [s for s, lab in n.succ if lab in ('true', 'next')]
      for s in starts:
        if retest(s):
          continue
        w = g.must_pass(s, [g.exit_ret], retest, cfgm.only_normal)
        if w is not None or s is g.exit_ret:
          witness = [f'L{n.lineno}: {n.text()}'] + (w or [])
    if not wl or not in_cycle or witness:
      ctx.fail(rule, fi, ev.node,
               f'{unparse(ev.node)} is not inside a while loop that re-checks'
               ' the predicate after wake-up (a woken thread can leave without'
               ' re-testing; spurious/lost wake-ups break it)', witness=witness)
    else:
      ctx.ok(rule, fi, unparse(ev.node), ev.node,
             detail=f'loop at line {loops[0].lineno}')
  ctx.floor(rule, 2)


def r3(ctx: Ctx, m):
  rule = 'R-C04-3'
  ctx.rule(rule, 'the lock multiset at every normal and exceptional exit of'
           ' every analysed context equals the entry multiset')
  bad_ctx = set()
  for ev in m.eng.events:
    if ev.kind != 'unbalanced':
      continue
    if not _in_family(m, ev.fi):
      continue
    bad_ctx.add((ev.fi.module.name, ev.fi.qualname))
    ctx.fail(rule, ev.fi, f'{ev.fi.qualname}: lock balance {ev.extra.split(":")[0]}',
             f'lock multiset not restored {ev.extra} (context'
             f' {" > ".join(ev.chain)})', node=ev.fi.node)
  seen = set()
  for fi, entry, chain in m.eng.contexts:
    if not _in_family(m, fi):
      continue
    k = (fi.module.name, fi.qualname, entry)
    if k in seen or (fi.module.name, fi.qualname) in bad_ctx:
      continue
    seen.add(k)
    ctx.ok(rule, fi, f'{fi.qualname} entry {ls_str(entry)}', fi.node,
           nontrivial=any(e.fi == fi for e in m.eng.events))
  ctx.floor(rule, 8)


def r4(ctx: Ctx, m):
  rule = 'R-C04-4'
  ctx.rule(rule, 'lock-order graph over the queue locks (and client locks'
           ' that call into the queue) is acyclic; no non-reentrant lock is'
           ' re-acquired; no Condition.wait while another lock is held')
  eng = m.eng
  cycles = eng.order_cycles()
  for (a, b), ev in sorted(eng.order.items()):
    in_cycle = any(a in c and b in c for c in cycles)
    if in_cycle:
      cyc = next(c for c in cycles if a in c and b in c)
      ctx.fail(rule, ev.fi, f'acquire {b} while holding {a}',
               f'lock-order cycle {" -> ".join(cyc)}: {b} is acquired at'
               f' {ev.fi.loc(ev.node)} while {a} is held (context'
               f' {" > ".join(ev.chain)}); the opposite order exists too —'
               ' two threads can deadlock', node=ev.node,
               witness=[f'{x}->{y} at {e.fi.loc(e.node)} via {" > ".join(e.chain)}'
                        for (x, y), e in eng.order.items()
                        if x in cyc and y in cyc])
    else:
      ctx.ok(rule, ev.fi, f'order edge {a} -> {b}', ev.node,
             detail=' > '.join(ev.chain))
  for ev in eng.events:
    if ev.kind == 'acquire' and ev.held and not eng.reentrant(ev.lock):
      ctx.fail(rule, ev.fi, ev.node,
               f'non-reentrant {ev.lock} acquired while already held'
               f' (self-deadlock), context {" > ".join(ev.chain)}')
    if ev.kind == 'wait':
      others = [l for l, c in ev.before if l != ev.lock]
      twice = dict(ev.before).get(ev.lock, 0) > 1
      if others and ev.lock in (DEQ, ENQ):
        ctx.fail(rule, ev.fi, ev.node,
                 f'{unparse(ev.node)} waits while still holding'
                 f' {", ".join(others)} (nested-monitor hazard), context'
                 f' {" > ".join(ev.chain)}')
  ctx.floor(rule, 2)


def done_test(fi: FuncInfo, node) -> bool:
  """Does this CFG node test enqueue_done (directly or via a local alias)?"""
  if mentions_attr(node, 'enqueue_done'):
    return True
  aliases = getattr(fi.node, '_mlm_done_aliases', None)
  if aliases is None:
    aliases = set()
    for st in walk_no_nested(fi.node):
      if isinstance(st, ast.Assign) and len(st.targets) == 1 and isinstance(
          st.targets[0], ast.Name):
        if any(isinstance(x, ast.Attribute) and x.attr == 'enqueue_done'
               for x in ast.walk(st.value)):
          aliases.add(st.targets[0].id)
      if isinstance(st, ast.NamedExpr) and isinstance(st.target, ast.Name):
        if any(isinstance(x, ast.Attribute) and x.attr == 'enqueue_done'
               for x in ast.walk(st.value)):
          aliases.add(st.target.id)
    fi.node._mlm_done_aliases = aliases
  if node.kind != 'cond':
    return False
  return any(isinstance(x, ast.Name) and x.id in aliases
             for x in cfgm.node_exprs(node))


def _cond_true_prunes(list_name: str):
  """After an append to `list_name`, `if list_name:` cannot be false."""

  def ok(n, mm, lab):
    if lab in ('exc', 'close'):
      return True
    if n.kind == 'cond' and lab == 'false' and isinstance(n.ast, ast.Name) and (
        n.ast.id == list_name):
      return False
    return True

  return ok


def r5(ctx: Ctx, m):
  rule = 'R-C04-5'
  ctx.rule(rule, 'wake-up obligations: a successful internal put_nowait is'
           ' followed on every normal path by a notify of the dequeue'
           ' condition; a successful internal get_nowait by a notify of the'
           ' enqueue condition before any wait or normal exit; an update'
           ' that can make enqueue_done true by notify_all on the dequeue'
           ' condition')
  sync = m.sync
  # (a)/(b): internal callers of put_nowait / get_nowait
  table = [('put_nowait', DEQ, 'dequeue'), ('get_nowait', ENQ, 'enqueue')]
  for callee, lock, side in table:
    n_sites = 0
    for fi in m.methods():
      if fi.name.lstrip('_') == callee:
        continue
      g = cfgm.cfg_of(fi.node)
      for node in g.nodes:
        calls = calls_method(node, callee)
        if not calls:
          continue
        n_sites += 1
        eff = fi
        through = lambda n, eff=eff: sync.node_notifies(n, eff, lock)
        # optional idiom: result list appended with the dequeued value
        list_name = None
        st = node.ast
        if (isinstance(st, ast.Expr) and isinstance(st.value, ast.Call)
            and isinstance(st.value.func, ast.Attribute)
            and st.value.func.attr == 'append'
            and isinstance(st.value.func.value, ast.Name)):
          list_name = st.value.func.value.id
          if _list_shrinks(fi, list_name):
            list_name = None
        prune = _cond_true_prunes(list_name) if list_name else (lambda a, b, c: True)

        def edge_ok(a, b, lab, prune=prune):
          if lab == 'close':
            return False
          if lab == 'exc':
            # queue.Empty / queue.Full raised by the non-blocking attempt is the
            # protocol's "nothing there / no room" signal: follow it into its
            # handler (the waits live there)
            return bool(calls_method(a, 'get_nowait') or calls_method(a, 'put_nowait')) and (
                b.kind == 'handler' and b.ast is not None and any(
                    k in ' '.join(cfgm.handler_type_names(b.ast) if isinstance(b.ast, ast.ExceptHandler) else [])
                    for k in ('Empty', 'Full')))
          return prune(a, b, lab)

        # targets: normal exit and any wait on the *own* side's condition
        own = DEQ if lock == ENQ else ENQ
        wait_nodes = [w for w in g.nodes if any(
            isinstance(x, ast.Call) and isinstance(x.func, ast.Attribute)
            and x.func.attr == 'wait'
            and m.eng.lock_id(x.func.value, fi, {}) == own
            for x in cfgm.node_exprs(w))]
        starts = [s for s, lab in node.succ if lab not in ('exc', 'close')]
        witness = None
        if through(node):
          # the attempt itself notifies on every successful return (callee
          # summary): nothing is left for the caller to do
          ctx.ok(rule, fi, f'{unparse(calls[0])} notifies the {side} condition itself', calls[0])
          continue
        for s in starts:
          if through(s):
            continue
          if s in [g.exit_ret] + wait_nodes:
            witness = [f'L{node.lineno}: {node.text()}', f'-> {s.text()}']
            break
          w = g.must_pass(s, [g.exit_ret] + wait_nodes, through, edge_ok)
          if w is not None:
            witness = [f'L{node.lineno}: {node.text()}'] + w
            break
        if witness is not None:
          ctx.fail(rule, fi, calls[0],
                   f'after a successful self.{callee}() a path reaches'
                   f' {"a wait or " if wait_nodes else ""}the normal exit'
                   f' without notifying the {side} condition — the other side'
                   ' can stay blocked although the queue changed',
                   witness=witness)
        else:
          ctx.ok(rule, fi, f'{unparse(calls[0])} => notify {side}', calls[0])
    if n_sites == 0:
      raise AnalysisError(f'{rule}: no internal caller of {callee} found')
  # (a') "consumers ... blocking or not": the public non-blocking dequeue is an
  # entry of its own — a consumer that only polls it must wake a producer
  # blocked on the full buffer just like get()/get_batch() do
  gn = m.method('get_nowait')
  gg = cfgm.cfg_of(gn.node)
  raw = [nd for nd in gg.nodes if any(isinstance(x, ast.Call) and unparse(x.func) == 'self._queue.get_nowait'
                                      for x in cfgm.node_exprs(nd))]
  if not raw:
    raise AnalysisError(f'{rule}: get_nowait no longer dequeues from self._queue')
  for nd in raw:
    through = lambda n_: sync.node_notifies(n_, gn, ENQ)
    wit = None
    for s_, lab in nd.succ:
      if lab in ('exc', 'close') or through(s_):
        continue
      w = gg.must_pass(s_, [gg.exit_ret], through, cfgm.only_normal)
      if w is not None or s_ is gg.exit_ret:
        wit = w or [nd.text()]
    if wit is not None:
      ctx.fail(rule, gn, 'get_nowait: a successful dequeue notifies the enqueue condition',
               'the public non-blocking get_nowait() returns a dequeued element without notifying the'
               ' enqueue condition: a consumer that only polls get_nowait() frees a slot of a bounded'
               ' queue but the producer blocked in put() is never woken — it waits for ever and the'
               ' consumer sees queue.Empty for ever', node=nd.ast, witness=wit[-8:])
    else:
      ctx.ok(rule, gn, 'get_nowait: successful dequeue => notify enqueue', nd.ast)
  # (a'') the mirror image: the public non-blocking enqueue wakes a consumer blocked on the empty buffer
  pn = m.method('put_nowait')
  pg = cfgm.cfg_of(pn.node)
  raw = [nd for nd in pg.nodes if any(isinstance(x, ast.Call) and (
      unparse(x.func) == 'self._queue.put_nowait' or (unparse(x.func).startswith('self._') and unparse(x.func).lstrip('self._') and
                                                     unparse(x.func).split('.')[-1].lstrip('_') == 'put_nowait'
                                                     and unparse(x.func) != 'self._queue.put_nowait'))
                                      for x in cfgm.node_exprs(nd))]
  if not raw:
    raise AnalysisError(f'{rule}: put_nowait no longer enqueues into self._queue')
  for nd in raw:
    through = lambda n_: sync.node_notifies(n_, pn, DEQ)
    wit = None
    for s_, lab in nd.succ:
      if lab in ('exc', 'close') or through(s_):
        continue
      w = pg.must_pass(s_, [pg.exit_ret], through, cfgm.only_normal)
      if w is not None or s_ is pg.exit_ret:
        wit = w or [nd.text()]
    if wit is not None:
      ctx.fail(rule, pn, 'put_nowait: a successful enqueue notifies the dequeue condition',
               'the public non-blocking put_nowait() enqueues an element without notifying the dequeue'
               ' condition: a consumer blocked in get() / get_batch() on the empty queue is never woken by a'
               ' producer that only uses put_nowait() — the elements pile up in the buffer and the consumer'
               ' sleeps on (for ever without a timeout)', node=nd.ast, witness=wit[-8:])
    else:
      ctx.ok(rule, pn, 'put_nowait: successful enqueue => notify dequeue', nd.ast)
  # (c) updates that can complete enqueueing
  watched = ('_enqueue_stop', '_enqueue_start', '_max_enqueuer')
  exempt = {'_start_enqueue': 'only increments _enqueue_start and raises'
            ' _max_enqueuer with it: cannot make enqueue_done true',
            '__init__': 'construction'}
  n_upd = 0
  for fi in m.methods():
    if fi.name in exempt:
      continue
    g = cfgm.cfg_of(fi.node)
    upd_nodes = []
    for node in g.nodes:
      if node.kind != 'stmt':
        continue
      for x in cfgm.node_exprs(node):
        if isinstance(x, ast.Attribute) and isinstance(x.ctx, ast.Store) and (
            x.attr in watched) and is_self_attr(x):
          upd_nodes.append(node)
          break
    if not upd_nodes:
      continue
    n_upd += 1
    first = upd_nodes[0]
    through = lambda n, fi=fi: sync.node_notifies(n, fi, DEQ, need_all=True)

    def edge_ok(a, b, lab, fi=fi):
      if lab in ('exc', 'close'):
        return False
      # `if self.enqueue_done:` false-branch = nothing to wake
      if a.kind == 'cond' and lab == 'false' and done_test(fi, a):
        t = a.ast
        if not (isinstance(t, ast.UnaryOp) and isinstance(t.op, ast.Not)):
          return False
      return True

    w = g.must_pass(first, [g.exit_ret], through, edge_ok)
    if w is not None:
      ctx.fail(rule, fi, first.ast,
               'enqueue bookkeeping updated so that enqueue_done may become'
               ' true, but a normal path reaches the exit without'
               ' notify_all on the dequeue condition: consumers blocked in'
               ' get()/get_batch() never learn the stream ended',
               witness=w)
    else:
      ctx.ok(rule, fi, f'{fi.qualname}: enqueue_done transition => notify_all dequeue',
             first.ast)
  if n_upd < 2:
    raise AnalysisError(f'{rule}: expected >=2 enqueue-state updaters, got {n_upd}')
  ctx.floor(rule, 4)


def _list_shrinks(fi: FuncInfo, name: str) -> bool:
  n_assign = 0
  for x in walk_no_nested(fi.node):
    if isinstance(x, ast.Call) and isinstance(x.func, ast.Attribute) and (
        isinstance(x.func.value, ast.Name) and x.func.value.id == name
        and x.func.attr in ('pop', 'clear', 'remove', 'popleft')):
      return True
    if isinstance(x, ast.Delete):
      for t in x.targets:
        if name in unparse(t):
          return True
    if isinstance(x, (ast.Assign, ast.AugAssign, ast.AnnAssign)):
      tg = x.targets if isinstance(x, ast.Assign) else [x.target]
      for t in tg:
        if isinstance(t, ast.Name) and t.id == name:
          n_assign += 1
  return n_assign > 1


def r6(ctx: Ctx, m):
  rule = 'R-C04-6'
  ctx.rule(rule, 'end-of-stream: every raise on the drained branches of'
           ' get_nowait raises the recorded exception or'
           ' StopIteration(*returned); _stop_enqueue records return values'
           ' under the state lock before waking consumers')
  fi = m.method('get_nowait')
  n = 0
  for x in walk_no_nested(fi.node):
    if not isinstance(x, ast.Raise) or x.exc is None:
      continue
    if isinstance(x.exc, ast.Name):
      continue  # re-raise of the caught exception object
    n += 1
    e = x.exc
    ok = False
    if isinstance(e, ast.BoolOp) and isinstance(e.op, ast.Or) and len(e.values) == 2:
      a, b = e.values
      a_ok = isinstance(a, ast.Attribute) and a.attr in ('exception', '_exception')
      b_ok = (isinstance(b, ast.Call) and unparse(b.func) == 'StopIteration'
              and len(b.args) == 1 and isinstance(b.args[0], ast.Starred)
              and isinstance(b.args[0].value, ast.Attribute)
              and b.args[0].value.attr in ('returned', '_returned'))
      ok = a_ok and b_ok
    if ok:
      ctx.ok(rule, fi, unparse(x), x)
    else:
      ctx.fail(rule, fi, x,
               'end-of-stream raise does not have the form `recorded'
               ' exception or StopIteration(*returned)`: consumers would'
               ' lose the failure or the producers\' return values')
  if n < 2:
    raise AnalysisError(f'{rule}: expected >=2 end-of-stream raises in'
                        f' get_nowait, found {n}')
  se = m.method('_stop_enqueue')
  g = cfgm.cfg_of(se.node)
  ext = [nd for nd in g.nodes if nd.kind == 'stmt' and any(
      isinstance(x, ast.Call) and isinstance(x.func, ast.Attribute)
      and x.func.attr in ('extend', 'append')
      and isinstance(x.func.value, ast.Attribute)
      and x.func.value.attr == '_returned' for x in cfgm.node_exprs(nd))]
  if not ext:
    ctx.fail(rule, se, '_stop_enqueue: record returned values',
             '_stop_enqueue no longer appends the producer return values to'
             ' _returned', node=se.node)
  else:
    states = m.eng.states_at(se)
    held = all(any(dict(ls).get(STATES, 0) > 0 for ls in st.get(ext[0], ()))
               for st in states if ext[0] in st) and bool(states)
    notif = [nd for nd in g.nodes if m.sync.node_notifies(nd, se, DEQ)]
    before = all(g.dominates(lambda n: n is ext[0], nd, cfgm.only_normal) is None
                 for nd in notif)
    if held and before and notif:
      ctx.ok(rule, se, ext[0].text(), ext[0].ast,
             detail='under state lock, dominates the consumer wake-up')
    else:
      ctx.fail(rule, se, ext[0].ast,
               'return values are not recorded under the state lock before'
               ' consumers are woken (held=%s, before_notify=%s)' % (held, before))
    # the values are recorded verbatim: whatever a producer returned (0, False, [],
    # None) is a return value; no selection, slicing or conversion of the elements
    va = se.node.args.vararg.arg if se.node.args.vararg else None
    for nd in ext:
      for x in cfgm.node_exprs(nd):
        if not (isinstance(x, ast.Call) and isinstance(x.func, ast.Attribute) and x.func.attr in (
            'extend', 'append') and isinstance(x.func.value, ast.Attribute) and x.func.value.attr == '_returned'):
          continue
        a = x.args[0] if x.args else None
        while isinstance(a, ast.Call) and unparse(a.func) in ('list', 'tuple') and len(a.args) == 1:
          a = a.args[0]
        va_names = {va} | {y.targets[0].id for y in walk_no_nested(se.node) if isinstance(y, ast.Assign) and len(y.targets) == 1
                           and isinstance(y.targets[0], ast.Name) and isinstance(y.value, ast.Name) and y.value.id == va}
        whole = isinstance(a, ast.Name) and a.id in va_names and x.func.attr == 'extend'
        if whole:
          ctx.ok(rule, se, f'_returned.extend({va}) records every value as given', x)
        else:
          ctx.fail(rule, se, '_stop_enqueue: every return value is recorded as given',
                   f'`{unparse(x)[:70]}` does not record the producer\'s return values'
                   f' `*{va}` whole: a selection/conversion of the elements (e.g. dropping'
                   ' falsy ones) loses legitimate return values such as 0, False, [] or'
                   ' () — end-of-stream then carries fewer values than producers returned',
                   node=x)
  ctx.floor(rule, 3)


_EXC_PAIRS = {'put_nowait': ('queue.Full', 'asyncio.QueueFull'),
              'get_nowait': ('queue.Empty', 'asyncio.QueueEmpty')}


def r16(ctx: Ctx, m):
  rule = 'R-C04-16'
  ctx.rule(rule, 'both buffer kinds: the queue family builds its buffer from the'
           ' `queue` module (thread queues) in one class and from `asyncio` in a'
           ' subclass, so every try around `self._queue.put_nowait/get_nowait` that'
           ' treats "buffer full/empty" as a state to wait on must catch BOTH'
           ' modules\' exception (queue.Full and asyncio.QueueFull, queue.Empty and'
           ' asyncio.QueueEmpty): catching one only turns a full asyncio buffer into'
           ' a producer failure (remaining elements never enqueued) or an empty one'
           ' into a consumer error')
  # which buffer kinds does the family construct?
  kinds = set()
  for fi in ctx.repo.all_functions():
    if not _in_family(m, fi):
      continue
    for x in walk_no_nested(fi.node):
      if isinstance(x, ast.Return) and isinstance(x.value, ast.Call):
        f = unparse(x.value.func)
        if f in ('queue.Queue', 'queue.SimpleQueue'):
          kinds.add('queue')
        elif f == 'asyncio.Queue':
          kinds.add('asyncio')
  if kinds != {'queue', 'asyncio'}:
    raise AnalysisError(f'{rule}: the queue family no longer builds both buffer kinds (found {sorted(kinds)})')
  n = 0
  for fi in ctx.repo.all_functions():
    if not _in_family(m, fi):
      continue
    for t in walk_no_nested(fi.node):
      if not isinstance(t, ast.Try):
        continue
      ops = {c.func.attr.lstrip('_') for b in t.body for c in ast.walk(b) if isinstance(c, ast.Call) and isinstance(
          c.func, ast.Attribute) and c.func.attr.lstrip('_') in _EXC_PAIRS and unparse(c.func.value) in ('self._queue', 'self')}
      for op in sorted(ops):
        pair = _EXC_PAIRS[op]
        caught = set()
        broad = False
        for h in t.handlers:
          types = [ast.parse(x, mode='eval').body for x in cfgm.handler_type_names(h)]   # aliases expanded
          for ty in types:
            caught.add(unparse(ty))
          if h.type is None or any(unparse(ty) in ('Exception', 'BaseException') for ty in types):
            # a broad handler placed first would also take them, but then the
            # "wait for space/data" branch is not what handles them
            pass
        if not (caught & set(pair)):
          continue  # this try does not treat the state as a condition to handle
        n += 1
        if set(pair) <= caught:
          ctx.ok(rule, fi, f'{op}: catches {pair[0]} and {pair[1]}', t)
        else:
          missing = sorted(set(pair) - caught)
          ctx.fail(rule, fi, f'{fi.qualname}: handler of self._queue.{op} catches both {pair[0]} and {pair[1]}',
                   f'the try around self._queue.{op}() catches {sorted(caught & set(pair))} but not'
                   f' {missing}: with the asyncio-backed buffer (AsyncIteratorQueue) a'
                   f' {"full" if op == "put_nowait" else "empty"} buffer escapes as an error instead of'
                   ' being waited on — the producer fails and the rest of its elements are never'
                   ' delivered', node=t)
  ctx.floor(rule, 4, n)


def r17(ctx: Ctx, m):
  rule = 'R-C04-17'
  ctx.rule(rule, '"no interleaving deadlocks or leaves a consumer or producer blocked for ever" on the'
           ' event loop: a coroutine of the queue family never CALLS an operation that can wait on a'
           ' queue condition (get / get_batch / put and the helpers built on them) — it hands it to'
           ' run_in_executor as a callable. A blocking call made on the event-loop thread ("the buffer'
           ' looked non-empty") stops the loop when another consumer wins the race: async producers on'
           ' that loop can never enqueue again and everybody waits for ever')
  repo = ctx.repo
  mi = repo.module(QMOD)
  allf = {f.name: f for f in mi.functions.values()}
  for ci in m.classes:
    for f in ci.methods.values():
      allf.setdefault(f.name, f)
  # functions that wait on a condition themselves
  blocking = {name for name, f in allf.items() if not isinstance(f.node, ast.AsyncFunctionDef) and any(
      isinstance(c, ast.Call) and isinstance(c.func, ast.Attribute) and c.func.attr == 'wait'
      and 'lock' in unparse(c.func.value).lower() for c in walk_no_nested(f.node))}
  if not {'get', 'put', 'get_batch'} <= blocking:
    raise AnalysisError(f'{rule}: get/put/get_batch are no longer recognised as waiting on a condition ({sorted(blocking)})')
  # ... and the sync functions that call them
  for _ in range(3):
    for name, f in allf.items():
      if name in blocking or isinstance(f.node, ast.AsyncFunctionDef):
        continue
      if any(isinstance(c, ast.Call) and unparse(c.func).split('.')[-1] in blocking for c in walk_no_nested(f.node)):
        blocking.add(name)
  n = 0
  for name, f in allf.items():
    if not isinstance(f.node, ast.AsyncFunctionDef):
      continue
    n += 1
    direct = [c for c in walk_no_nested(f.node) if isinstance(c, ast.Call) and unparse(c.func).split('.')[-1] in blocking
              and not unparse(c.func).split('.')[-1].startswith('async_')]
    if direct:
      ctx.fail(rule, f, f'{f.qualname}: blocking queue operations run in the executor, never on the event loop',
               f'`{unparse(direct[0])[:60]}` is called directly inside the coroutine {f.qualname}; it can wait on a queue'
               ' condition (e.g. when another consumer takes the buffered element first) and then blocks the'
               ' event-loop thread: producers scheduled on that loop never run again', node=direct[0])
    else:
      ctx.ok(rule, f, f'{f.qualname}: no direct call of a blocking operation', f.node)
  ctx.floor(rule, 4, n)


def r18(ctx: Ctx, m):
  rule = 'R-C04-18'
  ctx.rule(rule, '"once all producers finish every consumer terminates with end-of-stream": in get_batch the'
           ' handler for a failure of the non-blocking attempt decides between handing over what it has'
           ' and re-raising. Folded for the state "end-of-stream was raised and nothing was dequeued in'
           ' this call" (is_stop_iteration(e) true, the batch empty) the hand-over condition must be'
           ' FALSE for every value of ignore_error, so that StopIteration(*returned) reaches the caller;'
           ' otherwise an exhausted queue returns [] for ever and its consumers never terminate')
  fi = m.method('get_batch')
  handlers = [h for h in walk_no_nested(fi.node) if isinstance(h, ast.ExceptHandler) and h.type is not None
              and unparse(h.type) == 'Exception' and h.name]
  if not handlers:
    raise AnalysisError(f'{rule}: get_batch has no `except Exception as e` handler')
  h = handlers[0]
  batch = next((c.func.value.id for c in ast.walk(fi.node) if isinstance(c, ast.Call) and isinstance(c.func, ast.Attribute)
                and c.func.attr == 'append' and isinstance(c.func.value, ast.Name)), None)
  if batch is None:
    raise AnalysisError(f'{rule}: batch list of get_batch not found')
  # locals of the handler that hold is_stop_iteration(e)
  stop_flags = {t.id for x in h.body if isinstance(x, ast.Assign) and isinstance(x.value, ast.Call) and unparse(
      x.value.func).split('.')[-1] == 'is_stop_iteration' for t in x.targets if isinstance(t, ast.Name)}

  def fold(e, ign):
    if isinstance(e, ast.BoolOp):
      vals = [fold(v, ign) for v in e.values]
      if isinstance(e.op, ast.And):
        return False if False in vals else (None if None in vals else True)
      return True if True in vals else (None if None in vals else False)
    if isinstance(e, ast.UnaryOp) and isinstance(e.op, ast.Not):
      v = fold(e.operand, ign)
      return None if v is None else not v
    if isinstance(e, ast.Name):
      if e.id in stop_flags:
        return True
      if e.id == batch:
        return False
      return None
    if isinstance(e, ast.Call) and unparse(e.func).split('.')[-1] == 'is_stop_iteration':
      return True
    if is_self_attr(e, 'ignore_error'):
      return ign
    return None

  conds = [x for x in h.body if isinstance(x, ast.If) and any(isinstance(b, (ast.Break, ast.Return)) for b in x.body)]
  if not conds:
    raise AnalysisError(f'{rule}: hand-over condition of the get_batch failure handler not found')
  n = 0
  for c in conds:
    for ign in (True, False):
      n += 1
      v = fold(c.test, ign)
      if v is None:
        raise AnalysisError(f'{rule}: cannot fold `{unparse(c.test)}`')
      if v:
        ctx.fail(rule, fi, 'get_batch: end-of-stream with an empty batch is raised, whatever ignore_error says',
                 f'with ignore_error={ign}, end-of-stream raised by the attempt and nothing dequeued in this call,'
                 f' `{unparse(c.test)[:70]}` is true: get_batch leaves the loop and returns [] instead of raising'
                 ' StopIteration(*returned) — batch consumers of an exhausted queue spin for ever and never see the'
                 ' producers\' return values', node=c.test)
      else:
        ctx.ok(rule, fi, f'ignore_error={ign}: end-of-stream with an empty batch falls through to the raise', c.test)
  ctx.floor(rule, 2, n)


def r7(ctx: Ctx, m):
  rule = 'R-C04-7'
  ctx.rule(rule, 'single transfer: get_nowait dequeues exactly once per call'
           ' and returns that value; get returns the value it dequeued;'
           ' get_batch returns every dequeued value; put enqueues its argument'
           ' at most once and returns normally only after success or an'
           ' observed stop')
  # get_nowait
  fi = m.method('get_nowait')
  g = cfgm.cfg_of(fi.node)
  deq_nodes = [n for n in g.nodes if n.kind in ('stmt', 'cond') and any(
      isinstance(x, ast.Call) and unparse(x.func) == 'self._queue.get_nowait'
      for x in cfgm.node_exprs(n))]
  if len({id(n.ast) for n in deq_nodes}) != 1:
    ctx.fail(rule, fi, 'self._queue.get_nowait() occurrences',
             f'{len({id(n.ast) for n in deq_nodes})} distinct dequeue calls in'
             ' get_nowait (exactly one expected): elements would be dropped or'
             ' the call sequence changed', node=fi.node)
  else:
    dn = deq_nodes[0]
    var = None
    if isinstance(dn.ast, ast.Assign) and isinstance(dn.ast.targets[0], ast.Name):
      var = dn.ast.targets[0].id
    reach = g.reachable([s for s, l in dn.succ if l == 'next'],
                        edge_ok=cfgm.only_normal, include_src=True)
    again = any(n in reach for n in deq_nodes)
    rets = [n for n in g.nodes if n.kind == 'stmt' and isinstance(n.ast, ast.Return)]
    bad_ret = [n for n in rets if not (
        var and isinstance(n.ast.value, ast.Name) and n.ast.value.id == var)
        and not (n.ast.value is not None and any(
            isinstance(x, ast.Call) and unparse(x.func) == 'self._queue.get_nowait'
            for x in ast.walk(n.ast.value)))]
    if again:
      ctx.fail(rule, fi, dn.ast, 'the dequeue call can execute twice in one'
               ' get_nowait() (an element would be dropped)')
    elif bad_ret or not rets:
      ctx.fail(rule, fi, (bad_ret[0].ast if bad_ret else fi.node),
               'get_nowait returns something other than the value it just'
               ' dequeued (element lost or replaced)')
    else:
      ctx.ok(rule, fi, dn.text(), dn.ast, detail=f'returned via `{var}`')
  # get
  fi = m.method('get')
  g = cfgm.cfg_of(fi.node)
  okget = False
  for n in g.nodes:
    if n.kind == 'stmt' and isinstance(n.ast, ast.Assign) and calls_method(n, 'get_nowait'):
      t = n.ast.targets[0]
      if isinstance(t, ast.Name):
        rets = [r for r in g.nodes if r.kind == 'stmt' and isinstance(r.ast, ast.Return)]
        from mlmverif.core import plain_copies
        t_names = plain_copies(fi.node, t.id)
        if rets and all(isinstance(r.ast.value, ast.Name) and r.ast.value.id in t_names
                        for r in rets):
          reach = g.reachable([s for s, l in n.succ if l == 'next'],
                              edge_ok=cfgm.only_normal, include_src=True)
          if n not in reach:
            okget = True
    if n.kind == 'stmt' and isinstance(n.ast, ast.Return) and calls_method(n, 'get_nowait'):
      okget = True
  if okget:
    ctx.ok(rule, fi, 'get returns the dequeued value', fi.node)
  else:
    ctx.fail(rule, fi, 'get: value = self.get_nowait(); return value',
             'get() does not return exactly the value it dequeued, or can'
             ' dequeue again after a successful dequeue', node=fi.node)
  # get_batch
  fi = m.method('get_batch')
  g = cfgm.cfg_of(fi.node)
  sites = [n for n in g.nodes if calls_method(n, 'get_nowait')]
  okb = bool(sites)
  lst = None
  for n in sites:
    st = n.ast
    if (isinstance(st, ast.Expr) and isinstance(st.value, ast.Call)
        and isinstance(st.value.func, ast.Attribute)
        and st.value.func.attr in ('append',)
        and isinstance(st.value.func.value, ast.Name)
        and calls_method(n, 'get_nowait')[0] in st.value.args):
      lst = st.value.func.value.id
    else:
      okb = False
  rets = [r for r in g.nodes if r.kind == 'stmt' and isinstance(r.ast, ast.Return)]
  if okb and lst and rets and all(
      isinstance(r.ast.value, ast.Name) and r.ast.value.id == lst for r in rets
  ) and not _list_shrinks(fi, lst):
    ctx.ok(rule, fi, f'get_batch appends each dequeued value to `{lst}` and returns it',
           sites[0].ast)
  else:
    ctx.fail(rule, fi, 'get_batch: result.append(self.get_nowait()); return result',
             'get_batch does not return every value it dequeued (a dequeued'
             ' element can be dropped)', node=fi.node)
  # put
  fi = m.method('put')
  g = cfgm.cfg_of(fi.node)
  params = fi.params()
  val = params[1] if len(params) > 1 else None
  sites = [n for n in g.nodes if calls_method(n, 'put_nowait')]
  if not sites:
    raise AnalysisError(f'{rule}: put() no longer calls self.put_nowait')
  bad = None
  # plain local copies of the argument (`item = value`) name the same object
  same = {val}
  for _ in range(2):
    for x in walk_no_nested(fi.node):
      if isinstance(x, ast.Assign) and len(x.targets) == 1 and isinstance(x.targets[0], ast.Name) and isinstance(x.value, ast.Name) \
          and x.value.id in same:
        same.add(x.targets[0].id)
  for n in sites:
    c = calls_method(n, 'put_nowait')[0]
    if not (len(c.args) == 1 and isinstance(c.args[0], ast.Name) and c.args[0].id in same):
      bad = 'put_nowait is not called with put()\'s own argument'
    reach = g.reachable([s for s, l in n.succ if l == 'next'],
                        edge_ok=cfgm.only_normal, include_src=True)
    if any(s in reach for s in sites):
      bad = ('after a successful put_nowait the loop can enqueue the same value'
             ' again (duplicate delivery)')
  # normal return only after success or observed stop
  through = lambda n: bool(calls_method(n, 'put_nowait'))

  def no_stop_edges(a, b, lab):
    if lab in ('exc', 'close'):
      return False
    if a.kind == 'cond' and done_test(fi, a):
      t = a.ast
      neg = isinstance(t, ast.UnaryOp) and isinstance(t.op, ast.Not)
      # the edge on which enqueue_done was observed true
      if (lab == 'true' and not neg) or (lab == 'false' and neg):
        return False
    return True

  w = g.must_pass(g.entry, [g.exit_ret], through, no_stop_edges)
  if w is not None:
    bad = ('put() can return normally without having enqueued the value and'
           ' without observing a stop (element silently lost)')
  if bad:
    ctx.fail(rule, fi, sites[0].ast, bad, witness=w)
  else:
    ctx.ok(rule, fi, 'put enqueues its argument once', sites[0].ast)
  ctx.floor(rule, 4)


def r8(ctx: Ctx, m):
  rule = 'R-C04-8'
  ctx.rule(rule, 'enqueue loops: every value obtained from next()/anext() of'
           ' the input iterator is handed to put exactly once in the same'
           ' iteration')
  n_ok = 0
  for name, put_names in (('enqueue_from_iterator', ('put',)),
                          ('async_enqueue_from_iterator', ('async_put', 'put'))):
    fi = None
    for c in m.classes:
      if name in c.methods:
        fi = c.methods[name]
    if fi is None:
      continue
    nexts = [x for x in walk_no_nested(fi.node) if isinstance(x, ast.Call)
             and unparse(x.func) in ('next', 'anext')]
    puts = [x for x in walk_no_nested(fi.node) if isinstance(x, ast.Call)
            and isinstance(x.func, ast.Attribute) and x.func.attr in put_names
            and isinstance(x.func.value, ast.Name) and x.func.value.id == 'self']
    problem = None
    if len(nexts) != 1 or len(puts) != 1:
      problem = (f'{len(nexts)} next()/anext() calls and {len(puts)} put calls'
                 ' in the enqueue loop (exactly one each expected)')
    else:
      nx, pt = nexts[0], puts[0]
      direct = any(y is nx for a in pt.args for y in ast.walk(a))
      via_var = False
      if not direct:
        # value = await wait_for(anext(it), ...); await self.async_put(value)
        for st in walk_no_nested(fi.node):
          if isinstance(st, ast.Assign) and any(y is nx for y in ast.walk(st.value)):
            t = st.targets[0]
            if isinstance(t, ast.Name) and len(pt.args) == 1 and isinstance(
                pt.args[0], ast.Name) and pt.args[0].id == t.id:
              via_var = True
      if not (direct or via_var):
        problem = 'the value read from the iterator is not the value passed to put'
      loops_n = enclosing_loops(fi.node, nx)
      loops_p = enclosing_loops(fi.node, pt)
      if not loops_n or [id(l) for l in loops_n] != [id(l) for l in loops_p]:
        problem = problem or 'next() and put() are not in the same loop'
    if problem:
      ctx.fail(rule, fi, (nexts[0] if nexts else fi.node), problem +
               ': elements would be skipped or duplicated')
    else:
      ctx.ok(rule, fi, f'{unparse(puts[0])}', puts[0])
      n_ok += 1
  ctx.floor(rule, 2)


def r9(ctx: Ctx, m):
  rule = 'R-C04-9'
  ctx.rule(rule, 're-check after temporary release: when a method hands its'
           ' condition\'s lock away for a moment (_release_and_notify(L, ...))'
           ' and later waits on L, every path from the hand-off to the wait'
           ' re-tests the WHOLE predicate (the notification may have arrived'
           ' while the lock was released — a lost wake-up otherwise); for a'
           ' consumer that is "an element is there OR the stream has ended"')
  n = 0
  for fi in m.methods():
    g = cfgm.cfg_of(fi.node)
    for lock, tests in ((DEQ, ('get_nowait', 'empty')), (ENQ, ('put_nowait', 'full'))):
      rel = [nd for nd in g.nodes if any(
          isinstance(x, ast.Call) and unparse(x.func).split('.')[-1] == '_release_and_notify'
          and x.args and m.eng.lock_id(x.args[0], fi, {}) == lock
          for x in cfgm.node_exprs(nd))]
      waits = [nd for nd in g.nodes if any(
          isinstance(x, ast.Call) and isinstance(x.func, ast.Attribute) and x.func.attr == 'wait'
          and m.eng.lock_id(x.func.value, fi, {}) == lock for x in cfgm.node_exprs(nd))]
      if not rel or not waits:
        continue

      def retest(nd, tests=tests, fi=fi, lock=lock):
        calls = {x.func.attr for x in cfgm.node_exprs(nd) if isinstance(x, ast.Call)
                 and isinstance(x.func, ast.Attribute)}
        if lock == DEQ:
          # the consumer's predicate is "an element is there OR the stream has
          # ended": get_nowait tests both, `.empty()` alone only the first
          if 'get_nowait' in calls:
            return True
          return 'empty' in calls and done_test(fi, nd)
        if calls & set(tests):
          return True
        return done_test(fi, nd)

      for r_ in rel:
        n += 1
        starts = [s for s, lab in r_.succ if lab not in ('exc', 'close')]
        bad = None
        for s in starts:
          if retest(s):
            continue
          if s in waits:
            bad = [f'L{r_.lineno}: {r_.text()}', f'L{s.lineno}: {s.text()}']
            break
          w = g.must_pass(s, waits, retest, cfgm.no_close)
          if w is not None:
            bad = [f'L{r_.lineno}: {r_.text()}'] + w
            break
        if bad:
          ctx.fail(rule, fi, f'{fi.name}: re-test between {r_.text()[:50]} and wait',
                   f'{fi.name} releases the condition\'s lock to notify the other'
                   ' side and can then wait on it without re-testing the'
                   ' predicate: an element enqueued (or the end of the stream'
                   ' announced) while the lock was released is missed and the'
                   ' thread sleeps forever', node=r_.ast, witness=bad)
        else:
          ctx.ok(rule, fi, f'{fi.name}: predicate re-tested after the hand-off', r_.ast)
  ctx.floor(rule, 1, n)


def r10(ctx: Ctx, m):
  rule = 'R-C04-10'
  ctx.rule(rule, 'the declared producer count never shrinks: outside the'
           ' constructor every store to the count that end-of-stream is'
           ' compared against (`_max_enqueuer` in enqueue_done) has the form'
           ' max(<itself>, x) or is guarded by `x > <itself>` — otherwise a'
           ' producer that starts late lowers the count and consumers see'
           ' end-of-stream while declared producers have not started')
  from mlmverif import pat
  done = m.repo.find_method(m.qcls, 'enqueue_done')
  if done is None:
    raise AnalysisError(f'{rule}: IteratorQueue.enqueue_done not found')
  cnt = None
  for c in ast.walk(done.node):
    if isinstance(c, ast.Compare) and len(c.comparators) == 2 and all(
        isinstance(o, ast.Eq) for o in c.ops) and is_self_attr(c.comparators[-1]):
      cnt = c.comparators[-1].attr
  if cnt is None:
    raise AnalysisError(f'{rule}: enqueue_done is no longer start == stop == <count>')
  n = 0
  for fi in m.methods():
    if fi.name == '__init__':
      continue
    pm = parent_map(fi.node)
    for x in walk_no_nested(fi.node):
      stores = []
      if isinstance(x, ast.Assign):
        stores = [t for t in x.targets if is_self_attr(t, cnt)]
      elif isinstance(x, ast.AugAssign) and is_self_attr(x.target, cnt):
        n += 1
        if isinstance(x.op, ast.Add):
          ctx.ok(rule, fi, f'{fi.qualname}: {unparse(x)}', x)
        else:
          ctx.fail(rule, fi, x, f'{fi.qualname} decreases the declared producer count')
        continue
      if not stores:
        continue
      n += 1
      v = x.value
      ok = False
      if isinstance(v, ast.Call) and unparse(v.func) == 'max' and any(
          is_self_attr(a, cnt) for a in v.args):
        ok = True
      else:
        # guarded: if <v> > self.<cnt>: self.<cnt> = <v>
        p = pm.get(x)
        if isinstance(p, ast.If) and x in p.body and isinstance(p.test, ast.Compare) and len(
            p.test.ops) == 1:
          l, r_ = p.test.left, p.test.comparators[0]
          op = p.test.ops[0]
          if isinstance(op, (ast.Gt, ast.GtE)) and unparse(l) == unparse(v) and is_self_attr(r_, cnt):
            ok = True
          if isinstance(op, (ast.Lt, ast.LtE)) and unparse(r_) == unparse(v) and is_self_attr(l, cnt):
            ok = True
      if ok:
        ctx.ok(rule, fi, f'{fi.qualname}: `{unparse(x)[:60]}` is monotone', x)
      else:
        ctx.fail(rule, fi, x,
                 f'{fi.qualname} overwrites the declared producer count with'
                 f' `{unparse(v)[:50]}`, which can be smaller than the current'
                 ' value: with producers starting one after another the count'
                 ' drops to the number started so far and enqueue_done turns'
                 ' true while declared producers have not run (premature'
                 ' end-of-stream, lost elements)')
  ctx.floor(rule, 1, n)


def _result_empty_edge(n, mm, lab) -> bool:
  """False for edges on which the accumulated batch is known to be empty."""
  if n.kind != 'cond':
    return True
  t = n.ast
  names = lambda e: isinstance(e, ast.Name) and e.id == _result_empty_edge.var
  if names(t) and lab == 'false':
    return False
  if isinstance(t, ast.UnaryOp) and isinstance(t.op, ast.Not) and names(t.operand) and lab == 'true':
    return False
  if isinstance(t, ast.BoolOp) and isinstance(t.op, ast.Or) and any(names(v) for v in t.values) and (
      lab == 'false'):
    return False
  return True


def r11(ctx: Ctx, m):
  rule = 'R-C04-11'
  ctx.rule(rule, 'a batch in progress is never discarded: in get_batch no'
           ' `raise` is reachable from a successful dequeue into the batch'
           ' list except over an edge on which that list is known empty'
           ' (`if <list>: break/return` taken false) — elements already'
           ' removed from the queue would otherwise be received by no'
           ' consumer')
  fi = m.method('get_batch')
  g = cfgm.cfg_of(fi.node)
  apps = [n for n in g.nodes if n.kind == 'stmt' and isinstance(n.ast, ast.Expr)
          and isinstance(n.ast.value, ast.Call) and isinstance(n.ast.value.func, ast.Attribute)
          and n.ast.value.func.attr == 'append' and isinstance(n.ast.value.func.value, ast.Name)
          and any(isinstance(c, ast.Call) and unparse(c.func).endswith('get_nowait')
                  for c in ast.walk(n.ast.value))]
  if len(apps) != 1:
    raise AnalysisError(f'{rule}: expected one `<list>.append(self.get_nowait())` in get_batch')
  a = apps[0]
  _result_empty_edge.var = a.ast.value.func.value.id
  succ = [s_ for s_, lab in a.succ if lab == 'next']

  def edge_ok(n, mm, lab):
    if lab == 'close':
      return False
    if lab == 'exc' and not isinstance(n.ast, ast.Raise):
      # implicit exceptions of bookkeeping statements are not modelled here;
      # the dequeue call itself re-enters through its handlers
      return any(isinstance(c, ast.Call) and unparse(c.func).endswith('get_nowait')
                 for x in cfgm.node_exprs(n) for c in ast.walk(x))
    return _result_empty_edge(n, mm, lab)

  reach = g.reachable(succ, edge_ok=edge_ok, include_src=True)
  raises = [n for n in reach if n.kind == 'stmt' and isinstance(n.ast, ast.Raise)]
  seen = set()
  n_sites = 0
  for r_ in sorted(raises, key=lambda n: n.lineno):
    if id(r_.ast) in seen:
      continue
    seen.add(id(r_.ast))
    n_sites += 1
    exc = r_.ast.exc
    what = (unparse(exc.func) if isinstance(exc, ast.Call) else
            'the caught exception' if isinstance(exc, ast.Name) or exc is None else unparse(exc)[:30])
    ctx.fail(rule, fi, f'IteratorQueue.get_batch: raise of {what} with a partial batch',
             f'get_batch can raise {what} after elements were already dequeued'
             f' into `{_result_empty_edge.var}`: those elements are dropped (no'
             ' consumer receives them)', node=r_.ast)
  all_raises = {id(n.ast) for n in g.nodes if n.kind == 'stmt' and isinstance(n.ast, ast.Raise)}
  for _ in range(len(all_raises) - n_sites):
    ctx.ok(rule, fi, 'raise only reachable with an empty batch', fi.node)
  ctx.floor(rule, 2, len(all_raises))


def _c05_shared(sub, m):
  from mlmverif.props import c05
  sub.guard(c05.r1, m)
  sub.guard(c05.r5, m)


class _Unknown(Exception):
  pass


def _fold(e: ast.AST, env: dict):
  """Constant folding of a side-effect free expression over known field values."""
  if isinstance(e, ast.Constant):
    return e.value
  if isinstance(e, ast.Attribute) and isinstance(e.value, ast.Name) and e.value.id == 'self':
    if e.attr in env:
      return env[e.attr]
    raise _Unknown(e.attr)
  if isinstance(e, ast.Name):
    if e.id in env:
      return env[e.id]
    raise _Unknown(e.id)
  if isinstance(e, ast.UnaryOp) and isinstance(e.op, ast.Not):
    return not _fold(e.operand, env)
  if isinstance(e, ast.UnaryOp) and isinstance(e.op, ast.USub):
    return -_fold(e.operand, env)
  if isinstance(e, ast.BoolOp):
    val = None
    for v in e.values:
      val = _fold(v, env)
      if isinstance(e.op, ast.And) and not val:
        return val
      if isinstance(e.op, ast.Or) and val:
        return val
    return val
  if isinstance(e, ast.BinOp) and isinstance(e.op, (ast.Add, ast.Sub)):
    l, r = _fold(e.left, env), _fold(e.right, env)
    return l + r if isinstance(e.op, ast.Add) else l - r
  if isinstance(e, ast.Compare):
    left = _fold(e.left, env)
    for op, c in zip(e.ops, e.comparators):
      right = _fold(c, env)
      ok = {ast.Eq: lambda a, b: a == b, ast.NotEq: lambda a, b: a != b, ast.Lt: lambda a, b: a < b,
            ast.LtE: lambda a, b: a <= b, ast.Gt: lambda a, b: a > b, ast.GtE: lambda a, b: a >= b,
            ast.Is: lambda a, b: a is b, ast.IsNot: lambda a, b: a is not b}.get(type(op))
      if ok is None:
        raise _Unknown(type(op).__name__)
      if not ok(left, right):
        return False
      left = right
    return True
  raise _Unknown(type(e).__name__)


def _fold_body(body, env):
  for st in body:
    if isinstance(st, ast.Expr) and isinstance(st.value, ast.Constant):
      continue
    if isinstance(st, ast.Assign) and len(st.targets) == 1 and isinstance(st.targets[0], ast.Name):
      env[st.targets[0].id] = _fold(st.value, env)
    elif isinstance(st, ast.If):
      r_ = _fold_body(st.body if _fold(st.test, env) else st.orelse, env)
      if r_ is not None:
        return r_
    elif isinstance(st, ast.Return):
      return ('ret', _fold(st.value, env))
    else:
      raise _Unknown(type(st).__name__)
  return None


def r13(ctx: Ctx, m):
  rule = 'R-C04-13'
  ctx.rule(rule, 'a fresh queue is not "done": with the field values the'
           ' constructor assigns (no producer started or stopped, no failure,'
           ' no stop request; producer count unset or N > 0), enqueue_done'
           ' folds to False — otherwise a consumer that asks before the'
           ' producer thread has registered is answered with end-of-stream and'
           ' never sees the elements')
  init = m.qcls.methods.get('__init__')
  done = m.repo.find_method(m.qcls, 'enqueue_done')
  if init is None or done is None:
    raise AnalysisError(f'{rule}: IteratorQueue.__init__/enqueue_done not found')
  base = {}
  for x in walk_no_nested(init.node):
    if isinstance(x, ast.Assign) and len(x.targets) == 1 and is_self_attr(x.targets[0]) and isinstance(
        x.value, ast.Constant):
      base[x.targets[0].attr] = x.value.value
  cnt = None
  for x in walk_no_nested(init.node):
    if isinstance(x, ast.Assign) and is_self_attr(x.targets[0]) and isinstance(x.value, ast.Name) and (
        x.value.id in init.params()) and 'enqueuer' in x.value.id:
      cnt = x.targets[0].attr
  if cnt is None:
    raise AnalysisError(f'{rule}: the producer-count field is not initialised from a parameter')
  n = 0
  for label, val in (('producer count unset (0)', 0), ('producer count 3, nobody started', 3)):
    env = dict(base)
    env[cnt] = val
    n += 1
    try:
      res = _fold_body(done.node.body, env)
    except _Unknown as e:
      raise AnalysisError(f'{rule}: cannot fold enqueue_done ({e})')
    if res is None:
      raise AnalysisError(f'{rule}: enqueue_done has a path without return')
    if res[1]:
      ctx.fail(rule, done, f'IteratorQueue.enqueue_done is False for a fresh queue [{label}]',
               f'with the constructor\'s initial field values ({label}) enqueue_done'
               ' evaluates to True: a consumer that reads before the producer'
               ' thread registers finds the queue empty and "done", marks it'
               ' exhausted and returns end-of-stream without any element',
               node=done.node)
    else:
      ctx.ok(rule, done, f'enqueue_done folds to False for a fresh queue [{label}]', done.node)
  ctx.floor(rule, 2, n)


def r19(ctx: Ctx, m):
  rule = 'R-C04-19'
  ctx.rule(rule, '"any number of consumers draining it ... for all thread interleavings": every `iter(queue)` is a consumer of its'
           ' own — __iter__ of the queue classes returns a freshly constructed iterator and stores nothing on the queue.'
           ' The dequeue iterator keeps a private cache (empty-check, extend(get_batch()), popleft) that is not atomic: one'
           ' iterator object shared by two consumer threads lets one of them pop from the cache the other just filled'
           ' (IndexError instead of end-of-stream, elements delivered to the wrong consumer)')
  n = 0
  seen_fi = set()
  for ci0 in m.classes:
   for ci in m.repo.mro(ci0):
    fi = ci.methods.get('__iter__')
    if fi is None or id(fi.node) in seen_fi:
      continue
    seen_fi.add(id(fi.node))
    n += 1
    stores = [x for x in ast.walk(fi.node) if isinstance(x, (ast.Assign, ast.AugAssign, ast.AnnAssign, ast.NamedExpr))
              and any(is_self_attr(y) and isinstance(y.ctx, ast.Store) for y in ast.walk(x))]
    reads_memo = [c for c in ast.walk(fi.node) if isinstance(c, ast.Call) and unparse(c.func) == 'getattr' and c.args
                  and unparse(c.args[0]) == 'self']
    rets = [r_ for r_ in ast.walk(fi.node) if isinstance(r_, ast.Return)]
    fresh = bool(rets) and all(isinstance(r_.value, ast.Call) for r_ in rets)
    what = f'{ci.name}.__iter__ hands every caller a fresh iterator'
    if stores or reads_memo or not fresh:
      b = (stores or reads_memo or rets or [fi.node])[0]
      ctx.fail(rule, fi, what,
               f'{ci.name}.__iter__ keeps / re-uses an iterator on the queue (`{unparse(b)[:60]}`): two consumers that iterate the'
               ' queue share one iterator object whose cache handling is not atomic — one pops what the other dequeued (or'
               ' from the empty cache: IndexError instead of end-of-stream)', node=b)
    else:
      ctx.ok(rule, fi, what, fi.node)
  ctx.floor(rule, 1, n)


def r20(ctx: Ctx, m):
  rule = 'R-C04-20'
  ctx.rule(rule, '"each producer\'s elements are received in production order": a producer loop hands element i over before it'
           ' fetches element i+1 — in the coroutine producers every `self.async_put(...)` / `self.put(...)` call is the'
           ' direct operand of an `await` (or a plain statement call for the blocking put), never wrapped into a task /'
           ' future that is gathered later: concurrent put() calls of one producer on a thread pool complete in any order')
  n = 0
  for fi in m.methods():
    if not fi.name.endswith('enqueue_from_iterator'):
      continue
    pm = parent_map(fi.node)
    for c in ast.walk(fi.node):
      if not (isinstance(c, ast.Call) and isinstance(c.func, ast.Attribute) and is_self_attr(c.func) and c.func.attr in (
          'async_put', 'put')):
        continue
      n += 1
      par = pm.get(c)
      is_async = c.func.attr.startswith('async_')
      ok = isinstance(par, ast.Await) if is_async else isinstance(par, ast.Expr)
      what = f'{fi.qualname}: `{unparse(c)}` completes before the next element is fetched'
      if ok:
        ctx.ok(rule, fi, what, c)
      else:
        ctx.fail(rule, fi, what,
                 f'`{unparse(par)[:70]}` in {fi.qualname}: the hand-over of an element is not awaited where it is started — the'
                 ' producer goes on to the next element while earlier ones are still being enqueued on the thread pool, and'
                 ' nothing orders those put() calls: the consumer can receive [1, 2, 0]', node=c)
  ctx.floor(rule, 2, n)


def r14(ctx: Ctx, m):
  rule = 'R-C04-14'
  ctx.rule(rule, 'test-then-wait is atomic: on every path from the attempt that'
           ' establishes "nothing to take / no room" (get_nowait / put_nowait)'
           ' to the wait() on the condition, the condition\'s lock is held at'
           ' every statement (temporary hand-offs through _release_and_notify'
           ' re-acquire before they return and are followed by a re-test,'
           ' R-C04-9) — a notification sent between an unlocked test and the'
           ' wait reaches nobody')
  n = 0
  for fi, ci in m.roots:
    g = cfgm.cfg_of(fi.node)
    key = None
    for k in m.eng.node_states:
      if k[0] == fi.module.name and k[1] == fi.qualname and k[2] == ():
        key = k
    if key is None:
      continue
    IN = m.eng.node_states[key]
    preds: dict = {}
    for a in g.nodes:
      for b, lab in a.succ:
        if lab != 'close':
          preds.setdefault(b, []).append(a)
    for lock, attempt in ((DEQ, 'get_nowait'), (ENQ, 'put_nowait')):
      waits = [nd for nd in g.nodes if any(
          isinstance(x, ast.Call) and isinstance(x.func, ast.Attribute) and x.func.attr == 'wait'
          and m.eng.lock_id(x.func.value, fi, {}) == lock for x in cfgm.node_exprs(nd))]
      is_attempt = lambda nd: any(isinstance(x, ast.Call) and isinstance(x.func, ast.Attribute)
                                  and x.func.attr.lstrip('_') == attempt for x in cfgm.node_exprs(nd))
      for w in waits:
        n += 1
        seen = {w}
        work = [w]
        bad = None
        found = False
        while work:
          nd = work.pop()
          states = IN.get(nd, set())
          if nd is not g.entry and states and not all(ls_has(ls, lock) for ls in states):
            bad = nd
            break
          if is_attempt(nd):
            found = True
            continue
          for p_ in preds.get(nd, []):
            if p_ not in seen:
              seen.add(p_)
              work.append(p_)
        if bad is not None:
          ctx.fail(rule, fi, f'{fi.name}: {attempt}() ... wait() inside one critical section of the condition',
                   f'{fi.name} reaches `{w.text()[:50]}` through `{bad.text()[:50]}` without'
                   ' holding the condition\'s lock: the emptiness/fullness test and'
                   ' the wait are not atomic, so a notification (new element, end'
                   ' of stream, failure, stop) sent in between is lost and the'
                   ' thread sleeps for ever', node=w.ast)
        elif found:
          ctx.ok(rule, fi, f'{fi.name}: lock held from {attempt}() to wait()', w.ast)
        else:
          ctx.info(rule, fi, f'{fi.name}: wait without a preceding {attempt}() in this function', w.ast)
  ctx.floor(rule, 3, n)


# ---------------------------------------------------------------------------
# Self-validation corpus (edits of the current tree, applied in memory)
def r21(ctx: Ctx, m):
  rule = 'R-C04-21'
  ctx.rule(rule, '"consumers get ... exactly one end-of-stream carrying all producers\' return values", the async consumers too: a'
           ' StopIteration cannot be set on an asyncio Future (asyncio refuses it: the awaiting coroutine never wakes). Every'
           ' blocking dequeue an async method hands to `run_in_executor` is therefore a module-level helper that translates'
           ' StopIteration into StopAsyncIteration inside the worker thread — never the bound `get` / `get_batch` /'
           ' `get_nowait` itself')
  mi = ctx.repo.module('utils.iter_utils')
  translating = {name for name, f in mi.functions.items() if any(
      isinstance(h, ast.ExceptHandler) and h.type is not None and 'StopIteration' in unparse(h.type)
      and any(isinstance(r_, ast.Raise) and r_.exc is not None and 'StopAsyncIteration' in unparse(r_.exc) for r_ in ast.walk(h))
      for h in ast.walk(f.node))}
  n = 0
  for ci in mi.classes.values():
    for name, fi in ci.methods.items():
      for c in ast.walk(fi.node):
        if not (isinstance(c, ast.Call) and isinstance(c.func, ast.Attribute) and c.func.attr == 'run_in_executor' and len(c.args) >= 2):
          continue
        fn = c.args[1]
        txt = unparse(fn)
        raw = isinstance(fn, ast.Attribute) and fn.attr in ('get', 'get_batch', 'get_nowait', '__next__')
        is_dequeue = raw or (isinstance(fn, ast.Name) and 'get' in fn.id)
        if not is_dequeue:
          continue
        n += 1
        what = f'{ci.name}.{name}: the dequeue run in the executor translates the end of the stream'
        if raw or (isinstance(fn, ast.Name) and fn.id not in translating):
          ctx.fail(rule, fi, what,
                   f'`{unparse(c)[:80]}` runs `{txt}` in the executor as is: at end-of-stream it raises StopIteration, which asyncio'
                   ' cannot deliver through the Future — every coroutine awaiting this call at the end of the stream hangs and'
                   ' never receives the return values', node=c)
        else:
          ctx.ok(rule, fi, what, c)
  ctx.floor(rule, 2, n)


def r22(ctx: Ctx, m):
  rule = 'R-C04-22'
  ctx.rule(rule, '"consumers get every element exactly once and then exactly one end-of-stream": a producer is COUNTED before it can'
           ' be waited for. In each producer entry (enqueue_from_iterator / async_enqueue_from_iterator) the registration'
           ' `self._start_enqueue()` dominates every statement that touches the source (`await <source>`, iter / aiter / next'
           ' / anext on it): a producer that registers only after its (awaitable) source has resolved is not counted while'
           ' it waits — when the others finish first, enqueue_done flips, consumers get end-of-stream, and the late'
           ' producer\'s elements land in a buffer nobody reads')
  n = 0
  for ci in m.classes:
    for name in ('enqueue_from_iterator', 'async_enqueue_from_iterator'):
      fi = ci.methods.get(name)
      if fi is None:
        continue
      p = fi.params()[1]
      g = cfgm.cfg_of(fi.node)
      reg = lambda nd: any(isinstance(c, ast.Call) and isinstance(c.func, ast.Attribute) and c.func.attr == '_start_enqueue'
                           for c in cfgm.node_exprs(nd))
      def touches(nd):
        for top in cfgm.node_exprs(nd):
          for x in ast.walk(top):
            if isinstance(x, ast.Await) and any(isinstance(y, ast.Name) and y.id == p for y in ast.walk(x)):
              return True
            if isinstance(x, ast.Call) and unparse(x.func) in ('iter', 'aiter', 'next', 'anext') and x.args and any(
                isinstance(y, ast.Name) and y.id == p for y in ast.walk(x.args[0])):
              return True
        return False
      users = [nd for nd in g.nodes if touches(nd)]
      if not users:
        continue
      n += 1
      late = [u for u in users if g.dominates(reg, u, cfgm.only_normal) is not None]
      what = f'{ci.name}.{name}: the producer registers before it touches its source'
      if late:
        ctx.fail(rule, fi, what,
                 f'`{late[0].text()[:60]}` can run before `_start_enqueue()`: while this producer waits for its source it is not'
                 ' counted, the queue can announce end-of-stream without it and its elements are never received', node=late[0].ast or fi.node)
      else:
        ctx.ok(rule, fi, what, fi.node)
  ctx.floor(rule, 2, n)


from mlmverif.selfcheck import B, OK  # noqa: E402

_F = 'utils/iter_utils.py'
VARIANTS = [
    OK('dequeued-value-through-a-local', 'utils/iter_utils.py',
       "          value = self.get_nowait()\n", "          item = self.get_nowait()\n          value = item\n"),
    OK('returned-values-through-a-local', 'utils/iter_utils.py',
       "      self._returned.extend(values)\n", "      ended_with = values\n      self._returned.extend(ended_with)\n"),
    OK('put-through-a-local', 'utils/iter_utils.py',
       "          self._put_nowait(value)\n", "          item = value\n          self._put_nowait(item)\n"),
    OK('skip-wrapper-yields-through-a-local', 'utils/iter_utils.py',
       "      yield next(it)\n", "      value = next(it)\n      yield value\n"),
    B('multiplex-queue-without-a-declared-producer-count', 'utils/iter_utils.py',
      "      max_enqueuer=len(input_iterators),\n", "", 'R-C04-25'),
    B('async-batch-end-of-stream-without-values', 'utils/iter_utils.py',
      "    return iterator_queue.get_batch()\n  except StopIteration as e:\n    raise StopAsyncIteration(*e.args) from e", "    return iterator_queue.get_batch()\n  except StopIteration as e:\n    raise StopAsyncIteration() from e", 'R-C04-24'),
    B('async-producer-registers-after-its-source-resolved', 'utils/iter_utils.py',
      "    self._start_enqueue()\n    try:\n      if isinstance(iterator, Awaitable):\n        iterator = await iterator\n      if not isinstance(iterator, AsyncIterator):\n        iterator = aiter(iterator)\n",
      "    try:\n      if isinstance(iterator, Awaitable):\n        iterator = await iterator\n      if not isinstance(iterator, AsyncIterator):\n        iterator = aiter(iterator)\n      self._start_enqueue()\n", 'R-C04-22'),
    B('stop-link-the-wrong-way-round', 'utils/iter_utils.py',
      "    result.stop_with(input_iterable)\n  return result", "    input_iterable.stop_with(result)\n  return result", 'R-C04-23'),
    OK('async-get-helper-called-through-a-lambda-free-partial', 'utils/iter_utils.py',
       "    return await loop.run_in_executor(self._thread_pool, _async_get, self)", "    element = await loop.run_in_executor(self._thread_pool, _async_get, self)\n    return element"),
    B('async-get-runs-the-bound-get', 'utils/iter_utils.py',
      "    return await loop.run_in_executor(self._thread_pool, _async_get, self)", "    return await loop.run_in_executor(self._thread_pool, self.get)", 'R-C04-21'),
    B('full-signal-constant-names-the-wrong-asyncio-exception', _F,
      '_IGNORE_ERROR_TYPES = (ValueError, TypeError)', '_IGNORE_ERROR_TYPES = (ValueError, TypeError)\n_QUEUE_FULL = (queue.Full, asyncio.QueueEmpty)', 'R-C04-16',
      extra=((_F, '        except (queue.Full, asyncio.QueueFull) as e:\n          logging.debug(\'chainable: %s\', f\'"{self.name}" enqueue full, waiting\')',
              '        except _QUEUE_FULL as e:\n          logging.debug(\'chainable: %s\', f\'"{self.name}" enqueue full, waiting\')'),)),
    OK('signals-named-through-module-constants', _F,
       '_IGNORE_ERROR_TYPES = (ValueError, TypeError)', '_IGNORE_ERROR_TYPES = (ValueError, TypeError)\n_QUEUE_FULL = (queue.Full, asyncio.QueueFull)',
       extra=((_F, '        except (queue.Full, asyncio.QueueFull) as e:\n          logging.debug(\'chainable: %s\', f\'"{self.name}" enqueue full, waiting\')',
               '        except _QUEUE_FULL as e:\n          logging.debug(\'chainable: %s\', f\'"{self.name}" enqueue full, waiting\')'),)),
    B('queue-iter-memoised', _F,
      '  def __iter__(self):\n    return self.dequeue_as_iterator()', "  def __iter__(self):\n    if getattr(self, '_it', None) is None:\n      self._it = self.dequeue_as_iterator()\n    return self._it", 'R-C04-19'),
    B('async-producer-does-not-await-its-puts', _F,
      '        await self.async_put(value)', '        asyncio.ensure_future(self.async_put(value))', 'R-C04-20'),
    B('revert-put-nowait-without-wake-up', _F,
      "    self._put_nowait(value)\n    # An element arrived: wakes a consumer blocked on the empty queue, also for\n    # a producer that only polls with put_nowait().\n    with self._dequeue_lock:\n      self._dequeue_lock.notify()\n",
      "    self._put_nowait(value)\n", 'R-C04-5'),
    B('put-notifies-while-holding-the-enqueue-condition', _F,
      "          self._put_nowait(value)\n          _release_and_notify(self._enqueue_lock, notify=self._dequeue_lock)\n          return",
      "          self.put_nowait(value)\n          self._enqueue_lock.release()\n          return", 'R-C04-4'),
    OK('put-nowait-notifies-all', _F,
       "    with self._dequeue_lock:\n      self._dequeue_lock.notify()\n\n  def put(",
       "    with self._dequeue_lock:\n      self._dequeue_lock.notify_all()\n\n  def put("),
    OK('batch-consumer-wakes-producer-once', _F,
      '    result = []\n    with self._dequeue_lock:\n      while not max_batch_size or len(result) < max_batch_size:',
      '    result = []\n    producer_notified = False\n    with self._dequeue_lock:\n      while not max_batch_size or len(result) < max_batch_size:',
      extra=((_F, '          if result:\n            _release_and_notify(self._dequeue_lock, notify=self._enqueue_lock)\n          logging.debug(',
              '          if result and not producer_notified:\n            _release_and_notify(self._dequeue_lock, notify=self._enqueue_lock)\n            producer_notified = True\n          logging.debug('),)),
    B('get-tests-emptiness-outside-the-condition', _F,
      '    with self._dequeue_lock:\n      while True:\n        try:\n          value = self.get_nowait()\n          _release_and_notify(self._dequeue_lock, notify=self._enqueue_lock)',
      '    while True:\n      with contextlib.nullcontext():\n        try:\n          value = self.get_nowait()\n          with self._enqueue_lock:\n            self._enqueue_lock.notify()',
      'R-C04-14',
      extra=((_F, '          if self._dequeue_lock.wait(timeout=self.timeout):\n            logging.debug(\'chainable: %s\', f\'"{self.name}" dequeue retry\')\n            continue\n          raise TimeoutError(f\'Dequeue timeout={self.timeout}secs.\') from e',
              '          with self._dequeue_lock:\n            if self._dequeue_lock.wait(timeout=self.timeout):\n              continue\n          raise TimeoutError(f\'Dequeue timeout={self.timeout}secs.\') from e'),)),
    B('revert-recheck-done-after-handoff', _F,
      '          if not self._queue.empty() or self.enqueue_done:\n            continue',
      '          if not self._queue.empty():\n            continue', 'R-C04-9'),
    B('enqueue-done-true-when-nothing-started', _F,
      '    if not self._max_enqueuer:\n      return False\n    return self._enqueue_start == self._enqueue_stop == self._max_enqueuer',
      '    remaining = self._enqueue_start - self._enqueue_stop\n    return not remaining and self._enqueue_start >= self._max_enqueuer',
      'R-C04-13'),
    B('async-get-batch-blocks-on-the-loop', 'utils/iter_utils.py',
      '    loop = asyncio.get_event_loop()\n    result = await loop.run_in_executor(\n        self._thread_pool, _async_get_batch, self\n    )',
      '    if not self._queue.empty():\n      result = _async_get_batch(self)\n    else:\n      loop = asyncio.get_event_loop()\n      result = await loop.run_in_executor(\n          self._thread_pool, _async_get_batch, self\n      )', 'R-C04-17'),
    B('ignore-error-swallows-end-of-stream', 'utils/iter_utils.py',
      '          if (exhausted and result) or (\n              not exhausted\n              and self.ignore_error\n              and (result or e is not self._exception)\n          ):',
      '          if self.ignore_error or (exhausted and result):', 'R-C04-18'),
    B('revert-get-nowait-wakes-producer', 'utils/iter_utils.py',
      '      with self._enqueue_lock:\n        self._enqueue_lock.notify()\n      return result\n',
      '      return result\n', 'R-C04-5'),
    B('put-ignores-asyncio-full', 'utils/iter_utils.py',
      '        except (queue.Full, asyncio.QueueFull) as e:', '        except queue.Full as e:', 'R-C04-16'),
    OK('put-full-handler-order-swapped', 'utils/iter_utils.py',
       '        except (queue.Full, asyncio.QueueFull) as e:', '        except (asyncio.QueueFull, queue.Full) as e:'),
    B('returned-values-filtered-by-truthiness', 'utils/iter_utils.py',
      '      self._returned.extend(values)', '      self._returned.extend(value for value in values if value)', 'R-C04-6'),
    B('returned-values-none-dropped', 'utils/iter_utils.py',
      '      self._returned.extend(values)', '      self._returned.extend(v for v in values if v is not None)', 'R-C04-6'),
    OK('returned-values-as-list', 'utils/iter_utils.py',
       '      self._returned.extend(values)', '      self._returned.extend(list(values))'),
    OK('enqueue-done-single-expression', _F,
       '    if not self._max_enqueuer:\n      return False\n    return self._enqueue_start == self._enqueue_stop == self._max_enqueuer',
       '    return bool(self._max_enqueuer) and self._enqueue_start == self._enqueue_stop == self._max_enqueuer'),
    B('stop-wakes-one-producer', _F,
      '    with self._enqueue_lock:\n      self._enqueue_lock.notify_all()\n    with self._dequeue_lock:\n      if not is_stop_iteration(exc):',
      '    with self._enqueue_lock:\n      self._enqueue_lock.notify()\n    with self._dequeue_lock:\n      if not is_stop_iteration(exc):',
      'R-C04-12'),
    B('revert-partial-batch-on-timeout', _F,
      '          if result:\n            # Return what is already dequeued rather than dropping it, the next\n            # call times out if the queue is still starved.\n            break\n          raise TimeoutError(',
      '          raise TimeoutError(', 'R-C04-11'),
    OK('partial-batch-guard-negated', _F,
       '          if result:\n            # Return what is already dequeued rather than dropping it, the next\n            # call times out if the queue is still starved.\n            break\n          raise TimeoutError(',
       '          if not result:\n            raise TimeoutError(f"{self.name} dequeue timeout") from e\n          break\n          raise TimeoutError('),
    B('producer-count-overwritten', _F,
      '      self._max_enqueuer = max(self._max_enqueuer, self._enqueue_start)',
      '      self._max_enqueuer = self._enqueue_start', 'R-C04-10'),
    OK('producer-count-guarded-store', _F,
       '      self._max_enqueuer = max(self._max_enqueuer, self._enqueue_start)',
       '      if self._enqueue_start > self._max_enqueuer:\n        self._max_enqueuer = self._enqueue_start'),
    B('no-recheck-after-handoff', _F,
      '          if not self._queue.empty() or self.enqueue_done:\n            continue\n          if self._dequeue_lock.wait(timeout=self.timeout):',
      '          if self._dequeue_lock.wait(timeout=self.timeout):', 'R-C04-9'),
    B('revert-get-nowait-lock', _F,
      '    with self._dequeue_lock:\n      self._states_lock.acquire()\n      try:\n        result = self._queue.get_nowait()',
      '    if True:\n      self._states_lock.acquire()\n      try:\n        result = self._queue.get_nowait()',
      'R-C04-1'),
    B('notify-outside-with', _F,
      '    with self._enqueue_lock:\n      self._enqueue_lock.notify()\n    logging.debug(\n        \'chainable: %s\', f\'"{self.name}" dequeued {len(result)} batches\'',
      '    self._enqueue_lock.notify()\n    logging.debug(\n        \'chainable: %s\', f\'"{self.name}" dequeued {len(result)} batches\'',
      'R-C04-1'),
    B('wait-then-leave-without-retest', _F,
      '          if self._enqueue_lock.wait(timeout=self.timeout):\n            continue',
      '          if self._enqueue_lock.wait(timeout=self.timeout):\n            break',
      'R-C04-2'),
    B('early-return-skips-release', _F,
      '        result = self._queue.get_nowait()\n        # Premeptively',
      '        result = self._queue.get_nowait()\n        self._states_lock.acquire()\n        # Premeptively',
      'R-C04-3'),
    B('nested-enqueue-lock-in-get', _F,
      '          value = self.get_nowait()\n          _release_and_notify(self._dequeue_lock, notify=self._enqueue_lock)',
      '          value = self.get_nowait()\n          with self._enqueue_lock:\n            self._enqueue_lock.notify()',
      None,
      extra=((_F,
              '          self._put_nowait(value)\n          _release_and_notify(self._enqueue_lock, notify=self._dequeue_lock)',
              '          self._put_nowait(value)\n          with self._dequeue_lock:\n            self._dequeue_lock.notify()'),)),
    B('drop-handoff-after-put', _F,
      '          self._put_nowait(value)\n          _release_and_notify(self._enqueue_lock, notify=self._dequeue_lock)\n          return',
      '          self._put_nowait(value)\n          return',
      'R-C04-5'),
    # benign since fix 61eb96f: get_nowait() itself wakes a producer after every
    # successful dequeue, the callers' own notifications are redundant
    OK('drop-notify-after-get', _F,
       '          value = self.get_nowait()\n          _release_and_notify(self._dequeue_lock, notify=self._enqueue_lock)',
       '          value = self.get_nowait()'),
    OK('get-batch-no-final-notify', _F,
       '    with self._enqueue_lock:\n      self._enqueue_lock.notify()\n    logging.debug(',
       '    logging.debug('),
    B('drop-notify-after-get-and-in-get-nowait', _F,
      '          value = self.get_nowait()\n          _release_and_notify(self._dequeue_lock, notify=self._enqueue_lock)',
      '          value = self.get_nowait()', 'R-C04-5',
      extra=((_F, '      with self._enqueue_lock:\n        self._enqueue_lock.notify()\n      return result\n', '      return result\n'),)),
    B('stop-enqueue-no-notify', _F,
      '      if self.enqueue_done:\n        _release_and_notify(\n            self._states_lock, notify=self._dequeue_lock, notify_all=True\n        )',
      '      if self.enqueue_done:\n        pass',
      'R-C04-5'),
    B('stop-enqueue-notify-one', _F,
      'self._states_lock, notify=self._dequeue_lock, notify_all=True',
      'self._states_lock, notify=self._dequeue_lock', 'R-C04-5'),
    B('eos-drops-returned', _F,
      '        if self.enqueue_done:\n          self._set_exhausted()\n          raise self.exception or StopIteration(*self.returned)',
      '        if self.enqueue_done:\n          self._set_exhausted()\n          raise self.exception or StopIteration()',
      'R-C04-6'),
    B('stop-enqueue-drops-values', _F,
      '      self._returned.extend(values)\n', '', 'R-C04-6'),
    B('put-retries-after-success', _F,
      '          self._put_nowait(value)\n          _release_and_notify(self._enqueue_lock, notify=self._dequeue_lock)\n          return',
      '          self._put_nowait(value)\n          _release_and_notify(self._enqueue_lock, notify=self._dequeue_lock)\n          continue',
      'R-C04-7'),
    B('get-nowait-dequeues-twice', _F,
      '        self._enqueue_lock.notify()\n      return result\n',
      '        self._enqueue_lock.notify()\n      return self._queue.get_nowait()\n',
      'R-C04-7'),
    B('enqueue-skips-every-other', _F,
      '        value = next(iterator)\n        fetched = True',
      '        next(iterator)\n        value = next(iterator)\n        fetched = True', 'R-C04-8'),
    B('states-lock-holds-during-wait', _F,
      '          if self._enqueue_lock.wait(timeout=self.timeout):\n            continue',
      '          with self._states_lock:\n            if self._enqueue_lock.wait(timeout=self.timeout):\n              continue',
      'R-C04-4'),
    OK('inline-helper-in-put', _F,
       '          self._put_nowait(value)\n          _release_and_notify(self._enqueue_lock, notify=self._dequeue_lock)\n          return',
       '          self._put_nowait(value)\n          self._enqueue_lock.release()\n          try:\n            with self._dequeue_lock:\n              self._dequeue_lock.notify()\n          finally:\n            self._enqueue_lock.acquire()\n          return'),
    OK('with-instead-of-manual-acquire', _F,
       '      if self.enqueue_done:\n        _release_and_notify(\n            self._states_lock, notify=self._dequeue_lock, notify_all=True\n        )',
       '      done = self.enqueue_done\n      if done:\n        _release_and_notify(\n            self._states_lock, notify=self._dequeue_lock, notify_all=True\n        )'),
    OK('reorder-logging', _F,
       '          value = self.get_nowait()\n          _release_and_notify(self._dequeue_lock, notify=self._enqueue_lock)\n          logging.debug(\n              \'chainable: %s\', f\'"{self.name}" dequeued a {type(value)}\'\n          )',
       '          value = self.get_nowait()\n          logging.debug(\n              \'chainable: %s\', f\'"{self.name}" dequeued a {type(value)}\'\n          )\n          _release_and_notify(self._dequeue_lock, notify=self._enqueue_lock)'),
    OK('notify-all-instead-of-notify', _F,
       '    with self._enqueue_lock:\n      self._enqueue_lock.notify()\n    logging.debug(',
       '    with self._enqueue_lock:\n      self._enqueue_lock.notify_all()\n    logging.debug('),
]
