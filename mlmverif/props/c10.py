"""C10 — checkpoint and resume continue exactly where iteration stopped.

Structural part: the position restored equals the position captured for any
number of generations (affine relation over the shard summary), checkpoints
are deep copies, restore is structure-preserving, and a checkpoint is never
read from an iterator that another thread is advancing.
"""
from __future__ import annotations

import ast

from mlmverif import affine as af
from mlmverif import cfg as cfgm
from mlmverif.core import (kwarg, AnalysisError, Ctx, FuncInfo, is_self_attr, unparse,
                           walk_no_nested)
from mlmverif.effects import DIRECT, ELEM, NONE, Effects
from mlmverif.props._shard import IO, summary

EXPLANATION = (
    'Affine position relation: with B the offset-free shard start (from the'
    ' symbolic shard summary), o the recorded start_index of the current'
    ' configuration and d the number of deliveries, _index = B+o+d; the'
    ' checkpoint expression f(_index, config.start, recorded offset) is'
    ' extracted from SequenceIterator.state and the restored start B+f must'
    ' equal _index as a polynomial identity in (B,o,d) — for every generation.'
    ' DataIterator records its absolute index and skips up to it. Also:'
    ' _RunnerIterator.state deep-copies both components; from_state restores'
    ' structure (strict zip, recoverability check, own-name lookup); the'
    ' iterators whose .state a checkpoint reads must not have escaped to pool'
    ' threads unless the read is guarded by the sequential mode. NOT decided:'
    ' equality of the final aggregate with the uninterrupted run.'
)
ASSUMPTIONS = ['The shard summary of C09 (shard() adds the offset to _start'
               ' with coefficient 1 and not to _end).']

TR = 'chainables.transform'
IU = 'utils.iter_utils'
IO = 'chainables.io'


def run(ctx: Ctx):
  for r in (r1, r2, r3, r4, r6, r8, r9, r10, r11, r12, r14, r15, r16, r17, r19, r20):
    ctx.guard(r)
  from mlmverif.props import c12
  ctx.include('R-C10-18', '"continues with exactly the elements not yet delivered", for a pipeline that skips unreadable records: a'
              ' restored iterator re-reads the delivered prefix, so every unreadable record before the cut fails again, back to'
              ' back — the skip wrapper steps over EVERY skippable error and never gives up after some number of them'
              ' (R-C12-3: on a skippable error iter_ignore_error yields the marker and continues)', c12.r3, min_instances=2)
  from mlmverif.props import c03
  ctx.include('R-C10-13', '"the captured state": MultiplexIterator.state reads the positions of `_source_iterators` — the'
              ' in-process chain over several sources iterates exactly these iterator objects (R-C03-1 input wiring); a chain'
              ' that opens fresh iterators of the data sources leaves the recorded positions at their start, and a restored'
              ' iterator repeats everything', c03.r1, min_instances=2)
  from mlmverif.props import c02
  ctx.include('R-C10-7', 'a restored pipeline continues with the WHOLE checkpointed'
              ' aggregation state: every (metric, slice) entry of the given'
              ' state that belongs to the runner is kept (R-C02-6)', c02.r6, min_instances=1)
  ctx.include('R-C10-5', 'restoring replays the recorded shard chain over the'
              ' unsharded source with the same configuration (R-C09-2); the'
              ' recorded position counts exactly the elements consumed'
              ' (R-C09-4); a range started at a restored position reads'
              ' [i, stop) without skipping or repeating (R-C09-6, R-C12-4); a'
              ' restored source that is sharded again keeps its position'
              ' (R-C09-10)',
              _shared, min_instances=13)


def _shared(sub):
  from mlmverif.props import c09, c12
  sub.guard(c09.r10)
  sub.guard(c09.r2)
  sub.guard(c09.r4)
  sub.guard(c09.r6)
  sub.guard(c12.r4)
  sub.guard(c09.r12)


def r1(ctx: Ctx):
  rule = 'R-C10-1'
  ctx.rule(rule, 'position relation: restored start == captured position for'
           ' every generation: B + state.start_index == _index identically in'
           ' (B, recorded offset o, deliveries d)')
  repo = ctx.repo
  s = summary(ctx)
  o = af.V('o')
  # shard(): _start = (offset-free start) + 1*offset, _end independent of it
  base = s.start - o
  if 'o' in af.vars_of(base) or 'o' in af.vars_of(s.end):
    ctx.fail(rule, s.fi, 'shard(): _start = start + offset',
             'the recorded offset does not enter _start linearly with'
             ' coefficient 1 (or leaks into _end): a restored shard starts at'
             ' the wrong element', node=s.replace_call)
  else:
    ctx.ok(rule, s.fi, 'shard(): _start = B + offset, _end independent', s.replace_call)
  st = repo.func(IO, 'SequenceIterator.state')
  B, d = af.V('B'), af.V('d')
  env = {
      'self._index': B + o + d,
      'self.config.start': B + o,
      'self.config._start': B + o,
      'self.config.state.start_index': o,
      'self.config._shard_state.start_index': o,
  }
  ev = af.AffEval(env)
  captured = None
  base_state = None
  try:
    for x in st.node.body:
      if isinstance(x, ast.Expr) and isinstance(x.value, ast.Constant):
        continue
      if isinstance(x, ast.Assign) and isinstance(x.targets[0], ast.Name):
        ev.assign(x.targets[0], x.value)
      elif isinstance(x, ast.Return) and isinstance(x.value, ast.Call) and unparse(
          x.value.func) in ('dc.replace', 'dataclasses.replace'):
        base_state = unparse(x.value.args[0]) if x.value.args else None
        for k in x.value.keywords:
          if k.arg == 'start_index':
            captured = ev.expr(k.value)
        extra = [k.arg for k in x.value.keywords if k.arg != 'start_index']
        if extra:
          ctx.fail(rule, st, x.value, f'the checkpoint also overrides {extra}'
                   ' of the shard state')
      else:
        raise AnalysisError(f'{rule}: SequenceIterator.state: unsupported `{unparse(x)[:50]}`')
  except af.AffUnsupported as e:
    raise AnalysisError(f'{rule}: SequenceIterator.state: {e}')
  if captured is None or base_state not in ('self.config.state', 'self.config._shard_state'):
    ctx.fail(rule, st, 'SequenceIterator.state: dc.replace(self.config.state, start_index=...)',
             'the checkpoint is not the configuration\'s shard state with only'
             ' start_index replaced', node=st.node)
  else:
    restored = B + captured          # from_state -> shard(..., start_index)
    diff = restored - (B + o + d)
    if diff.is_zero():
      ctx.ok(rule, st, f'start_index\' = {captured!r}; B + start_index\' == _index', st.node)
    else:
      ctx.fail(rule, st, 'SequenceIterator.state: start_index',
               f'checkpoint records start_index = {captured!r} (o = offset'
               ' recorded in the current configuration, d = elements'
               f' delivered); the restored iterator starts at B + that, i.e.'
               f' {diff!r} away from the captured position: after a second'
               ' checkpoint/restore elements are repeated or skipped',
               node=st.node)
  # from_state rebuilds through the data source
  fs = repo.func(IO, 'SequenceIterator.from_state')
  p = fs.params()[1]
  txt = [unparse(x.value) for x in walk_no_nested(fs.node) if isinstance(x, ast.Return)]
  if txt and all(f'self.config.from_state({p})' in t for t in txt):
    ctx.ok(rule, fs, 'from_state -> config.from_state(state)', fs.node)
  else:
    ctx.fail(rule, fs, 'SequenceIterator.from_state: self.__class__(self.config.from_state(state))',
             'restore does not rebuild the iterator from the recorded shard'
             ' state', node=fs.node)
  # DataIterator: absolute index, skip-until loop
  ds = repo.func(IO, 'DataIterator.state')
  rec = [k.value for x in walk_no_nested(ds.node) if isinstance(x, ast.Return)
         and isinstance(x.value, ast.Call) for k in x.value.keywords if k.arg == 'start_index']
  ok = False
  behind = False
  # straight-line substitution of the locals of `state` (assignments and
  # augmented assignments in order): the recorded value in terms of fields only
  env_: dict[str, ast.AST] = {}

  class _Sub(ast.NodeTransformer):
    def visit_Name(self, nd):
      import copy as _copy
      return _copy.deepcopy(env_[nd.id]) if isinstance(nd.ctx, ast.Load) and nd.id in env_ else nd

  def subst_(e):
    import copy as _copy
    return _Sub().visit(_copy.deepcopy(e))

  for x in ds.node.body:
    if isinstance(x, ast.Assign) and len(x.targets) == 1 and isinstance(x.targets[0], ast.Name):
      env_[x.targets[0].id] = subst_(x.value)
    elif isinstance(x, ast.AugAssign) and isinstance(x.target, ast.Name):
      cur = env_.get(x.target.id, ast.Name(id=x.target.id, ctx=ast.Load()))
      env_[x.target.id] = ast.BinOp(left=cur, op=x.op, right=subst_(x.value))
    elif isinstance(x, (ast.If, ast.For, ast.While, ast.Try, ast.With)):
      raise AnalysisError(f'{rule}: DataIterator.state is no longer straight-line code')
  for e_ in rec:
    e_ = subst_(e_)
    if unparse(e_) == 'self._index':
      ok = True
      behind = True   # only right if the index is advanced eagerly on restore
    elif isinstance(e_, ast.Call) and unparse(e_.func) == 'max' and len(e_.args) == 2:
      parts = {unparse(a_) for a_ in e_.args}
      if 'self._index' in parts and any(p_.endswith('.start_index') for p_ in parts):
        ok = True
  nx = repo.func(IO, 'DataIterator.__next__')
  skip = False
  for x in walk_no_nested(nx.node):
    if isinstance(x, ast.While) and isinstance(x.test, ast.Compare) and isinstance(
        x.test.ops[0], ast.Lt) and unparse(x.test.left) == 'self._index' and (
            'start_index' in unparse(x.test.comparators[0])):
      body_txt = ' '.join(unparse(b) for b in x.body)
      if 'next(self._it)' in body_txt and 'self._index += 1' in body_txt:
        skip = True
      from mlmverif.props import c09 as _c09
      helpers = _c09.draw_helpers(repo, 'DataIterator')
      if any(isinstance(c, ast.Call) and isinstance(c.func, ast.Attribute) and is_self_attr(c.func) and c.func.attr in helpers
             for b in x.body for c in ast.walk(b)):
        skip = True     # a verified counting draw (one next + one increment)
  init = repo.func(IO, 'DataIterator.__init__')
  zero = any(isinstance(x, ast.Assign) and is_self_attr(x.targets[0], '_index')
             and unparse(x.value) == '0' for x in walk_no_nested(init.node))
  if ok and skip and zero and behind:
    ctx.fail(rule, ds, 'DataIterator.state: start_index=max(self._index, <restored start_index>)',
             'DataIterator starts at _index = 0 and only skips forward to the'
             ' restored start_index inside __next__, but `state` records the'
             ' bare _index: a checkpoint taken right after a restore (before'
             ' the next element is drawn) records position 0 and a second'
             ' restore replays the whole source', node=ds.node)
  elif ok and skip and zero:
    ctx.ok(rule, ds, 'DataIterator: state never behind the restored position; restore skips up to it', ds.node)
  else:
    ctx.fail(rule, ds, 'DataIterator: start_index=self._index / skip while _index < start_index',
             f'absolute-index checkpointing is broken (records index: {ok},'
             f' skip loop: {skip}, starts at 0: {zero})', node=ds.node)
  ctx.floor(rule, 4)


def r2(ctx: Ctx):
  rule = 'R-C10-2'
  ctx.rule(rule, 'snapshot isolation: _RunnerIterator.state returns deep'
           ' copies of the input states and of agg_state; from_state feeds the'
           ' checkpointed aggregation state and input states back')
  repo = ctx.repo
  st = repo.func(TR, '_RunnerIterator.state')
  rets = [x for x in walk_no_nested(st.node) if isinstance(x, ast.Return)]
  ok = len(rets) == 1 and isinstance(rets[0].value, ast.Call)
  comps = {}
  if ok:
    c = rets[0].value
    vals = list(c.args) + [k.value for k in c.keywords]
    for v in vals:
      deep = isinstance(v, ast.Call) and unparse(v.func) == 'copy.deepcopy'
      inner = unparse(v.args[0]) if deep and v.args else unparse(v)
      comps[inner] = deep
  need = {'super().state', 'self.agg_state'}
  if ok and need <= set(comps) and all(comps[k] for k in need):
    ctx.ok(rule, st, 'state = _IteratorState(deepcopy(super().state), deepcopy(agg_state))', st.node)
  else:
    ctx.fail(rule, st, '_RunnerIterator.state: deep copies of input states and agg_state',
             f'checkpoint components {comps} are not all deep copies: the'
             ' running iterator keeps mutating the captured checkpoint',
             node=st.node)
  fs = repo.func(TR, '_RunnerIterator.from_state')
  p = fs.params()[1]
  calls = [c for c in walk_no_nested(fs.node) if isinstance(c, ast.Call)
           and unparse(c.func) == 'super().from_state']
  ok2 = False
  if len(calls) == 1:
    c = calls[0]
    kw = {k.arg: unparse(_uncopied(k.value)) for k in c.keywords}
    ok2 = (c.args and unparse(_uncopied(c.args[0])) == f'{p}.input_states'
           and kw.get('state') == f'{p}.agg_state' and kw.get('runner') == 'self._runner')
  if ok2:
    ctx.ok(rule, fs, 'from_state(input_states, state=agg_state, runner=...)', fs.node)
  else:
    ctx.fail(rule, fs, '_RunnerIterator.from_state: super().from_state(state.input_states, state=state.agg_state, ...)',
             'restore does not resume from the checkpointed aggregation state'
             ' and input positions', node=fs.node)
  ctx.floor(rule, 2)


def _uncopied(e: ast.AST) -> ast.AST:
  while isinstance(e, ast.Call) and unparse(e.func) in ('copy.deepcopy', 'deepcopy') and e.args:
    e = e.args[0]
  return e


def _is_deepcopy(e: ast.AST) -> bool:
  return isinstance(e, ast.Call) and unparse(e.func) in ('copy.deepcopy', 'deepcopy') and bool(e.args)


def r9(ctx: Ctx):
  rule = 'R-C10-9'
  ctx.rule(rule, 'snapshot isolation on the RESTORE side: a component X that the'
           ' `state` property deep-copies on capture because the running iterator'
           ' updates self.X in place (self.X is passed to an update call whose'
           ' result is stored back, or stored through) must not be handed by'
           ' reference from the captured state to the restored iterator either:'
           ' on the path from_state(param) -> constructor keyword -> self.X the'
           ' value is deep-copied (in from_state or in the constructor);'
           ' otherwise running the restored iterator mutates the checkpoint and'
           ' a second restore from the same state resumes from accumulators that'
           ' already contain the first resumed run')
  repo = ctx.repo
  n = 0
  for ci in repo.module(TR).classes.values():
    st = ci.methods.get('state')
    fs = ci.methods.get('from_state')
    init = ci.methods.get('__init__')
    if st is None or fs is None or init is None:
      continue
    # capture side: which self.X are deep-copied?
    captured = set()
    for x in ast.walk(st.node):
      if _is_deepcopy(x) and is_self_attr(x.args[0]):
        captured.add(x.args[0].attr)
    # in-place update evidence for self.X in the class
    inplace = set()
    for m in ci.methods.values():
      for x in walk_no_nested(m.node):
        if isinstance(x, ast.Assign) and len(x.targets) == 1 and is_self_attr(x.targets[0]) and isinstance(
            x.value, ast.Call) and any(is_self_attr(a, x.targets[0].attr) for a in x.value.args):
          inplace.add(x.targets[0].attr)
        if isinstance(x, (ast.Assign, ast.AugAssign)):
          for t in (x.targets if isinstance(x, ast.Assign) else [x.target]):
            if isinstance(t, ast.Subscript) and is_self_attr(t.value):
              inplace.add(t.value.attr)
    for fld in sorted(captured & inplace):
      # constructor: self.fld = <expr over param P> (not deep-copied)
      params = set(FuncInfo(init.module, init.qualname, init.node, ci).params())
      via = {}
      for x in walk_no_nested(init.node):
        if isinstance(x, ast.Assign) and any(is_self_attr(t, fld) for t in x.targets):
          if _is_deepcopy(x.value):
            continue
          for y in ast.walk(x.value):
            if isinstance(y, ast.Name) and y.id in params and y.id != 'self':
              via[y.id] = x
      if not via:
        # the constructor stores only deep copies (or nothing caller-supplied)
        n += 1
        ctx.ok(rule, init, f'{ci.name}.__init__ stores self.{fld} detached from its arguments', init.node)
        continue
      sp = fs.params()[1]
      calls = [c for c in walk_no_nested(fs.node) if isinstance(c, ast.Call)]
      fed = []
      for c in calls:
        for k in c.keywords:
          if k.arg in via and any(isinstance(y, ast.Name) and y.id == sp for y in ast.walk(k.value)):
            fed.append((c, k))
      if not fed:
        raise AnalysisError(f'{rule}: {ci.name}.from_state no longer feeds `{sorted(via)}` from its state parameter')
      for c, k in fed:
        n += 1
        if _is_deepcopy(k.value):
          ctx.ok(rule, fs, f'{ci.name}.from_state: {k.arg}=deepcopy({unparse(k.value.args[0])})', k.value)
        else:
          ctx.fail(rule, fs, f'{ci.name}.from_state: the captured `{fld}` is copied before the restored iterator updates it',
                   f'`{k.arg}={unparse(k.value)[:40]}` hands the accumulators of the captured state to'
                   f' the restored iterator by reference ({ci.name}.__init__ keeps the same objects in'
                   f' self.{fld}, and iteration updates self.{fld} in place although `state` deep-copies it'
                   ' on capture): running the restored iterator changes the checkpoint — a second'
                   ' restore from the same state double-counts every batch of the first resumed run',
                   node=k.value)
  ctx.floor(rule, 1)


def r10(ctx: Ctx):
  rule = 'R-C10-10'
  ctx.rule(rule, 'a restored iterator keeps its whole configuration: for every class with'
           ' an explicit __init__ and a from_state that constructs the class again'
           ' (directly, or through super().from_state(..., **kwargs) whose base builds'
           ' `self.__class__(data_sources=..., **kwargs)`), every constructor parameter'
           ' is passed on — a parameter left out silently falls back to its default'
           ' (error skipping off, no returned aggregate, length 0) and the resumed run'
           ' differs from the uninterrupted one')
  repo = ctx.repo
  n = 0
  for mod in (TR, IU, IO):
    for ci in repo.module(mod).classes.values():
      fs, init = ci.methods.get('from_state'), ci.methods.get('__init__')
      if fs is None or init is None:
        continue
      a = init.node.args
      params = [p.arg for p in a.posonlyargs + a.args + a.kwonlyargs][1:]
      pos_params = [p.arg for p in a.posonlyargs + a.args][1:]
      passed: set[str] | None = None
      site = None
      for c in walk_no_nested(fs.node):
        if not isinstance(c, ast.Call):
          continue
        f = unparse(c.func)
        direct = f in (ci.name, 'self.__class__', 'type(self)', 'cls')
        via_super = f == 'super().from_state'
        if not (direct or via_super):
          continue
        kws = {k.arg for k in c.keywords if k.arg}
        star = any(k.arg is None for k in c.keywords)
        if direct:
          got = set(pos_params[:len(c.args)]) | kws
        else:
          base_kw = set()
          for b in repo.mro(ci)[1:]:
            bfs = b.methods.get('from_state')
            if bfs is None:
              continue
            for bc in walk_no_nested(bfs.node):
              if isinstance(bc, ast.Call) and unparse(bc.func) in ('self.__class__', 'type(self)') and any(
                  k.arg is None for k in bc.keywords):
                base_kw = {k.arg for k in bc.keywords if k.arg}
            break
          if not base_kw:
            raise AnalysisError(f'{rule}: base from_state of {ci.name} does not build self.__class__(**kwargs)')
          got = kws | base_kw
        if star and direct:
          got = None  # pure forwarder: the caller decides
        passed, site = got, c
      if site is None:
        continue
      if passed is None:
        ctx.info(rule, fs, f'{ci.name}.from_state forwards **kwargs (its callers are checked)')
        continue
      n += 1
      missing = [p_ for p_ in params if p_ not in passed]
      if missing:
        ctx.fail(rule, fs, f'{ci.name}.from_state passes every constructor parameter on',
                 f'{ci.name}.from_state rebuilds the iterator without {missing}: the restored'
                 ' object falls back to the constructor defaults for them — e.g. error skipping'
                 ' switched off, `state` missing so that the final StopIteration carries no'
                 ' AggregateResult, total/len reset — and the resumed run no longer behaves like'
                 ' the interrupted one', node=site)
      else:
        ctx.ok(rule, fs, f'{ci.name}.from_state passes {sorted(passed)}', site)
  ctx.floor(rule, 2, n)


def r11(ctx: Ctx):
  rule = 'R-C10-11'
  ctx.rule(rule, 'the recorded position counts every index the reader has left behind,'
           ' also one it RAISED for: the random-access reader is continuable — it steps'
           ' over a record it cannot read before re-raising (R-C12-4: `self.i` advanced'
           ' before the raise) — so in SequenceIterator.__next__ every exceptional'
           ' continuation of the draw `next(self._it)` other than StopIteration passes'
           ' an increment of `self._index` before the exception leaves. Otherwise a'
           ' pipeline that skips failing inputs keeps reading behind the failure with'
           ' a position that is one short, and a later checkpoint re-delivers an'
           ' element')
  repo = ctx.repo
  # the reader's side of the agreement
  rd = repo.func(IU, '_RangeIterator.__next__')
  g0 = cfgm.cfg_of(rd.node)
  hs = [h for h in g0.nodes if h.kind == 'handler']
  rer = [n_ for h in hs for n_ in g0.reachable([h], edge_ok=cfgm.only_normal)
         if isinstance(n_.ast, ast.Raise) and n_.ast.exc is None]
  inc0 = lambda n_: isinstance(n_.ast, ast.AugAssign) and is_self_attr(n_.ast.target, 'i') and isinstance(n_.ast.op, ast.Add)
  continuable = bool(rer) and all(g0.must_pass(h, [r_], inc0, cfgm.only_normal) is None for h in hs for r_ in rer)
  fi = repo.func(IO, 'SequenceIterator.__next__')
  g = cfgm.cfg_of(fi.node)
  draws = [nd for nd in g.nodes if nd.kind in ('stmt', 'cond') and any(
      isinstance(x, ast.Call) and unparse(x.func) == 'next' and x.args and is_self_attr(x.args[0])
      for x in cfgm.node_exprs(nd))]
  if not draws:
    raise AnalysisError(f'{rule}: SequenceIterator.__next__ no longer draws with next(self.<it>)')
  if not continuable:
    ctx.info(rule, fi, 'the reader does not step over a failing record: nothing to count')
    ctx.floor(rule, 0)
    return
  inc = lambda nd: isinstance(nd.ast, ast.AugAssign) and is_self_attr(nd.ast.target, '_index') and isinstance(nd.ast.op, ast.Add)
  explicit = lambda a, b, lab: lab != 'close' and (lab != 'exc' or isinstance(a.ast, ast.Raise))
  for nd in draws:
    why = None
    for h, lab in nd.succ:
      if lab != 'exc':
        continue
      if h is g.exit_exc:
        why = 'no handler covers the draw'
        continue
      if h.exc_types and set(h.exc_types) <= {'StopIteration'}:
        continue
      if g.must_pass(h, [g.exit_exc], inc, explicit) is not None:
        why = f'the handler `{h.text()}` re-raises without counting the record'
    if why:
      ctx.fail(rule, fi, 'SequenceIterator.__next__: a record the reader raised for is counted by the position',
               f'`{nd.text()[:50]}` can raise for an unreadable record and {why}: the reader has already'
               ' stepped over that record (R-C12-4), iteration can continue behind it, but self._index is'
               ' one short from then on — a checkpoint taken later restores one element too early and'
               ' that element is delivered twice', node=nd.ast)
    else:
      ctx.ok(rule, fi, 'a raised record is counted before the exception leaves __next__', nd.ast)
  # the sibling: DataIterator counts what it draws from ANY iterable — also from a SequenceDataSource, whose
  # iterator was just shown to continue behind a failing record. The same obligation holds for each of its draws
  # (in __next__ or in the counting helper it calls)
  n_sib = 0
  ci = repo.cls(IO, 'DataIterator')
  for name, m in ci.methods.items():
    g2 = cfgm.cfg_of(m.node)
    draws2 = [nd for nd in g2.nodes if nd.kind in ('stmt', 'cond') and any(
        isinstance(x, ast.Call) and unparse(x.func) == 'next' and x.args and is_self_attr(x.args[0])
        for top in cfgm.node_exprs(nd) for x in ast.walk(top))]
    from mlmverif.props import c09 as _c09b
    for nd in draws2:
      n_sib += 1
      why = None
      if _c09b.pre_counted_at(_c09b.draw_balance(g2, draws2)[0], nd):
        ctx.ok(rule, m, f'DataIterator.{name}: the element is counted before it is drawn', nd.ast)
        continue
      for h, lab in nd.succ:
        if lab != 'exc':
          continue
        if h is g2.exit_exc:
          why = 'no handler covers the draw'
          continue
        if h.exc_types and set(h.exc_types) <= {'StopIteration'}:
          continue
        if g2.must_pass(h, [g2.exit_exc], inc, explicit) is not None:
          why = f'the handler `{h.text()}` re-raises without counting the element'
      what = f'DataIterator.{name}: an element the source raised for is counted by the position'
      if why:
        ctx.fail(rule, m, what,
                 f'`{nd.text()[:50]}` can raise for an unreadable element of a continuable source (a SequenceDataSource) and'
                 f' {why}: the source has moved on but self._index has not — every later element is attributed to the'
                 ' previous index: the shards (index % num_shards) overlap and miss elements, and a checkpoint restores'
                 ' one element too early', node=nd.ast)
      else:
        ctx.ok(rule, m, what, nd.ast)
  if not n_sib:
    raise AnalysisError(f'{rule}: DataIterator no longer draws with next(self.<it>)')
  ctx.floor(rule, 2)


_LOOKAHEAD = ('peekable', 'seekable', 'spy', 'tee', 'bucket', 'islice_extended', 'lookahead')


def r12(ctx: Ctx):
  rule = 'R-C10-12'
  ctx.rule(rule, 'a re-batching stage has consumed exactly what it delivered (plus the remainder it'
           ' holds): rebatched_args draws ONE input per round with `next(<input>, None)` and wraps its'
           ' input in nothing that reads ahead (peekable / seekable / spy / tee ...; the'
           ' first()+prepend() pair used to count the columns pushes the element back and is exact),'
           ' nor tests the input iterator for truth (which peeks). A look-ahead pulls the next record'
           ' out of the recoverable source before the current batch is yielded: the position recorded'
           ' in a checkpoint is one record ahead and that record is lost on resume')
  fi = ctx.repo.func(IU, 'rebatched_args')
  inp = fi.params()[0]
  n = 0
  derived = {inp}
  for _ in range(3):
    for x in walk_no_nested(fi.node):
      if isinstance(x, ast.Assign) and any(isinstance(y, ast.Name) and y.id in derived for y in ast.walk(x.value)):
        derived |= {t.id for t in x.targets if isinstance(t, ast.Name)}
  bad = None
  for c in walk_no_nested(fi.node):
    if isinstance(c, ast.Call) and unparse(c.func).split('.')[-1] in _LOOKAHEAD and any(
        isinstance(y, ast.Name) and y.id == inp for a_ in c.args for y in ast.walk(a_)):
      bad = (c, f'`{unparse(c)[:50]}` wraps the input in a look-ahead reader')
  from mlmverif.props.c17 import _truth_positions
  for t in _truth_positions(fi.node):
    while isinstance(t, ast.UnaryOp) and isinstance(t.op, ast.Not):
      t = t.operand
    if isinstance(t, ast.Name) and t.id == inp:
      bad = (t, f'`{inp}` is tested for truth (a peek on a peekable input)')
  draws = [c for c in walk_no_nested(fi.node) if isinstance(c, ast.Call) and unparse(c.func) == 'next' and c.args
           and isinstance(c.args[0], ast.Name) and c.args[0].id == inp]
  n = len(draws)
  if bad:
    ctx.fail(rule, fi, 'rebatched_args reads its input one element per round, without look-ahead',
             f'{bad[1]}: the stage has read one more record from its source than it has delivered when a batch is'
             ' yielded — a checkpoint taken there records a source position one record ahead, and the resumed run'
             ' never delivers that record', node=bad[0])
  elif len(draws) == 1:
    ctx.ok(rule, fi, f'one `next({inp}, None)` per round, no look-ahead wrapper', draws[0])
  else:
    ctx.fail(rule, fi, 'rebatched_args reads its input one element per round, without look-ahead',
             f'{len(draws)} draws from the input in one round', node=fi.node)
  ctx.floor(rule, 1, max(n, 1))


def r3(ctx: Ctx):
  rule = 'R-C10-3'
  ctx.rule(rule, 'structure: MultiplexIterator.from_state zips data sources'
           ' and states strictly, rejects non-recoverable sources and restores'
           ' each from its own state; .state collects every source iterator\'s'
           ' state; _ChainedRunnerIterator restores each iterator by its name')
  repo = ctx.repo
  fs = repo.func(IU, 'MultiplexIterator.from_state')
  z = [c for c in walk_no_nested(fs.node) if isinstance(c, ast.Call) and unparse(c.func) == 'zip']
  strict = any(any(k.arg == 'strict' and getattr(k.value, 'value', False) for k in c.keywords)
               and 'self._data_sources' in [unparse(a) for a in c.args] for c in z)
  loops = [x for x in walk_no_nested(fs.node) if isinstance(x, ast.For) and x.iter in z]
  paired = False
  checked = False
  for l in loops:
    if isinstance(l.target, ast.Tuple) and len(l.target.elts) == 2:
      a, b = unparse(l.target.elts[0]), unparse(l.target.elts[1])
      for c in ast.walk(l):
        if isinstance(c, ast.Call) and isinstance(c.func, ast.Attribute) and (
            c.func.attr == 'from_state') and unparse(c.func.value) == a and c.args and (
                unparse(c.args[0]) == b):
          paired = True
        if isinstance(c, ast.If) and 'is_recoverable' in unparse(c.test) and any(
            isinstance(y, ast.Raise) for y in c.body):
          checked = True
  if strict and paired and checked:
    ctx.ok(rule, fs, 'from_state: strict zip, recoverable check, own state', fs.node)
  else:
    ctx.fail(rule, fs, 'MultiplexIterator.from_state: zip(data_sources, states, strict=True)',
             f'restore is not structure preserving (strict zip: {strict}, each'
             f' source restored from its own state: {paired}, non-recoverable'
             f' rejected: {checked})', node=fs.node)
  st = repo.func(IU, 'MultiplexIterator.state')
  ok = False
  for l in walk_no_nested(st.node):
    if isinstance(l, ast.For) and unparse(l.iter) == 'self._source_iterators':
      v = unparse(l.target)
      if any(isinstance(c, ast.Call) and isinstance(c.func, ast.Attribute)
             and c.func.attr == 'append' and c.args and unparse(c.args[0]) == f'{v}.state'
             for c in ast.walk(l)):
        ok = True
  if ok:
    ctx.ok(rule, st, 'state: one entry per source iterator', st.node)
  else:
    ctx.fail(rule, st, 'MultiplexIterator.state: [it.state for it in self._source_iterators]',
             'the checkpoint does not contain the state of every source'
             ' iterator in order', node=st.node)
  cf = repo.func(TR, '_ChainedRunnerIterator.from_state')
  p = cf.params()[1]
  restores = [c for c in ast.walk(cf.node) if isinstance(c, ast.Call) and isinstance(c.func, ast.Attribute)
              and c.func.attr == 'from_state' and isinstance(c.func.value, ast.Name)]
  ok = bool(restores) and all(c.args and unparse(c.args[0]) == f'{p}[{c.func.value.id}.name]' for c in restores)
  cs = repo.func(TR, '_ChainedRunnerIterator.state')
  ok_s = any(isinstance(c, ast.DictComp) and unparse(c.key).endswith('.name')
             and unparse(c.value).endswith('.state')
             and unparse(c.generators[0].iter) == 'self._iterators'
             for c in walk_no_nested(cs.node))
  if ok and ok_s:
    ctx.ok(rule, cf, 'chained: state by name, restore by own name', cf.node)
  else:
    ctx.fail(rule, cf, '_ChainedRunnerIterator: {it.name: it.state} / it.from_state(state[it.name])',
             'stage iterators are not checkpointed/restored under their own'
             ' names', node=cf.node)
  ctx.floor(rule, 3)


def r4(ctx: Ctx):
  rule = 'R-C10-4'
  ctx.rule(rule, 'thread confinement: iterators whose .state a checkpoint'
           ' reads must not be handed to pool threads (which prefetch ahead of'
           ' delivery) unless the read is guarded by the sequential mode')
  repo = ctx.repo
  init = repo.func(IU, 'MultiplexIterator.__init__')
  st = repo.func(IU, 'MultiplexIterator.state')
  eff = Effects(repo)
  # names derived from self._source_iterators inside __init__
  src_attr = None
  for l in walk_no_nested(st.node):
    if isinstance(l, ast.For) and is_self_attr(l.iter):
      src_attr = l.iter.attr
  if src_attr is None:
    raise AnalysisError(f'{rule}: MultiplexIterator.state does not iterate a self field')
  tainted = set()
  for _ in range(3):
    for x in walk_no_nested(init.node):
      if isinstance(x, ast.Assign) and isinstance(x.targets[0], ast.Name):
        names = {y.id for y in ast.walk(x.value) if isinstance(y, ast.Name)}
        if is_self_attr(x.value, src_attr) or any(
            is_self_attr(y, src_attr) for y in ast.walk(x.value)) or names & tainted:
          tainted.add(x.targets[0].id)
  escapes = []
  for c in walk_no_nested(init.node):
    if isinstance(c, ast.Call) and any(k.arg == 'thread_pool' for k in c.keywords):
      args = list(c.args) + [k.value for k in c.keywords if k.arg != 'thread_pool']
      for a in args:
        names = {y.id for y in ast.walk(a) if isinstance(y, ast.Name)}
        if names & tainted or any(is_self_attr(y, src_attr) for y in ast.walk(a)):
          escapes.append(c)
          break
  if not escapes:
    ctx.ok(rule, init, 'source iterators never reach a thread pool', init.node)
    ctx.floor(rule, 1)
    return
  g = cfgm.cfg_of(st.node)
  reads = [n for n in g.nodes if any(isinstance(x, ast.Attribute) and x.attr == 'state'
                                    and isinstance(x.ctx, ast.Load)
                                    for x in cfgm.node_exprs(n))]
  guard = lambda n: n.kind == 'cond' and any(
      is_self_attr(x) and x.attr in ('_parallism', '_thread_pool', '_parallelism')
      for x in cfgm.node_exprs(n))
  unguarded = [n for n in reads if g.dominates(guard, n) is not None]
  if unguarded:
    ctx.fail(rule, st, 'MultiplexIterator.state reads iterator.state of pool-driven iterators',
             'with parallism > 0 the source iterators are advanced by pool'
             f' threads ({", ".join(unparse(e.func) for e in escapes)} prefetch'
             ' into a buffer) while .state reads their positions without any'
             ' guard: a checkpoint taken after n delivered elements records a'
             ' position beyond n and the restored run never delivers the'
             ' prefetched elements', node=st.node)
  else:
    ctx.ok(rule, st, 'state reads guarded by sequential mode', st.node)
  ctx.floor(rule, 1)


SWALLOWING = ('iter_ignore_error',)


def _callee_candidates(fi, f: ast.AST, depth: int = 0) -> list[ast.AST]:
  """Expressions a called name may stand for (local aliases, conditional expressions)."""
  if depth > 3:
    return [f]
  if isinstance(f, ast.IfExp):
    return _callee_candidates(fi, f.body, depth + 1) + _callee_candidates(fi, f.orelse, depth + 1)
  if isinstance(f, ast.Name):
    vals = [x.value for x in walk_no_nested(fi.node) if isinstance(x, ast.Assign)
            and any(isinstance(t, ast.Name) and t.id == f.id for t in x.targets)]
    if vals:
      out = []
      for v in vals:
        out += _callee_candidates(fi, v, depth + 1)
      return out
  return [f]


def r6(ctx: Ctx):
  rule = 'R-C10-6'
  ctx.rule(rule, 'the recorded position counts SOURCE positions: an iterator'
           ' class that pairs each next() on its inner iterator with one'
           ' `_index += 1` must not put an element-swallowing wrapper'
           ' (iter_ignore_error) between the source and that counter unless'
           ' the wrapper reports each skip with a marker that __next__ counts'
           ' too — a skipped (failing) record occupies a position; otherwise'
           ' the captured state lags behind and a restore repeats elements')
  repo = ctx.repo
  n = 0
  for cname in ('SequenceIterator', 'DataIterator'):
    ci = repo.cls(IO, cname)
    nx = ci.methods.get('__next__')
    if nx is None:
      raise AnalysisError(f'{rule}: {cname}.__next__ not found')
    for m in ci.methods.values():
      for x in walk_no_nested(m.node):
        if not (isinstance(x, ast.Assign) and any(is_self_attr(t, '_it') for t in x.targets)):
          continue
        n += 1
        v = x.value
        bad = None
        if isinstance(v, ast.Call):
          for cand in _callee_candidates(m, v.func):
            if unparse(cand).split('.')[-1] in SWALLOWING:
              marker = kwarg(v, 'error_return')
              if marker is None and len(v.args) > 1:
                marker = v.args[1]
              if marker is None or (isinstance(marker, ast.Constant) and marker.value is None):
                bad = (f'`{unparse(cand)}` swallows failing records without reporting them')
              else:
                mk = unparse(marker)
                counted = any(isinstance(c, ast.Compare) and isinstance(c.ops[0], (ast.Is, ast.IsNot))
                              and unparse(c.comparators[0]) == mk for c in ast.walk(nx.node))
                if not counted:
                  bad = (f'`{unparse(cand)}` reports skips as `{mk}` but {cname}.__next__ never'
                         ' tests for it')
        if bad:
          ctx.fail(rule, m, f'{cname}: position counter over the inner iterator counts skipped records',
                   f'{cname}.{m.name} builds the inner iterator so that {bad}: each'
                   ' skipped record advances the source by one position that'
                   ' `_index` does not count, so `state` lags behind and a'
                   ' restore re-delivers elements that were already delivered',
                   node=x)
        else:
          ctx.ok(rule, m, f'{cname}.{m.name}: inner iterator keeps one position per counted step', x)
  ctx.floor(rule, 2, n)


def r8(ctx: Ctx):
  rule = 'R-C10-8'
  ctx.rule(rule, 'a restored chain is ONE chain: ChainedRunner.iterate links stage'
           ' k to the iterator of stage k-1 through a loop-carried variable;'
           ' _ChainedRunnerIterator.from_state must keep that linkage — the'
           ' restored iterator it reports for stage k-1 is the very object'
           ' stage k reads from (taken from the restored downstream iterator,'
           ' or passed into the restore of stage k), never an independent'
           ' second restore of every stage: the aggregate of a non-last stage'
           ' would otherwise stop at the checkpoint while the data keeps'
           ' flowing through another copy')
  repo = ctx.repo
  it_fn = repo.func(TR, 'ChainedRunner.iterate')
  linked = False
  for l in walk_no_nested(it_fn.node):
    if isinstance(l, ast.For):
      for x in ast.walk(l):
        if isinstance(x, ast.Assign) and isinstance(x.targets[0], ast.Name) and isinstance(x.value, ast.Call) and (
            isinstance(x.value.func, ast.Attribute) and x.value.func.attr == 'iterate') and x.value.args and (
                isinstance(x.value.args[0], ast.Name) and x.value.args[0].id == x.targets[0].id):
          linked = True
  if not linked:
    raise AnalysisError(f'{rule}: ChainedRunner.iterate no longer links the stages through a loop-carried iterator')
  fs = repo.func(TR, '_ChainedRunnerIterator.from_state')
  indep = []
  for comp in ast.walk(fs.node):
    if isinstance(comp, (ast.ListComp, ast.GeneratorExp, ast.For)):
      it = comp.generators[0].iter if not isinstance(comp, ast.For) else comp.iter
      tgt = comp.generators[0].target if not isinstance(comp, ast.For) else comp.target
      if unparse(it) != 'self._iterators' or not isinstance(tgt, ast.Name):
        continue
      body = [comp.elt] if not isinstance(comp, ast.For) else comp.body
      carried = {t.id for b in (comp.body if isinstance(comp, ast.For) else []) for x in ast.walk(b)
                 if isinstance(x, ast.Assign) for t in x.targets if isinstance(t, ast.Name)}
      for b in body:
        for c in ast.walk(b):
          if isinstance(c, ast.Call) and isinstance(c.func, ast.Attribute) and c.func.attr == 'from_state' and (
              isinstance(c.func.value, ast.Name) and c.func.value.id == tgt.id):
            names = {y.id for a in list(c.args) + [k.value for k in c.keywords] for y in ast.walk(a)
                     if isinstance(y, ast.Name)}
            if not (names & carried):
              indep.append(c)
  if indep:
    ctx.fail(rule, fs, '_ChainedRunnerIterator.from_state: restored stages stay linked',
             f'from_state restores every stage on its own (`{unparse(indep[0])[:50]}` for'
             ' each iterator): restoring stage k also restores a private copy of'
             ' stage k-1 as its input, so the iterator reported for stage k-1 is'
             ' never advanced — after a restore the aggregate of a non-last'
             ' stage only covers the batches seen before the checkpoint',
             node=indep[0])
  else:
    ctx.ok(rule, fs, 'restored stage iterators are the linked ones', fs.node)
  ctx.floor(rule, 1)


def r14(ctx: Ctx):
  rule = 'R-C10-14'
  ctx.rule(rule, '"restoring gives an iterator that continues exactly" for chains of any length: when from_state rebuilds the'
           ' list of stage iterators by walking upstream from the restored last stage, each step reads the upstream of the'
           ' element at the END OF THE LIST IT EXTENDS — `L.insert(0, up)` takes `up` from `L[0]`, `L.append(up)` from'
           ' `L[-1]`. Reading the other end repeats one stage instead of walking on: for three or more stages the list'
           ' holds duplicates, the aggregates of the earlier stages vanish from agg_state / agg_result of the restored'
           ' iterator')
  repo = ctx.repo
  n = 0
  for fi in repo.all_functions():
    if not fi.module.name.endswith(('chainables.transform', 'utils.iter_utils', 'chainables.io')) or fi.name != 'from_state':
      continue
    for lp in walk_no_nested(fi.node):
      if not isinstance(lp, (ast.While, ast.For)):
        continue
      grows = [c for c in ast.walk(lp) if isinstance(c, ast.Call) and isinstance(c.func, ast.Attribute) and isinstance(
          c.func.value, ast.Name) and ((c.func.attr == 'insert' and len(c.args) == 2) or (c.func.attr == 'append' and len(c.args) == 1))]
      for gcall in grows:
        lst = gcall.func.value.id
        if gcall.func.attr == 'insert':
          pos = gcall.args[0]
          if not (isinstance(pos, ast.Constant) and pos.value == 0):
            continue
          end, val = 0, gcall.args[1]
        else:
          end, val = -1, gcall.args[0]
        if not isinstance(val, ast.Name):
          continue
        # where does `val` come from inside the loop?
        src = None
        for x in ast.walk(lp):
          if isinstance(x, ast.Assign) and any(isinstance(y, ast.Name) and y.id == val.id for t in x.targets for y in ast.walk(t)):
            for sub in ast.walk(x.value):
              if isinstance(sub, ast.Subscript) and isinstance(sub.value, ast.Name) and sub.value.id == lst:
                src = sub
        if src is None:
          continue
        n += 1
        idx = src.slice
        idxv = idx.value if isinstance(idx, ast.Constant) else (
            -idx.operand.value if isinstance(idx, ast.UnaryOp) and isinstance(idx.op, ast.USub) and isinstance(idx.operand, ast.Constant) else None)
        what = f'{fi.qualname}: the upstream walk reads the end of `{lst}` it extends'
        if idxv == end:
          ctx.ok(rule, fi, what, gcall)
        else:
          ctx.fail(rule, fi, what,
                   f'`{unparse(gcall)}` extends `{lst}` at position {end}, but the element it adds is derived from'
                   f' `{unparse(src)}`: the walk does not advance — with three or more stages the same stage is inserted'
                   ' again and again and the earlier stages (with their aggregation state) are missing from the restored'
                   ' iterator', node=src)
  ctx.floor(rule, 1, n)


def r15(ctx: Ctx):
  rule = 'R-C10-15'
  ctx.rule(rule, '"restoring gives an iterator that continues exactly ... and the original can go on independently": a restored'
           ' iterator is built over REBUILT sources — every source the restore hands to the new iterator is the result of'
           ' `<source>.from_state(<recorded state>)` on every path. Re-using a source object because it "already is at the'
           ' recorded position" shares it: in a chain the source of a stage is the live iterator of the previous stage, so'
           ' the restored stage and the original pull from one upstream — what one consumes the other misses, and the'
           ' upstream aggregation state is shared')
  repo = ctx.repo
  n = 0
  for fi in repo.all_functions():
    if fi.name != 'from_state' or not fi.module.name.endswith(('utils.iter_utils', 'chainables.transform')):
      continue
    g = cfgm.cfg_of(fi.node)
    appends = []
    for nd in g.nodes:
      for x in cfgm.node_exprs(nd):
        if isinstance(x, ast.Call) and isinstance(x.func, ast.Attribute) and x.func.attr == 'append' and isinstance(
            x.func.value, ast.Name) and 'source' in x.func.value.id and x.args and nd.kind == 'stmt' and isinstance(nd.ast, ast.Expr) and (
                nd.ast.value is x):
          appends.append((nd, x))
    if not appends:
      continue

    def fresh_call(v):
      return isinstance(v, ast.Call) and isinstance(v.func, ast.Attribute) and v.func.attr == 'from_state'

    def gen(nd, lab):
      a = nd.ast
      if nd.kind == 'stmt' and isinstance(a, ast.Assign) and len(a.targets) == 1 and isinstance(a.targets[0], ast.Name) and fresh_call(a.value):
        return [('fresh', a.targets[0].id)]
      return []

    def kill(nd, fact):
      a = nd.ast
      if nd.kind == 'for_iter':
        return any(isinstance(y, ast.Name) and y.id == fact[1] for y in ast.walk(a.target))
      if isinstance(a, ast.Assign) and not fresh_call(a.value):
        return any(isinstance(y, ast.Name) and y.id == fact[1] for t in a.targets for y in ast.walk(t))
      return False

    facts = cfgm.must_facts(g, gen, kill)
    for nd, c in appends:
      n += 1
      arg = c.args[0]
      ok = fresh_call(arg) or (isinstance(arg, ast.Name) and ('fresh', arg.id) in facts.get(nd, ()))
      what = f'{fi.qualname}: every source of the restored iterator is rebuilt from its recorded state'
      if ok:
        ctx.ok(rule, fi, what, c)
      else:
        ctx.fail(rule, fi, what,
                 f'`{unparse(c)}` can hand the ORIGINAL source object to the restored iterator (it is not the result of'
                 ' from_state on every path): the restored iterator and the one it was restored from then read the same'
                 ' upstream object — elements are split between them and upstream state is shared', node=c)
  ctx.floor(rule, 1, n)


def r16(ctx: Ctx):
  rule = 'R-C10-16'
  ctx.rule(rule, '"this holds for any number of successive checkpoints": restoring does not make the state grow. shard() records'
           ' the source\'s own state as `parent`, and from_state replays the recorded parent chain by recursion, one shard()'
           ' per level — so the replay of the chain\'s ROOT (the default state of the unsharded source) must yield the'
           ' unsharded source itself, without a shard() call: from_state returns the rebuilt root under a test that the'
           ' state equals the default `ShardConfig()`. Otherwise every restored state is one level deeper than the recorded'
           ' one; after ~1000 checkpoint/restore generations the recursion over the chain raises RecursionError')
  repo = ctx.repo
  fi = repo.func(IO, 'SequenceDataSource.from_state')
  p = fi.params()[1]
  shard = repo.func(IO, 'SequenceDataSource.shard')
  nests = any(isinstance(k, ast.keyword) and k.arg == 'parent' and 'self' in unparse(k.value) for c in ast.walk(shard.node)
              if isinstance(c, ast.Call) for k in c.keywords)
  recursive = any(isinstance(c, ast.Call) and unparse(c.func) == 'self.from_state' for c in ast.walk(fi.node))
  if not (nests and recursive):
    ctx.info(rule, fi, 'shard() no longer nests the parent state / from_state is not recursive: nothing to require')
    ctx.floor(rule, 0)
    return
  ok = False
  for x in ast.walk(fi.node):
    if isinstance(x, ast.If) and isinstance(x.test, ast.Compare) and len(x.test.ops) == 1 and isinstance(x.test.ops[0], (ast.Eq, ast.NotEq)):
      sides = [x.test.left, x.test.comparators[0]]
      if any(isinstance(e, ast.Name) and e.id == p for e in sides) and any(
          isinstance(e, ast.Call) and not e.args and not e.keywords and unparse(e.func).endswith('ShardConfig') for e in sides):
        branch = x.body if isinstance(x.test.ops[0], ast.Eq) else x.orelse
        rets = [r_ for b in branch for r_ in ast.walk(b) if isinstance(r_, ast.Return) and r_.value is not None]
        if rets and not any(isinstance(c, ast.Call) and isinstance(c.func, ast.Attribute) and c.func.attr == 'shard'
                            for r_ in rets for c in ast.walk(r_.value)):
          ok = True
  what = 'SequenceDataSource.from_state: the root state replays to the unsharded source itself'
  if ok:
    ctx.ok(rule, fi, what, fi.node)
  else:
    ctx.fail(rule, fi, what,
             f'from_state replays every level of the recorded chain with shard(), also the chain\'s root (`{p}.parent is None`):'
             ' shard() records the unsharded source\'s default state as a parent once more, so the state of a restored source is'
             ' one level deeper than the state it was restored from — successive checkpoint/restore cycles grow the chain'
             ' without bound (slower restores, RecursionError after ~1000 generations)', node=fi.node)
  ctx.floor(rule, 1)


def r17(ctx: Ctx):
  rule = 'R-C10-17'
  ctx.rule(rule, '"restoring ... from a captured state continues with exactly the elements not yet delivered": the state handed to'
           ' `<source>.from_state(...)` by the pipeline code (transform.py) is the RECORDED state as it was passed in — a'
           ' parameter of the calling function (or an attribute path of it) that the function never re-binds. A state'
           ' rewritten on the way (dataclasses.replace(state, parent=<the live source\'s state>), a rebuilt ShardConfig) is'
           ' no longer what was captured: a nested shard loses its recorded parent chain and the restored run reads'
           ' another range')
  mi = ctx.repo.module('chainables.transform')
  fns = list(mi.functions.values()) + [m_ for c in mi.classes.values() for m_ in c.methods.values()]
  n = 0
  for fi in fns:
    ps = set(fi.params())
    for c in walk_no_nested(fi.node):
      if not (isinstance(c, ast.Call) and isinstance(c.func, ast.Attribute) and c.func.attr == 'from_state' and c.args):
        continue
      n += 1
      a = c.args[0]
      root = a
      while isinstance(root, (ast.Attribute, ast.Subscript)):
        root = root.value
      what = f'{fi.qualname}: `{unparse(c.func)}` receives the recorded state unchanged'
      if not (isinstance(root, ast.Name) and root.id in ps):
        ctx.fail(rule, fi, what,
                 f'`{unparse(c)[:80]}` restores from `{unparse(a)[:50]}`, which is not (an attribute of) a parameter of'
                 f' {fi.qualname}: the state is built on the way instead of being replayed as recorded', node=c)
        continue
      rebinds = [x for x in walk_no_nested(fi.node)
                 if (isinstance(x, ast.Assign) and any(isinstance(y, ast.Name) and y.id == root.id for t in x.targets for y in ast.walk(t)))
                 or (isinstance(x, (ast.AugAssign, ast.AnnAssign)) and isinstance(x.target, ast.Name) and x.target.id == root.id)
                 or (isinstance(x, ast.NamedExpr) and x.target.id == root.id)]
      # a re-binding that only WRAPS the recorded state (`state = {name: state}`) keeps it; one that passes it through a
      # call (dataclasses.replace(state, ...), ShardConfig(**vars(state))) rewrites it
      rebinds = [x for x in rebinds if any(
          isinstance(k, ast.Call) and any(isinstance(y, ast.Name) and y.id == root.id
                                          for arg in [*k.args, *[kw.value for kw in k.keywords]] for y in ast.walk(arg))
          for k in ast.walk(getattr(x, 'value', x)))
                 or not any(isinstance(y, ast.Name) and y.id == root.id for y in ast.walk(getattr(x, 'value', x)))]
      if rebinds:
        ctx.fail(rule, fi, what,
                 f'`{unparse(rebinds[0])[:80]}` re-binds `{root.id}` before `{unparse(c)[:50]}`: the source is restored from a'
                 ' rewritten state, not from the captured one — the recorded parent chain / offsets of the shard are replaced',
                 node=rebinds[0])
      else:
        ctx.ok(rule, fi, what, c)
  ctx.floor(rule, 2, n)


def r19(ctx: Ctx):
  rule = 'R-C10-19'
  ctx.rule(rule, '"the aggregate at the end equals the aggregate of the uninterrupted run": a restored iterator runs under the SAME'
           ' configuration as the one that was captured. In the from_state methods of transform.py every configuration'
           ' keyword handed to the rebuilt iterator (`with_*`, `ignore_error`, `total`) is exactly one attribute of self (or a'
           ' parameter) — not a combination of flags (`self._with_agg_result and self._with_result`): an aggregate-only'
           ' iteration restored from a checkpoint would end without its aggregate result')
  mi = ctx.repo.module('chainables.transform')
  n = 0
  for ci in mi.classes.values():
    fi = ci.methods.get('from_state')
    if fi is None:
      continue
    for c in ast.walk(fi.node):
      if not isinstance(c, ast.Call):
        continue
      for k in c.keywords:
        if not (k.arg and (k.arg.startswith('with_') or k.arg in ('ignore_error', 'total'))):
          continue
        n += 1
        what = f'{ci.name}.from_state: `{k.arg}` is carried over unchanged'
        if isinstance(k.value, (ast.BoolOp, ast.IfExp, ast.UnaryOp, ast.Compare)):
          ctx.fail(rule, fi, what,
                   f'`{k.arg}={unparse(k.value)[:60]}` computes the restored configuration from several flags: the restored iterator'
                   ' does not behave like the captured one (its final aggregate result can be missing)', node=k.value)
        else:
          ctx.ok(rule, fi, what, k.value)
  ctx.floor(rule, 4, n)


def r20(ctx: Ctx):
  rule = 'R-C10-20'
  ctx.rule(rule, '"restoring from the captured state yields exactly the elements not yet delivered ... for sharded and nested-sharded'
           ' sources": from_state rebuilds the source the STATE describes, whatever shard the restoring object happens to be.'
           ' In the from_state methods of io.py the state parameter is never re-bound (no `state = dc.replace(self._shard_state,'
           ' start_index=state.start_index)`): keeping the restorer\'s own shard index / count continues ANOTHER shard from'
           ' the recorded position')
  mi = ctx.repo.module('chainables.io')
  n = 0
  for ci in mi.classes.values():
    fi = ci.methods.get('from_state')
    if fi is None:
      continue
    ps = fi.params()[1:]
    if not ps:
      continue
    p_ = ps[0]
    n += 1
    rebinds = [x for x in walk_no_nested(fi.node) if isinstance(x, (ast.Assign, ast.AugAssign, ast.AnnAssign)) and any(
        isinstance(t, ast.Name) and t.id == p_ for t in (x.targets if isinstance(x, ast.Assign) else [x.target]))]
    what = f'{ci.name}.from_state: the captured state is applied as given'
    if rebinds:
      ctx.fail(rule, fi, what,
               f'`{unparse(rebinds[0])[:80]}` replaces the captured state by one derived from the restoring object: a checkpoint of'
               ' one shard restored through another shard\'s source continues that other shard', node=rebinds[0])
    else:
      ctx.ok(rule, fi, what, fi.node)
  ctx.floor(rule, 3, n)


from mlmverif.selfcheck import B, OK  # noqa: E402

_F = 'chainables/io.py'
_T = 'chainables/transform.py'
_U = 'utils/iter_utils.py'
VARIANTS = [
    OK('recorded-position-in-two-steps', 'chainables/io.py',
       "    start_index = self._index - self.config.start + self.config.state.start_index\n", "    read_in_shard = self._index - self.config.start\n    start_index = read_in_shard + self.config.state.start_index\n"),
    OK('skip-wrapper-yields-through-a-local', 'utils/iter_utils.py',
       "      yield next(it)\n", "      value = next(it)\n      yield value\n"),
    OK('sharded-iterable-restore-through-a-local', 'chainables/io.py',
       "  def from_state(self, shard_state: ShardConfig) -> Self:\n    return dc.replace(self, _shard_state=shard_state)", "  def from_state(self, shard_state: ShardConfig) -> Self:\n    restored = dc.replace(self, _shard_state=shard_state)\n    return restored"),
    B('sharded-iterable-keeps-its-own-shard-on-restore', 'chainables/io.py',
      "  def from_state(self, shard_state: ShardConfig) -> Self:\n    return dc.replace(self, _shard_state=shard_state)",
      "  def from_state(self, shard_state: ShardConfig) -> Self:\n    if self._shard_state.num_shards > 1:\n      shard_state = dc.replace(self._shard_state, start_index=shard_state.start_index)\n    return dc.replace(self, _shard_state=shard_state)", 'R-C10-20'),
    OK('restored-flag-through-a-local', 'chainables/transform.py',
       "        with_agg_result=self._with_agg_result,\n        # Only its truthiness is used", "        with_agg_result=bool(self._with_agg_result),\n        # Only its truthiness is used"),
    B('restored-iterator-drops-its-aggregate-result-flag', 'chainables/transform.py',
      "        with_agg_result=self._with_agg_result,\n        # Only its truthiness is used", "        with_agg_result=self._with_agg_result and self._with_result,\n        # Only its truthiness is used", 'R-C10-19'),
    B('skip-wrapper-gives-up-after-many-failures', 'utils/iter_utils.py',
      "    except _IGNORE_ERROR_TYPES:\n      if error_return is not None:", "    except _IGNORE_ERROR_TYPES:\n      failures = getattr(iter_ignore_error, '_n', 0) + 1\n      iter_ignore_error._n = failures\n      if failures > 100:\n        raise\n      if error_return is not None:", 'R-C10-18'),
    B('shard-state-grafted-onto-the-live-source', 'chainables/transform.py',
      "      if types.is_recoverable(data_source):\n        data_source = data_source.from_state(input_state)",
      "      if types.is_recoverable(data_source):\n        input_state = dataclasses.replace(input_state, parent=data_source.state)\n        data_source = data_source.from_state(input_state)", 'R-C10-17'),
    OK('shard-state-restored-through-a-local-source', 'chainables/transform.py',
       "      if types.is_recoverable(data_source):\n        data_source = data_source.from_state(input_state)",
       "      if types.is_recoverable(data_source):\n        source = data_source\n        data_source = source.from_state(input_state)"),
    B('revert-root-state-replayed-with-a-shard-call', 'chainables/io.py',
      "      if shard_state == ShardConfig():\n        # The state of the unsharded source itself: sharding it once more would\n        # nest every restored state one level deeper than the recorded one.\n        return result\n", '', 'R-C10-16'),
    OK('root-state-handled-first', 'chainables/io.py',
       "    if shard_state.parent is not None:\n      result = self.from_state(shard_state.parent)\n    else:\n      result = SequenceDataSource(self.data, ignore_error=self.ignore_error)\n      if shard_state == ShardConfig():\n        # The state of the unsharded source itself: sharding it once more would\n        # nest every restored state one level deeper than the recorded one.\n        return result\n",
       "    if shard_state == ShardConfig():\n      return SequenceDataSource(self.data, ignore_error=self.ignore_error)\n    if shard_state.parent is not None:\n      result = self.from_state(shard_state.parent)\n    else:\n      result = SequenceDataSource(self.data, ignore_error=self.ignore_error)\n"),
    B('restore-reuses-a-source-at-the-recorded-position', 'utils/iter_utils.py',
      '      data_sources.append(data_source.from_state(ds_state))',
      '      if data_source.state != ds_state:\n        data_source = data_source.from_state(ds_state)\n      data_sources.append(data_source)', 'R-C10-15'),
    OK('restore-rebuilds-through-a-local', 'utils/iter_utils.py',
       '      data_sources.append(data_source.from_state(ds_state))',
       '      rebuilt = data_source.from_state(ds_state)\n      data_sources.append(rebuilt)'),
    B('revert-data-iterator-draw-not-counted-on-failure', 'chainables/io.py',
      '    except Exception:\n      # A continuable source has stepped over the element it raised for.\n      self._index += 1\n      raise\n', '', 'R-C10-11'),
    OK('data-iterator-draws-inline', 'chainables/io.py',
       '    while self._index < self.config.state.start_index:\n      _ = self._draw()\n',
       '    while self._index < self.config.state.start_index:\n      try:\n        _ = next(self._it)\n      except StopIteration:\n        raise\n      except Exception:\n        self._index += 1\n        raise\n      self._index += 1\n'),
    B('restore-walk-reads-the-wrong-end', 'chainables/transform.py',
      '      (upstream,) = iterators[0].data_sources', '      (upstream,) = iterators[-1].data_sources', 'R-C10-14'),
    OK('restore-walk-appends-then-reverses', 'chainables/transform.py',
       '      (upstream,) = iterators[0].data_sources\n      iterators.insert(0, upstream)',
       '      (upstream,) = iterators[0].data_sources\n      iterators = [upstream] + iterators'),
    B('rebatcher-peeks-one-input-ahead', _U,
      '  column_buffer = [[] for _ in range(num_columns)]\n  batch_sizes = np.zeros(num_columns, dtype=int)\n  exhausted = False',
      '  tuples = mit.peekable(tuples)\n  column_buffer = [[] for _ in range(num_columns)]\n  batch_sizes = np.zeros(num_columns, dtype=int)\n  exhausted = False', 'R-C10-12'),
    B('revert-raised-record-counted', _F,
      '    except Exception:\n      # The reader steps over a record it cannot read before raising, the\n      # iteration can continue behind it: the record still occupies an index.\n      self._index += 1\n      raise',
      '    except Exception:\n      raise', 'R-C10-11'),
    OK('raised-record-counted-in-finally-style', _F,
       '    except Exception:\n      # The reader steps over a record it cannot read before raising, the\n      # iteration can continue behind it: the record still occupies an index.\n      self._index += 1\n      raise',
       '    except Exception as read_error:\n      self._index += 1\n      raise read_error'),
    B('dataiter-state-rounded-to-stride', _F,
      '    start_index = max(self._index, self.config.state.start_index)\n    return dc.replace(self.config.state, start_index=start_index)',
      '    start_index = max(self._index, self.config.state.start_index)\n    start_index += (start_index - self.config.state.shard_index) % self.config.state.num_shards\n    return dc.replace(self.config.state, start_index=start_index)',
      'R-C10-1'),
    OK('dataiter-state-max-in-two-steps', _F,
       '    start_index = max(self._index, self.config.state.start_index)\n    return dc.replace(self.config.state, start_index=start_index)',
       '    restored = self.config.state.start_index\n    position = self._index\n    start_index = max(restored, position)\n    return dc.replace(self.config.state, start_index=start_index)'),
    B('revert-chained-restore-keeps-config', _T,
      '        # Only its truthiness is used: whether there is an aggregate to return.\n        state=self._with_agg,\n        total=self._total,\n        single_batch=self._single_batch,\n',
      '', 'R-C10-10'),
    B('restore-forgets-ignore-error', _T,
      '        runner=self._runner,\n        ignore_error=self._ignore_error,\n',
      '        runner=self._runner,\n', 'R-C10-10',
      extra=[(_T, '      ignore_error: bool,\n      with_result: bool = True,', '      ignore_error: bool = False,\n      with_result: bool = True,')]),
    B('revert-linked-chain-restore', _T,
      '    last = self._iterators[-1]\n    iterators = [last.from_state(state[last.name])]\n    while len(iterators) < len(self._iterators):\n      (upstream,) = iterators[0].data_sources\n      iterators.insert(0, upstream)',
      '    iterators = [it.from_state(state[it.name]) for it in self._iterators]', 'R-C10-8'),
    B('restore-drops-sliced-states', _T,
      '        k: v for k, v in state.items() if k.metrics in self._runner.agg_fns\n',
      '        k: v for k, v in state.items() if k in {MetricKey(key) for key in self._runner.agg_fns}\n', 'R-C10-7'),
    B('revert-state-not-behind-restore', _F,
      '    start_index = max(self._index, self.config.state.start_index)\n    return dc.replace(self.config.state, start_index=start_index)',
      '    return dc.replace(self.config.state, start_index=self._index)', 'R-C10-1'),
    B('revert-skip-marker', _F,
      '      self._it = iter_utils.iter_ignore_error(self._it, error_return=_SKIPPED)',
      '      self._it = iter_utils.iter_ignore_error(self._it)', 'R-C10-6'),
    B('skip-marker-not-counted', _F,
      '      while (result := next(self._it)) is _SKIPPED:\n        self._index += 1\n',
      '      result = next(self._it)\n', 'R-C10-6'),
    B('skip-marker-dropped-without-counting', _F,
      '      while (result := next(self._it)) is _SKIPPED:\n        self._index += 1\n',
      '      while (result := next(self._it)) is _SKIPPED:\n        pass\n', 'R-C10-5'),
    OK('skip-marker-explicit-loop', _F,
       '      while (result := next(self._it)) is _SKIPPED:\n        self._index += 1\n',
       '      result = next(self._it)\n      while result is _SKIPPED:\n        self._index += 1\n        result = next(self._it)\n'),
    B('state-relative-only', _F,
      '    start_index = self._index - self.config.start + self.config.state.start_index',
      '    start_index = self._index - self.config.start', 'R-C10-1'),
    B('state-absolute', _F,
      '    start_index = self._index - self.config.start + self.config.state.start_index',
      '    start_index = self._index', 'R-C10-1'),
    B('offset-twice', _F, '        _start=start + offset,', '        _start=start + 2 * offset,',
      'R-C10-1'),
    B('dataiter-no-skip', _F,
      '    while self._index < self.config.state.start_index:\n      _ = self._draw()\n',
      '', 'R-C10-1'),
    B('agg-state-shallow', _T, '        agg_state=copy.deepcopy(self.agg_state),',
      '        agg_state=copy.copy(self.agg_state),', 'R-C10-2'),
    B('restore-forgets-agg-state', _T, '        state=copy.deepcopy(state.agg_state),\n    )',
      '        state=None,\n    )', 'R-C10-2'),
    B('revert-restore-copies-state', _T, '        state=copy.deepcopy(state.agg_state),\n    )',
      '        state=state.agg_state,\n    )', 'R-C10-9'),
    B('restore-copies-shallow', _T, '        state=copy.deepcopy(state.agg_state),\n    )',
      '        state=dict(state.agg_state),\n    )', 'R-C10-9'),
    OK('restore-copy-in-constructor', _T,
       '        state=copy.deepcopy(state.agg_state),\n    )',
       '        state=state.agg_state,\n    )',
       extra=[(_T, '    self.agg_state = {\n        k: v for k, v in state.items() if k.metrics in self._runner.agg_fns\n    }',
               '    self.agg_state = copy.deepcopy({\n        k: v for k, v in state.items() if k.metrics in self._runner.agg_fns\n    })')]),
    B('zip-not-strict', _U,
      'zip(self._data_sources, states, strict=True)', 'zip(self._data_sources, states)',
      'R-C10-3'),
    B('chained-restore-first-state', _T,
      '    iterators = [last.from_state(state[last.name])]',
      '    iterators = [last.from_state(state[self._iterators[0].name])]',
      'R-C10-3'),
    OK('state-reordered', _F,
       '    start_index = self._index - self.config.start + self.config.state.start_index',
       '    start_index = self.config.state.start_index + (self._index - self.config.start)'),
]
