"""C17 — lazy expressions evaluate to what the eager expression would.

Structural part: the uncached path never touches the cache, a missing cached
object raises the dedicated error, every callee/arg/kwarg/result is
recursively materialised, LRU bookkeeping pairs, hash/eq use the same fields.
"""
from __future__ import annotations

import ast

from mlmverif import cfg as cfgm
from mlmverif.core import (cnorm, parent_map, AnalysisError, Ctx, FuncInfo, is_self_attr, kwarg,
                           unparse, walk_no_nested)

EXPLANATION = (
    'CFG reachability/dominance over _maybe_lru_cache.wrapped_fn, LazyFn.result_,'
    ' _maybe_make and LruCache. Decides: when cache_result is false the cache'
    ' is neither read nor written and the function is evaluated afresh; a hit'
    ' returns the stored object; a miss evaluates once, stores and returns that'
    ' same object for a LazyFn and raises LazyObjectMissingError (chained) for'
    ' a plain lazy object; result_ materialises the callee, every positional'
    ' and keyword argument and the call result through _maybe_make and wraps'
    ' lazy results; _maybe_make resolves resolvables via result_(); LruCache'
    ' increments currsize only for a key that was new BEFORE the store,'
    ' evicts the oldest key only when currsize > maxsize and decrements with'
    ' it, moves a hit to the end, resets on clear; __hash__ of'
    ' LazyFn/LazyObject only uses fields __eq__ compares; both-cached-and-lazy'
    ' is rejected. NOT decided: value equality with eager evaluation, pickling'
    ' round trips.'
)
ASSUMPTIONS = ['collections.OrderedDict keeps insertion order; move_to_end'
               ' moves a key to the most-recent end.']

LF = 'chainables.lazy_fns'
FU = 'utils.func_utils'


def run(ctx: Ctx):
  for r in (r18, r19, r17, r16, r1, r2, r3, r4, r5, r6, r7, r8, r9, r10, r11, r12, r13, r14, r15):
    ctx.guard(r)


def r1(ctx: Ctx):
  rule = 'R-C17-1'
  ctx.rule(rule, 'cache branches: uncached calls never touch the cache and'
           ' return fn(x); a hit returns the stored object; a miss stores and'
           ' returns the same freshly evaluated object only for a LazyFn and'
           ' raises LazyObjectMissingError otherwise')
  repo = ctx.repo
  outer = repo.func(LF, '_maybe_lru_cache')
  wf = None
  for s in ast.walk(outer.node):
    if isinstance(s, ast.FunctionDef) and s.name == 'wrapped_fn':
      wf = FuncInfo(outer.module, '_maybe_lru_cache.wrapped_fn', s)
  if wf is None:
    raise AnalysisError(f'{rule}: wrapped_fn not found')
  g = cfgm.cfg_of(wf.node)
  x = wf.params()[0]
  cvar = None
  for s in ast.walk(outer.node):
    if isinstance(s, ast.Assign) and isinstance(s.value, ast.Call) and 'LruCache' in unparse(s.value.func):
      cvar = s.targets[0].id
  if cvar is None:
    raise AnalysisError(f'{rule}: cache object not found')
  flag = [c for c in g.nodes if c.kind == 'cond' and unparse(c.ast) in (f'{x}.cache_result', f'{x}._cache_result')]
  if not flag:
    ctx.fail(rule, wf, f'wrapped_fn: if {x}.cache_result', 'caching is no longer conditional on the cache_result flag', node=wf.node)
    return
  touch = [n for n in g.nodes if n.ast is not None and n.kind in ('stmt', 'cond') and any(
      isinstance(y, ast.Name) and y.id == cvar for y in cfgm.node_exprs(n))]
  reach_unc = g.reachable([s for c in flag for s, lab in c.succ if lab == 'false'], include_src=True)
  if any(n in reach_unc for n in touch):
    ctx.fail(rule, wf, f'wrapped_fn: uncached path touches {cvar}',
             'a call without cache_result reads or writes the cache: repeated'
             ' materialisations are not evaluated afresh', node=wf.node)
  else:
    ctx.ok(rule, wf, 'uncached path never touches the cache', flag[0].ast)
  rets_unc = [n for n in reach_unc if isinstance(n.ast, ast.Return)]
  if rets_unc and all(unparse(n.ast.value) == f'fn({x})' for n in rets_unc):
    ctx.ok(rule, wf, f'uncached: return fn({x})', rets_unc[0].ast)
  else:
    ctx.fail(rule, wf, f'wrapped_fn: return fn({x}) when not cached',
             'the uncached path does not evaluate the expression', node=wf.node)
  # hit path
  loads = [n for n in g.nodes if isinstance(n.ast, ast.Assign) and isinstance(n.ast.value, ast.Subscript)
           and unparse(n.ast.value.value) == cvar and unparse(n.ast.value.slice) == x]
  ok_hit = False
  for ld in loads:
    v = ld.ast.targets[0].id
    from mlmverif.core import plain_copies
    vs = plain_copies(wf.node, v)
    r = g.reachable([ld], edge_ok=cfgm.only_normal)
    rr = [n for n in r if isinstance(n.ast, ast.Return)]
    if rr and all(unparse(n.ast.value) in vs for n in rr):
      ok_hit = True
  if ok_hit:
    ctx.ok(rule, wf, 'hit returns the stored object', loads[0].ast)
  else:
    ctx.fail(rule, wf, f'wrapped_fn: result = {cvar}[{x}]; return result',
             'a cache hit does not return the stored object', node=wf.node)
  # miss path
  handlers = [h for h in g.nodes if h.kind == 'handler' and h.exc_types and 'KeyError' in h.exc_types]
  if not handlers:
    ctx.fail(rule, wf, 'wrapped_fn: except KeyError', 'a cache miss is not handled', node=wf.node)
    return
  h = handlers[0]
  body = g.reachable([h], edge_ok=cfgm.only_normal)
  isfn = [c for c in body if c.kind == 'cond' and 'LazyFn' in unparse(c.ast)]
  stores = [n for n in body if isinstance(n.ast, ast.Assign) and isinstance(n.ast.targets[0], ast.Subscript)
            and unparse(n.ast.targets[0].value) == cvar]
  evals = [n for n in body if isinstance(n.ast, ast.Assign) and unparse(n.ast.value) == f'fn({x})']
  raises = [n for n in body if isinstance(n.ast, ast.Raise) and 'LazyObjectMissingError' in unparse(n.ast)]
  problem = None
  if not isfn:
    problem = 'the miss path does not distinguish LazyFn from a plain lazy object'
  elif len(evals) != 1 or len(stores) != 1:
    problem = 'the miss path does not evaluate once and store once'
  else:
    v = evals[0].ast.targets[0].id
    # plain copies of the evaluated result (`result = value`) name the same object
    same = {v}
    for _ in range(2):
      for nd_ in body:
        if isinstance(nd_.ast, ast.Assign) and len(nd_.ast.targets) == 1 and isinstance(nd_.ast.targets[0], ast.Name) \
            and isinstance(nd_.ast.value, ast.Name) and nd_.ast.value.id in same:
          same.add(nd_.ast.targets[0].id)
    if unparse(stores[0].ast.value) not in same or unparse(stores[0].ast.targets[0].slice) != x:
      problem = 'the stored object is not the freshly evaluated result under the same key'
    rr = [n for n in g.reachable([stores[0]], edge_ok=cfgm.only_normal) if isinstance(n.ast, ast.Return)]
    if not rr or any(unparse(n.ast.value) not in same for n in rr):
      problem = problem or 'the miss path does not return the object it stored'
    c = isfn[0]
    reach_not_fn = g.reachable([s for s, lab in c.succ if lab == 'false'], edge_ok=cfgm.only_normal, include_src=True)
    if stores[0] in reach_not_fn or evals[0] in reach_not_fn:
      problem = problem or 'a plain lazy object is evaluated/stored on a miss'
    if not raises or not any(r_ in reach_not_fn for r_ in raises):
      problem = problem or 'a missing cached object does not raise LazyObjectMissingError'
    elif any(r_.ast.cause is None for r_ in raises):
      problem = problem or 'LazyObjectMissingError is raised without its cause'
  if problem:
    ctx.fail(rule, wf, 'wrapped_fn: miss path', problem + ' (stale, repeated or wrong values)', node=h.ast)
  else:
    ctx.ok(rule, wf, 'miss: LazyFn -> evaluate once, store, return; else LazyObjectMissingError', h.ast)
  ctx.floor(rule, 4)


def r2(ctx: Ctx):
  rule = 'R-C17-2'
  ctx.rule(rule, 'recursive materialisation: LazyFn.result_ passes the callee,'
           ' every positional and keyword argument and the call result through'
           ' _maybe_make and calls fn(*args, **kwargs); a lazy result is'
           ' wrapped; _maybe_make resolves via result_() / maker / identity')
  repo = ctx.repo
  fi = repo.func(LF, 'LazyFn.result_')
  env = {}
  for s in walk_no_nested(fi.node):
    if isinstance(s, ast.Assign) and isinstance(s.targets[0], ast.Name):
      env.setdefault(s.targets[0].id, []).append(s.value)
  def mm(e, inner=None):
    return isinstance(e, ast.Call) and unparse(e.func) == '_maybe_make' and (
        inner is None or unparse(e.args[0]) == inner)
  fnv = [k for k, vs in env.items() if any(mm(v, 'self.value') for v in vs)]
  def elementwise(v):
    # every element of self.args through _maybe_make, in order: a comprehension / generator expression (optionally
    # wrapped in tuple()/list()), or map(_maybe_make, self.args)
    while isinstance(v, ast.Call) and unparse(v.func) in ('tuple', 'list') and len(v.args) == 1:
      v = v.args[0]
    if isinstance(v, (ast.GeneratorExp, ast.ListComp)):
      return (len(v.generators) == 1 and not v.generators[0].ifs and mm(v.elt)
              and unparse(v.generators[0].iter) == 'self.args'
              and unparse(v.elt.args[0]) == unparse(v.generators[0].target))
    return (isinstance(v, ast.Call) and unparse(v.func) == 'map' and len(v.args) == 2
            and unparse(v.args[0]) == '_maybe_make' and unparse(v.args[1]) == 'self.args')
  argv = [k for k, vs in env.items() if any(elementwise(v) for v in vs)]
  for lp in walk_no_nested(fi.node):
    # explicit loop: `for a in self.args: <name>.append(_maybe_make(a))`
    if isinstance(lp, ast.For) and unparse(lp.iter) == 'self.args' and len(lp.body) == 1 and not lp.orelse:
      b = lp.body[0]
      if (isinstance(b, ast.Expr) and isinstance(b.value, ast.Call) and isinstance(b.value.func, ast.Attribute)
          and b.value.func.attr == 'append' and isinstance(b.value.func.value, ast.Name)
          and len(b.value.args) == 1 and mm(b.value.args[0], unparse(lp.target))):
        argv.append(b.value.func.value.id)
  kwv = [k for k, vs in env.items() if any(
      isinstance(v, ast.DictComp) and mm(v.value) and unparse(v.generators[0].iter) == 'self.kwargs'
      and isinstance(v.generators[0].target, ast.Tuple)
      and unparse(v.key) == unparse(v.generators[0].target.elts[0])
      and unparse(v.value.args[0]) == unparse(v.generators[0].target.elts[1]) for v in vs)]
  call_ok = False
  if fnv and argv and kwv:
    want = f'_maybe_make({fnv[0]}(*{argv[0]}, **{kwv[0]}))'
    call_ok = any(unparse(v) == want for vs in env.values() for v in vs)
  for label, ok in (('callee through _maybe_make(self.value)', bool(fnv)),
                    ('every positional argument through _maybe_make', bool(argv)),
                    ('every keyword argument through _maybe_make', bool(kwv)),
                    ('result = _maybe_make(fn(*args, **kwargs))', call_ok)):
    if ok:
      ctx.ok(rule, fi, label, fi.node)
    else:
      ctx.fail(rule, fi, f'LazyFn.result_: {label}',
               f'materialisation is not recursive: {label} does not hold, so'
               ' nested lazy values reach the function unevaluated', node=fi.node)
  # evaluation order of an eager call: callee, positional args, keyword args
  if fnv and argv and kwv:
    line = {}
    for s_ in walk_no_nested(fi.node):
      if isinstance(s_, ast.Assign) and isinstance(s_.targets[0], ast.Name):
        line.setdefault(s_.targets[0].id, s_.lineno)
    g0 = cfgm.cfg_of(fi.node)
    def _node_of(name):
      return next((n_ for n_ in g0.nodes if n_.kind == 'stmt' and isinstance(n_.ast, ast.Assign)
                   and isinstance(n_.ast.targets[0], ast.Name) and n_.ast.targets[0].id == name), None)
    nf, na, nk = _node_of(fnv[0]), _node_of(argv[0]), _node_of(kwv[0])
    order_ok = nf is not None and na is not None and nk is not None and (
        g0.dominates(lambda x: x is nf, na, cfgm.only_normal) is None
        and g0.dominates(lambda x: x is na, nk, cfgm.only_normal) is None)
    if order_ok:
      ctx.ok(rule, fi, 'callee materialised before positional before keyword arguments', fi.node)
    else:
      ctx.fail(rule, fi, 'LazyFn.result_: materialise the callee, then args, then kwargs',
               'the lazy call does not evaluate its parts in the order of an eager'
               ' call (callee expression first, then positional, then keyword'
               ' arguments): with a stateful callable on both sides'
               ' (`f(tick())(tick())`) the materialised value differs from the'
               ' eager one', node=(na or nf or fi.node).ast if hasattr(na or nf, 'ast') else fi.node)
  for qn in ('LazyFn.result_', 'LazyObject.result_'):
    f2 = repo.func(LF, qn)
    g = cfgm.cfg_of(f2.node)
    from mlmverif import pat
    c = [n for n in g.nodes if n.kind == 'cond' and unparse(n.ast) == 'self._lazy_result']
    wrapped = [pat.match('$r = LazyObject.new($r)', s.ast) for n in c for s, lab in n.succ
               if lab == 'true' and s.ast is not None]
    wrapped = [w for w in wrapped if w]
    rets = [n for n in g.nodes if isinstance(n.ast, ast.Return)]
    ok = bool(wrapped) and rets and all(unparse(n.ast.value) == wrapped[0]['r'] for n in rets)
    if ok:
      ctx.ok(rule, f2, f'{qn}: lazy result wrapped, result returned', f2.node)
    else:
      ctx.fail(rule, f2, f'{qn}: if self._lazy_result: result = LazyObject.new(result)',
               'the lazy_result flag no longer decides whether the value or a'
               ' handle to it is returned', node=f2.node)
  nw = repo.func(LF, 'LazyFn.new')
  reorder = None
  for x in walk_no_nested(nw.node):
    if isinstance(x, ast.Call) and unparse(x.func) in ('sorted', 'reversed', 'set', 'frozenset',
                                                     'dict.fromkeys'):
      names = {y.id for y in ast.walk(x) if isinstance(y, ast.Name)}
      if names & {'args', 'kwargs'}:
        reorder = x
  ctor = [c for c in walk_no_nested(nw.node) if isinstance(c, ast.Call) and unparse(c.func) == 'cls']
  shape = ctor and unparse(kwarg(ctor[0], 'args')) == 'tuple(args)' and (
      'items()' in unparse(kwarg(ctor[0], 'kwargs')) or isinstance(kwarg(ctor[0], 'kwargs'), ast.Call))
  if reorder is not None or not ctor:
    ctx.fail(rule, nw, (reorder if reorder is not None else nw.node),
             'LazyFn.new reorders (or de-duplicates) the traced arguments:'
             ' lazy arguments are then evaluated, and passed to the callee, in'
             ' an order different from the eager call — results differ whenever'
             ' evaluation order is observable', node=reorder if reorder is not None else nw.node)
  else:
    ctx.ok(rule, nw, 'traced args/kwargs kept in call order', ctor[0])
  m = repo.func(LF, '_maybe_make')
  txt = unparse(m.node)
  p = m.params()[0]
  ok = (f'types.is_resolvable({p})' in txt and f'return {p}.result_()' in txt
        and f'return {p}' in txt and 'makeables[' in txt)
  if ok:
    ctx.ok(rule, m, '_maybe_make: resolvable -> result_(), maker, identity', m.node)
  else:
    ctx.fail(rule, m, '_maybe_make: result_() for resolvables, else maker, else the value',
             '_maybe_make no longer dereferences lazy values', node=m.node)
  ctx.floor(rule, 6)


def r3(ctx: Ctx):
  rule = 'R-C17-3'
  ctx.rule(rule, 'LRU bookkeeping: currsize is incremented exactly when the'
           ' key was new before the store; eviction removes next(iter(data))'
           ' only under currsize > maxsize and decrements; a hit moves the key'
           ' to the end and returns the stored value; a miss raises KeyError;'
           ' clear resets; len is currsize')
  repo = ctx.repo
  si = repo.func(FU, 'LruCache.__setitem__')
  g = cfgm.cfg_of(si.node)
  k = si.params()[1]
  store = [n for n in g.nodes if isinstance(n.ast, ast.Assign) and unparse(n.ast.targets[0]) == f'self.data[{k}]']
  newv = [n for n in g.nodes if isinstance(n.ast, ast.Assign) and unparse(n.ast.value) == f'{k} not in self.data']
  inc = [n for n in g.nodes if isinstance(n.ast, ast.AugAssign) and is_self_attr(n.ast.target, 'currsize')
         and isinstance(n.ast.op, ast.Add) and unparse(n.ast.value) == '1']
  dec = [n for n in g.nodes if isinstance(n.ast, ast.AugAssign) and is_self_attr(n.ast.target, 'currsize')
         and isinstance(n.ast.op, ast.Sub) and unparse(n.ast.value) == '1']
  dels = [n for n in g.nodes if isinstance(n.ast, ast.Delete)]
  problem = None
  if len(store) != 1 or len(newv) != 1 or len(inc) != 1:
    problem = 'store / newness test / increment are not each present once'
  else:
    nv = newv[0].ast.targets[0].id
    if g.dominates(lambda n: n is newv[0], store[0], cfgm.only_normal) is not None:
      problem = 'the key\'s newness is tested after the store (always "not new")'
    c = [n for n in g.nodes if n.kind == 'cond' and unparse(n.ast) == nv]
    if not c:
      problem = problem or 'currsize is incremented unconditionally'
    else:
      reach = g.reachable([g.entry], edge_ok=lambda a, b, lab: lab not in ('exc', 'close') and not (
          a in c and lab == 'true'))
      if inc[0] in reach:
        problem = problem or 'currsize is incremented for keys that already existed'
  if not problem:
    ev = [n for n in g.nodes if n.kind == 'cond' and unparse(n.ast) == cnorm('self.currsize > self.maxsize')]
    if not ev or len(dels) != 1 or len(dec) != 1:
      problem = 'eviction guard / delete / decrement are not each present once'
    else:
      reach = g.reachable([g.entry], edge_ok=lambda a, b, lab: lab not in ('exc', 'close') and not (
          a in ev and lab == 'true'))
      if dels[0] in reach or dec[0] in reach:
        problem = 'entries are evicted although the cache is not over its bound'
      old = [n for n in g.nodes if isinstance(n.ast, ast.Assign) and unparse(n.ast.value) == 'next(iter(self.data))']
      if not old or unparse(dels[0].ast.targets[0]) != f'self.data[{old[0].ast.targets[0].id}]':
        problem = problem or 'the evicted entry is not the oldest key next(iter(self.data))'
      if g.dominates(lambda n: n is store[0], ev[0], cfgm.only_normal) is not None:
        problem = problem or 'the bound is checked before the new entry is stored'
  if problem:
    ctx.fail(rule, si, 'LruCache.__setitem__', problem + ': size accounting drifts, the'
             ' bound is not enforced or the wrong entry is evicted', node=si.node)
  else:
    ctx.ok(rule, si, '__setitem__: new-key increment, bounded eviction of the oldest', si.node)
  gi = repo.func(FU, 'LruCache.__getitem__')
  g = cfgm.cfg_of(gi.node)
  k = gi.params()[1]
  mv = [n for n in g.nodes if f'self.data.move_to_end({k})' in (unparse(n.ast) if n.ast else '')]
  rets = [n for n in g.nodes if isinstance(n.ast, ast.Return)]
  miss = [n for n in g.nodes if isinstance(n.ast, ast.Raise) and 'KeyError' in unparse(n.ast)]
  val = [n for n in g.nodes if isinstance(n.ast, ast.Assign) and unparse(n.ast.value) == f'self.data[{k}]']
  ok = (mv and rets and miss and val and all(unparse(r.ast.value) == val[0].ast.targets[0].id for r in rets)
        and all(g.dominates(lambda n: n in mv, r, cfgm.only_normal) is None for r in rets))
  mc = [n for n in g.nodes if n.kind == 'cond' and unparse(n.ast) == f'{k} not in self.data']
  ok = ok and mc and all(m_ in g.reachable([s for s, lab in mc[0].succ if lab == 'true'], include_src=True) for m_ in miss)
  if ok:
    ctx.ok(rule, gi, '__getitem__: miss raises KeyError; hit moves to end and returns the value', gi.node)
  else:
    ctx.fail(rule, gi, 'LruCache.__getitem__: move_to_end(key) on hit, KeyError on miss',
             'a hit does not refresh the entry\'s recency (LRU order broken) or a'
             ' miss does not raise', node=gi.node)
  cc = repo.func(FU, 'LruCache.cache_clear')
  t = unparse(cc.node)
  if 'self.data.clear()' in t and 'self.currsize = 0' in t:
    ctx.ok(rule, cc, 'cache_clear resets data and currsize', cc.node)
  else:
    ctx.fail(rule, cc, 'LruCache.cache_clear: self.data.clear(); self.currsize = 0',
             'clearing leaves entries or a stale size behind', node=cc.node)
  ln = repo.func(FU, 'LruCache.__len__')
  if 'return self.currsize' in unparse(ln.node) or 'return len(self.data)' in unparse(ln.node):
    ctx.ok(rule, ln, '__len__ = currsize', ln.node)
  else:
    ctx.fail(rule, ln, 'LruCache.__len__: return self.currsize', '__len__ is wrong', node=ln.node)
  ci = repo.func(FU, 'LruCache.cache_insert')
  if 'self.__setitem__(key, value)' in unparse(ci.node) or 'self[key] = value' in unparse(ci.node):
    ctx.ok(rule, ci, 'cache_insert -> __setitem__', ci.node)
  else:
    ctx.fail(rule, ci, 'LruCache.cache_insert -> __setitem__', 'cache_insert bypasses the bookkeeping', node=ci.node)
  ctx.floor(rule, 5)


def _fields_in(e) -> set[str]:
  return {x.attr.lstrip('_') for x in ast.walk(e) if isinstance(x, ast.Attribute)
          and isinstance(x.value, ast.Name) and x.value.id in ('self', 'other')}


def r4(ctx: Ctx):
  rule = 'R-C17-4'
  ctx.rule(rule, 'hash/eq: __hash__ of LazyFn and LazyObject only uses fields'
           ' that __eq__ compares (equal objects hash equal); requesting a'
           ' result that is both cached and lazy is rejected')
  repo = ctx.repo
  for cls in ('LazyFn', 'LazyObject'):
    h = repo.func(LF, f'{cls}.__hash__')
    e = repo.func(LF, f'{cls}.__eq__')
    hf = set()
    for x in walk_no_nested(h.node):
      if isinstance(x, ast.Call) and unparse(x.func) == 'hash':
        hf |= _fields_in(x)
    ef = _fields_in(e.node)
    if hf and hf <= ef:
      ctx.ok(rule, h, f'{cls}.__hash__ fields {sorted(hf)} ⊆ __eq__ fields {sorted(ef)}', h.node)
    else:
      ctx.fail(rule, h, f'{cls}.__hash__ uses only fields compared by __eq__',
               f'{cls}.__hash__ uses {sorted(hf - ef)} which __eq__ ignores:'
               ' equal lazy values land in different cache slots (or unequal'
               ' ones collide systematically)', node=h.node)
  for qn in ('LazyObject.new', 'LazyObject.__call__'):
    f = repo.func(LF, qn)
    g = cfgm.cfg_of(f.node)
    c = [n for n in g.nodes if n.kind == 'cond' and isinstance(n.ast, ast.BoolOp) and isinstance(n.ast.op, ast.And)
         and {unparse(v).rstrip('_') for v in n.ast.values} == {'lazy_result', 'cache_result'}]
    ok = c and any(isinstance(s.ast, ast.Raise) and 'ValueError' in unparse(s.ast)
                   for n in c for s, lab in n.succ if lab == 'true')
    if ok:
      ctx.ok(rule, f, f'{qn}: lazy and cached together rejected', c[0].ast)
    else:
      ctx.fail(rule, f, f'{qn}: if lazy_result and cache_result: raise ValueError',
               'a result that is both lazy and cached is accepted', node=f.node)
  nw = repo.func(LF, 'LazyObject.new')
  t = unparse(nw.node)
  from mlmverif import pat
  mk = pat.search(nw.node, '$r = cls(value=None, _cache_result=True)')
  vp = nw.params()[1]
  if mk and pat.has(nw.node, f'{mk[0][1]["r"]}.result_.cache_insert({mk[0][1]["r"]}, {vp})') and any(
      isinstance(r_, ast.Return) and unparse(r_.value) == mk[0][1]['r'] for r_ in walk_no_nested(nw.node)):
    ctx.ok(rule, nw, 'cached LazyObject: value kept only in the cache', nw.node)
  else:
    ctx.fail(rule, nw, 'LazyObject.new(cache_result=True): cls(value=None, _cache_result=True) + cache_insert',
             'a cached lazy object is not registered in the cache under its own'
             ' handle', node=nw.node)
  ctx.floor(rule, 5)


def _memo_fields(repo, ci) -> set[str]:
  """Fields used as a memo: `if self.F is not None: return self.F` + a store."""
  from mlmverif import pat
  out = set()
  for c_ in repo.mro(ci):
    for m in c_.methods.values():
      for x in walk_no_nested(m.node):
        if isinstance(x, ast.If) and isinstance(x.test, ast.Compare) and isinstance(
            x.test.ops[0], ast.IsNot) and is_self_attr(x.test.left) and x.body and isinstance(
                x.body[0], ast.Return) and unparse(x.body[0].value) == unparse(x.test.left):
          f = x.test.left.attr
          stored = any(
              (isinstance(y, ast.Assign) and any(is_self_attr(t, f) for t in y.targets)) or (
                  isinstance(y, ast.Call) and unparse(y.func) in ('object.__setattr__', 'setattr')
                  and len(y.args) == 3 and getattr(y.args[1], 'value', None) == f)
              for y in walk_no_nested(m.node))
          if stored:
            out.add(f)
  return out


def r5(ctx: Ctx):
  rule = 'R-C17-5'
  ctx.rule(rule, '"also after a serialisation round trip": a custom'
           ' __getstate__ of the lazy classes (lazy_fns, tree_fns) returns a'
           ' copy of the whole instance dictionary; a key it removes or'
           ' overwrites must be a derived member (a cached property, or a memo'
           ' field that is recomputed when None; never another declared'
           ' field) — dropping a declared field (e.g. the traced callable)'
           ' makes the unpickled expression evaluate to something else')
  repo = ctx.repo
  n = 0
  for mod in (LF, 'chainables.tree_fns'):
    mi = repo.module(mod)
    for ci in mi.classes.values():
      gs = ci.methods.get('__getstate__')
      if gs is None:
        continue
      n += 1
      memo = _memo_fields(repo, ci)
      fields = {f.name for c_ in repo.mro(ci) for f in c_.fields} - memo
      full = ('dict(self.__dict__)', 'self.__dict__.copy()', '{**self.__dict__}',
              'copy.copy(self.__dict__)', 'self.__dict__')
      sv = None
      for x in walk_no_nested(gs.node):
        if isinstance(x, ast.Assign) and isinstance(x.targets[0], ast.Name) and unparse(x.value) in full:
          sv = x.targets[0].id
      rets = [x for x in walk_no_nested(gs.node) if isinstance(x, ast.Return) and x.value is not None]
      if not rets:
        raise AnalysisError(f'{rule}: {ci.name}.__getstate__ returns nothing')
      bad = None
      for r_ in rets:
        txt = unparse(r_.value)
        if txt in full or (sv is not None and txt == sv):
          continue
        bad = (r_, f'returns `{txt[:50]}`, not a copy of the instance dictionary')
      altered = []
      if sv is not None:
        for x in walk_no_nested(gs.node):
          if isinstance(x, ast.Call) and isinstance(x.func, ast.Attribute) and x.func.attr in (
              'pop', '__delitem__') and unparse(x.func.value) == sv and x.args:
            altered.append((x, x.args[0]))
          if isinstance(x, ast.Delete):
            for t in x.targets:
              if isinstance(t, ast.Subscript) and unparse(t.value) == sv:
                altered.append((x, t.slice))
          if isinstance(x, (ast.Assign, ast.AugAssign)):
            for t in (x.targets if isinstance(x, ast.Assign) else [x.target]):
              if isinstance(t, ast.Subscript) and unparse(t.value) == sv:
                altered.append((x, t.slice))
          if isinstance(x, ast.Call) and isinstance(x.func, ast.Attribute) and x.func.attr in (
              'clear', 'update', 'popitem') and unparse(x.func.value) == sv:
            bad = (x, f'rewrites the state with `{unparse(x)[:50]}`')
      for node, key in altered:
        if not (isinstance(key, ast.Constant) and isinstance(key.value, str)):
          bad = (node, f'alters a computed key `{unparse(key)[:30]}`')
        elif key.value in fields:
          bad = (node, f'drops or overwrites the declared field {key.value!r}')
      if bad:
        node, why = bad
        ctx.fail(rule, gs, f'{ci.name}.__getstate__ keeps every declared field',
                 f'{ci.name}.__getstate__ {why}: the object that arrives after a'
                 ' pickle round trip (every remote call pickles its lazy'
                 ' expression) no longer describes the same expression', node=node)
      else:
        ctx.ok(rule, gs, f'{ci.name}.__getstate__ keeps all {len(fields)} declared fields'
               f' ({len(altered)} derived key(s) dropped)', gs.node)
  ctx.floor(rule, 2, n)


def r6(ctx: Ctx):
  rule = 'R-C17-6'
  ctx.rule(rule, '"each materialisation without caching evaluates the expression'
           ' afresh": caching (and lazy results) of a derived expression is'
           ' only ever switched on by an explicit argument of the user — every'
           ' `cache_result=` / `lazy_result=` passed to LazyFn.new inside the'
           ' tracing API is a parameter of the enclosing function or False;'
           ' attribute/item expressions inherit nothing from their receiver')
  mi = ctx.repo.module(LF)
  fns = list(mi.functions.values()) + [m for c in mi.classes.values() for m in c.methods.values()]
  n = 0
  for fi in fns:
    params = set(fi.params())
    for c in ast.walk(fi.node):
      if not (isinstance(c, ast.Call) and unparse(c.func) in ('LazyFn.new', 'cls.new', 'LazyFn', 'LazyObject')):
        continue
      n += 1
      bad = None
      for k in c.keywords:
        if k.arg in ('cache_result', 'lazy_result'):
          v = k.value
          if isinstance(v, ast.Constant) and v.value in (False, None):
            continue
          if isinstance(v, ast.Name) and v.id in params:
            continue
          bad = (k.arg, v)
      if bad:
        ctx.fail(rule, fi, f'{fi.qualname}: {bad[0]}= comes from an explicit parameter',
                 f'{fi.qualname} builds a lazy expression with {bad[0]}={unparse(bad[1])[:40]},'
                 ' which is not an argument the caller passed: the derived'
                 ' expression is cached although no caching was requested, so a'
                 ' later materialisation returns a stale value (and a cleared'
                 ' object store no longer raises the missing-object error)', node=c)
      else:
        ctx.ok(rule, fi, f'{fi.qualname}: {unparse(c)[:50]}', c)
  ctx.floor(rule, 3, n)


def _truth_positions(fn):
  for x in ast.walk(fn):
    if isinstance(x, (ast.If, ast.While, ast.IfExp)):
      yield x.test
    if isinstance(x, ast.BoolOp):
      yield from x.values
    if isinstance(x, ast.UnaryOp) and isinstance(x.op, ast.Not):
      yield x.operand
    if isinstance(x, ast.comprehension):
      yield from x.ifs
    if isinstance(x, ast.Assert):
      yield x.test


def r7(ctx: Ctx):
  rule = 'R-C17-7'
  ctx.rule(rule, '"any nesting of traced callables, arguments ..." — a traced VALUE can be'
           ' anything (an ndarray, a DataFrame, 0, an empty list): the wrapped value'
           ' (`<x>.value` of LazyObject / LazyFn) is never used in a truth position (if /'
           ' not / and / or / assert / comprehension filter); presence is tested with'
           ' `is None`. bool() of a multi-element array raises, bool() of 0 or [] is False:'
           ' a truthiness test makes materialisation (and the log line the cached path'
           ' formats) fail or take the wrong branch for exactly those values')
  mi = ctx.repo.module(LF)
  fns = list(mi.functions.values()) + [m_ for c in mi.classes.values() for m_ in c.methods.values()]
  n = 0
  reads = 0
  for fi in fns:
    reads += sum(1 for x in ast.walk(fi.node) if isinstance(x, ast.Attribute) and x.attr == 'value'
                 and isinstance(x.ctx, ast.Load))
    for t in _truth_positions(fi.node):
      while isinstance(t, ast.UnaryOp) and isinstance(t.op, ast.Not):
        t = t.operand
      if isinstance(t, ast.Attribute) and t.attr == 'value':
        n += 1
        ctx.fail(rule, fi, f'{fi.qualname}: the wrapped value is tested with `is None`, not by truthiness',
                 f'`{unparse(t)}` stands in a truth position: for a traced ndarray bool() raises "truth value'
                 ' of an array is ambiguous", for 0 / [] / \'\' it is False although a value is present', node=t)
  if reads < 5:
    raise AnalysisError(f'{rule}: only {reads} reads of `.value` in lazy_fns (anchor changed)')
  if not n:
    ctx.ok(rule, fns[0], f'{reads} reads of `.value` in lazy_fns, none in a truth position', mi.tree if hasattr(mi, "tree") else fns[0].node)
  ctx.floor(rule, 1)


def r8(ctx: Ctx):
  rule = 'R-C17-8'
  ctx.rule(rule, '"attribute, item and call chains ... yield the value the same expression yields'
           ' eagerly": the tracing dunder methods of LazyObject (__getattr__, __getitem__, __call__)'
           ' record their arguments AS GIVEN — no parameter is re-bound or converted before it goes'
           ' into the LazyFn (a list key turned into a tuple makes arr[[0, 2]] evaluate as arr[0, 2])')
  ci = ctx.repo.cls(LF, 'LazyObject')
  n = 0
  for name in ('__getattr__', '__getitem__', '__call__'):
    fi = ci.methods.get(name)
    if fi is None:
      continue
    n += 1
    ps = set(fi.params()[1:])
    a = fi.node.args
    if a.vararg:
      ps.add(a.vararg.arg)
    if a.kwarg:
      ps.add(a.kwarg.arg)
    rebinds = [x for x in walk_no_nested(fi.node) if isinstance(x, (ast.Assign, ast.AugAssign, ast.AnnAssign)) and any(
        isinstance(t, ast.Name) and t.id in ps for tt in (x.targets if isinstance(x, ast.Assign) else [x.target])
        for t in ast.walk(tt))]
    if rebinds:
      ctx.fail(rule, fi, f'LazyObject.{name} records its arguments as given',
               f'`{unparse(rebinds[0])[:60]}` re-binds a traced argument before it is recorded: the materialised'
               ' expression then receives another value than the eager one (for a list key: tuple indexing'
               ' instead of fancy/list indexing)', node=rebinds[0])
    else:
      ctx.ok(rule, fi, f'LazyObject.{name}: arguments recorded unchanged', fi.node)
  ctx.floor(rule, 2, n)


def r9(ctx: Ctx):
  rule = 'R-C17-9'
  ctx.rule(rule, '"dereferencing a cached object that is no longer held raises a dedicated'
           ' missing-object error, never a stale or wrong value" across processes: handles carry an'
           ' id whose high part is a per-process random base; the function that folds the uuid into'
           ' that base combines DIFFERENT operands — no `x op x` with textually identical sides (x ^ x'
           ' is 0 for every uuid: every process then numbers its objects 0, 1, 2, ... and a handle'
           ' from another or a restarted process resolves to an unrelated local object)')
  mi = ctx.repo.module(LF)
  n = 0
  for fi in mi.functions.values():
    if 'uuid' not in fi.name and 'id' not in fi.name.lower().split('_'):
      continue
    for b in ast.walk(fi.node):
      if isinstance(b, ast.BinOp) and isinstance(b.op, (ast.BitXor, ast.Sub, ast.BitAnd, ast.BitOr, ast.Mod, ast.FloorDiv)):
        n += 1
        if ast.dump(b.left) == ast.dump(b.right):
          ctx.fail(rule, fi, f'{fi.name}: the fold combines two different operands',
                   f'`{unparse(b)[:70]}` combines an expression with itself: the result is a constant whatever'
                   ' the uuid was, so the per-process id base is the same in every process', node=b)
        else:
          ctx.ok(rule, fi, f'{fi.name}: `{unparse(b)[:40]}` has distinct operands', b)
  ctx.floor(rule, 1, n)


def r10(ctx: Ctx):
  rule = 'R-C17-10'
  ctx.rule(rule, '"attribute, item and call chains ... yield the value the same expression yields eagerly": the tracing'
           ' __getattr__ of a lazy object records EVERY attribute name except the dunder protocol names pickling / copying'
           ' probe for — each `raise AttributeError` in it is guarded by a condition whose conjuncts include both'
           ' `name.startswith(\'__\')` and `name.endswith(\'__\')`. A wider refusal (any leading underscore) makes'
           ' `trace(nt)._asdict()`, `._replace(...)`, `._fields` or a private attribute raise where the eager chain yields'
           ' a value')
  ci = ctx.repo.cls(LF, 'LazyObject')
  fi = ci.methods.get('__getattr__')
  if fi is None:
    raise AnalysisError('LazyObject.__getattr__ not found')
  name = fi.params()[1]
  g = cfgm.cfg_of(fi.node)
  raises = [nd for nd in g.nodes if isinstance(nd.ast, ast.Raise)]
  if not raises:
    raise AnalysisError('LazyObject.__getattr__ refuses nothing: the dunder guard that keeps pickling working is gone')
  n = 0

  def gen(nd, lab):
    if nd.kind != 'cond':
      return ()
    out = []
    for c in cfgm.truthy_conjuncts(nd.ast, lab):
      if isinstance(c, ast.Call) and isinstance(c.func, ast.Attribute) and unparse(c.func.value) == name and c.func.attr in (
          'startswith', 'endswith') and len(c.args) == 1 and isinstance(c.args[0], ast.Constant):
        out.append((c.func.attr, c.args[0].value))
    return out

  facts = cfgm.must_facts(g, gen, lambda nd, fact: False)
  for r_ in raises:
    n += 1
    have = set(facts.get(r_, ()))
    ok = ('startswith', '__') in have and ('endswith', '__') in have
    what = 'LazyObject.__getattr__ refuses dunder names only'
    if ok:
      ctx.ok(rule, fi, what, r_.ast)
    else:
      ctx.fail(rule, fi, what,
               f'`{unparse(r_.ast)}` (line {r_.lineno}) is reached knowing only {sorted(have) or "nothing"} about `{name}`: names'
               ' that are not dunders are refused instead of traced — `trace(obj)._field` raises AttributeError although'
               ' the eager `obj._field` yields a value', node=r_.ast)
  ctx.floor(rule, 1, n)


def r11(ctx: Ctx):
  rule = 'R-C17-11'
  ctx.rule(rule, '"materialising a traced expression ... yields the value the eager expression yields" — also when lazy and'
           ' plain arguments meet in the result cache: an uncached lazy object hashes like the value it wraps, so dict'
           ' lookups and tuple comparisons call its __eq__ with PLAIN values. Every __eq__ of the lazy classes therefore'
           ' tests the operand\'s type (isinstance) before it reads an attribute of it; the sibling implementations agree'
           ' (LazyFn.__eq__ checks, LazyObject.__eq__ must as well). Otherwise `f(3)` cached, then `f(trace(3))`: the cache'
           ' lookup raises AttributeError instead of evaluating')
  mi = ctx.repo.module(LF)
  n = 0
  for ci in mi.classes.values():
    fi = ci.methods.get('__eq__')
    if fi is None or len(fi.params()) < 2:
      continue
    other = fi.params()[1]
    g = cfgm.cfg_of(fi.node)

    def gen(nd, lab):
      if nd.kind != 'cond':
        return ()
      return [('isinst',) for c in cfgm.truthy_conjuncts(nd.ast, lab)
              if isinstance(c, ast.Call) and unparse(c.func) == 'isinstance' and c.args and unparse(c.args[0]) == other]

    facts = cfgm.must_facts(g, gen, lambda nd, fact: False)
    n += 1
    bad = None
    for nd in g.nodes:
      if nd.ast is None or nd.kind not in ('stmt', 'cond'):
        continue
      for top in [nd.ast]:
        pm = parent_map(top)
        for x in ast.walk(top):
          if not (isinstance(x, ast.Attribute) and isinstance(x.value, ast.Name) and x.value.id == other):
            continue
          if ('isinst',) in facts.get(nd, ()):
            continue
          # guarded inside the expression: `isinstance(other, T) and (... other.attr ...)`
          q, guarded = x, False
          while q in pm:
            par = pm[q]
            if isinstance(par, ast.BoolOp) and isinstance(par.op, ast.And):
              idx = next(i for i, v in enumerate(par.values) if any(y is q for y in ast.walk(v)))
              if any(isinstance(v, ast.Call) and unparse(v.func) == 'isinstance' and v.args and unparse(v.args[0]) == other
                     for v in par.values[:idx]):
                guarded = True
            q = par
          if not guarded:
            bad = bad or x
    what = f'{ci.name}.__eq__: the operand\'s type is tested before its attributes are read'
    if bad is None:
      ctx.ok(rule, fi, what, fi.node)
    else:
      ctx.fail(rule, fi, what,
               f'{ci.name}.__eq__ reads `{unparse(bad)}` without an isinstance test of `{other}`: a lazy object hashes like the'
               ' value it wraps, so it is compared with plain values in dict lookups and tuple comparisons (the result cache'
               ' compares argument tuples) — that comparison raises AttributeError and the lazy call fails where the eager'
               ' call returns a value', node=bad)
  ctx.floor(rule, 2, n)


def r12(ctx: Ctx):
  rule = 'R-C17-12'
  ctx.rule(rule, '"a cached call evaluates once and afterwards returns the identical object": when the structural hash of a lazy'
           ' call is impossible (unhashable arguments: lists, dicts, arrays) the hash falls back to the IDENTITY of the'
           ' expression — the TypeError handler of __hash__ returns a hash of the id only. A structural fallback (callee,'
           ' arity, keyword names) puts distinct expressions over unhashable arguments into one bucket, and the cache lookup'
           ' then compares those arguments with `==`: multi-element arrays raise "truth value ... is ambiguous", equal-looking'
           ' arguments of different kinds are served each other\'s result')
  mi = ctx.repo.module(LF)
  n = 0
  for ci in mi.classes.values():
    fi = ci.methods.get('__hash__')
    if fi is None:
      continue
    for h in ast.walk(fi.node):
      if not (isinstance(h, ast.ExceptHandler) and h.type is not None and 'TypeError' in unparse(h.type)):
        continue
      for r_ in ast.walk(h):
        if isinstance(r_, ast.Return) and r_.value is not None:
          n += 1
          names = {unparse(y) for y in ast.walk(r_.value) if isinstance(y, ast.Attribute) and isinstance(y.value, ast.Name) and y.value.id == 'self'}
          ok = bool(names) and names <= {'self.id', 'self._id'}
          what = f'{ci.name}.__hash__: unhashable expressions hash by identity'
          if ok or unparse(r_.value) == 'id(self)':
            ctx.ok(rule, fi, what, r_)
          else:
            ctx.fail(rule, fi, what,
                     f'`{unparse(r_)[:70]}` in the TypeError fallback of {ci.name}.__hash__ hashes {sorted(names)}: distinct'
                     ' expressions whose arguments cannot be hashed collide, and the cache lookup falls through to a deep `==`'
                     ' of those arguments — it raises for arrays and conflates equal-looking arguments', node=r_)
  ctx.floor(rule, 1, n)


def r13(ctx: Ctx):
  rule = 'R-C17-13'
  ctx.rule(rule, '"evaluates to what the eager expression would": an exception raised by a sub-expression reaches the caller as'
           ' the exception the eager call raises. The interpreter rewrites a StopIteration raised INSIDE a generator into'
           ' RuntimeError (PEP 479), so no materialisation call (_maybe_make / maybe_make / result_) of the lazy module sits'
           ' in the element or a condition of a generator expression, or in the body of a generator function: a traced'
           ' `f(next(it))` over an exhausted iterator must raise StopIteration as `f(next(it))` does, wherever the'
           ' sub-expression stands')
  mi = ctx.repo.module(LF)
  n = 0
  mk = {'_maybe_make', 'maybe_make', 'result_'}
  for fi in [*mi.functions.values(), *(m for c in mi.classes.values() for m in c.methods.values())]:
    pm = None
    for c in walk_no_nested(fi.node):
      if not (isinstance(c, ast.Call) and ((isinstance(c.func, ast.Name) and c.func.id in mk) or
                                           (isinstance(c.func, ast.Attribute) and c.func.attr in mk))):
        continue
      n += 1
      if pm is None:
        pm = parent_map(fi.node)
      bad = None
      cur, child = pm.get(c), c
      while cur is not None and cur is not fi.node:
        if isinstance(cur, ast.GeneratorExp) and not (child is cur.generators[0] and _within(c, cur.generators[0].iter)):
          bad = cur
          break
        child, cur = cur, pm.get(cur)
      is_gen_fn = any(isinstance(y, (ast.Yield, ast.YieldFrom)) for y in walk_no_nested(fi.node))
      what = f'{fi.qualname}: `{unparse(c)[:40]}` is evaluated outside any generator frame'
      if bad is not None:
        ctx.fail(rule, fi, what,
                 f'`{unparse(bad)[:70]}` evaluates a lazy sub-expression inside a generator expression: a StopIteration raised'
                 ' by that sub-expression is turned into RuntimeError("generator raised StopIteration"), where the eager call'
                 ' raises StopIteration', node=bad)
      elif is_gen_fn:
        ctx.fail(rule, fi, what,
                 f'{fi.qualname} is a generator function and materialises `{unparse(c)[:40]}` in its body: a StopIteration from'
                 ' the sub-expression becomes RuntimeError', node=c)
      else:
        ctx.ok(rule, fi, what, c)
  ctx.floor(rule, 4, n)


def r14(ctx: Ctx):
  rule = 'R-C17-14'
  ctx.rule(rule, '"lazy expressions evaluate to what the eager expression would", nested ones included: evaluating a cached'
           ' expression evaluates its argument expressions through the SAME cache wrapper (result_ -> _maybe_make ->'
           ' result_). The wrapper therefore never calls the evaluation (`fn(x)`) while it holds a non-reentrant lock'
           ' (threading.Lock): the nested cached call would wait for the lock its own caller holds — a cached call inside'
           ' a cached call never returns. (A threading.RLock, or a lock released before the evaluation, is fine.)')
  mi = ctx.repo.module(LF)
  fi = mi.functions.get('_maybe_lru_cache')
  if fi is None:
    raise AnalysisError('_maybe_lru_cache not found')
  # names bound to a non-reentrant lock anywhere in the decorator's scopes or at module level
  plain = set()
  for x in list(ast.walk(fi.node)) + list(mi.tree.body):
    if isinstance(x, ast.Assign) and isinstance(x.value, ast.Call) and unparse(x.value.func) in ('threading.Lock', 'Lock', 'threading.Semaphore',
                                                                                              'threading.BoundedSemaphore', 'threading.Condition'):
      if unparse(x.value.func).endswith('Condition') and x.value.args and 'RLock' in unparse(x.value.args[0]):
        continue
      plain |= {unparse(t) for t in x.targets}
  wrapped = [x for x in ast.walk(fi.node) if isinstance(x, ast.FunctionDef) and x.name != fi.node.name and any(
      isinstance(c, ast.Call) and isinstance(c.func, ast.Name) and c.func.id == 'fn' for c in ast.walk(x))]
  n = 0
  for w in wrapped:
    pm = parent_map(w)
    for c in ast.walk(w):
      if not (isinstance(c, ast.Call) and isinstance(c.func, ast.Name) and c.func.id == 'fn'):
        continue
      n += 1
      held = None
      q = c
      while q in pm:
        q = pm[q]
        if isinstance(q, (ast.With, ast.AsyncWith)):
          for it in q.items:
            if unparse(it.context_expr) in plain:
              held = it.context_expr
      what = f'_maybe_lru_cache.{w.name}: `{unparse(c)}` runs with no non-reentrant lock held'
      if held is not None:
        ctx.fail(rule, fi, what,
                 f'`{unparse(c)}` is evaluated inside `with {unparse(held)}:` and `{unparse(held)}` is a non-reentrant lock: the'
                 ' evaluation materialises its lazy arguments through this same wrapper, which then blocks on the lock its'
                 ' caller holds — any cached expression with a cached sub-expression hangs', node=c)
      else:
        ctx.ok(rule, fi, what, c)
  ctx.floor(rule, 2, n)


def _within(node, root):
  return any(y is node for y in ast.walk(root))


def r15(ctx: Ctx):
  rule = 'R-C17-15'
  ctx.rule(rule, '"evaluates to what the eager expression would ... also after a serialisation round trip": every value passes the'
           ' maker registry on its way (`makeables[type(x)]`), so the registry must find a maker for exactly the registered'
           ' class and for that class again after it was pickled BY VALUE to another process (a class of __main__ is rebuilt'
           ' as a new type object there). The writer (`register`) and the reader (`__getitem__`) of _Makers key the table'
           ' with the same expression, and that expression is `repr(<type>)` — module-qualified text: the bare type object'
           ' misses the rebuilt class, `__qualname__` / `__name__` alone collide for same-named classes of other modules'
           ' (a plain value is then handed to a foreign maker)')
  ci = ctx.repo.cls(LF, '_Makers')
  reg, get = ci.methods.get('register'), ci.methods.get('__getitem__')
  if reg is None or get is None:
    raise AnalysisError(f'{rule}: _Makers.register / __getitem__ not found')
  def key_of(fi, writer):
    p = fi.params()[1]
    for x in ast.walk(fi.node):
      if writer and isinstance(x, ast.Assign) and isinstance(x.targets[0], ast.Subscript) and unparse(x.targets[0].value) == 'self.data':
        return x.targets[0].slice, p
      if not writer and isinstance(x, ast.Call) and unparse(x.func) in ('self.data.get',) and x.args:
        return x.args[0], p
      if not writer and isinstance(x, ast.Subscript) and unparse(x.value) == 'self.data' and isinstance(x.ctx, ast.Load):
        return x.slice, p
    raise AnalysisError(f'{rule}: cannot find the table access of _Makers.{fi.name}')
  (kw, pw), (kr, pr) = key_of(reg, True), key_of(get, False)
  norm = lambda k, p: unparse(k).replace(p, '<T>')
  n = 2
  same = norm(kw, pw) == norm(kr, pr)
  what = '_Makers: register and __getitem__ key the table with the same expression'
  if same:
    ctx.ok(rule, reg, what, kw)
  else:
    ctx.fail(rule, reg, what, f'register keys with `{unparse(kw)}`, __getitem__ looks up `{unparse(kr)}`: registered makers are never found',
             node=kw)
  what = '_Makers: the key is the module-qualified text of the type (repr)'
  for k, p, fi in ((kw, pw, reg), (kr, pr, get)):
    if norm(k, p) == 'repr(<T>)':
      continue
    ctx.fail(rule, fi, what,
             f'_Makers.{fi.name} keys the registry with `{unparse(k)}`: ' + (
                 'the type OBJECT is another one after the class was pickled by value to a server — its maker is not found'
                 ' there and the expression is evaluated with the un-made value' if norm(k, p) == '<T>' else
                 'that text is not module-qualified (or not a function of the type alone): a same-named class of another'
                 ' module shares the key, and a plain value of that class is handed to the foreign maker'), node=k)
    break
  else:
    ctx.ok(rule, reg, what, kw)
  ctx.floor(rule, 2, n)


def r16(ctx: Ctx):
  rule = 'R-C17-16'
  ctx.rule(rule, '"a cached call evaluates once ... also after a serialisation round trip": `__hash__` of the lazy classes is PURE —'
           ' it stores nothing on the instance (no `self.__dict__[...] = `, no object.__setattr__, no attribute store). The'
           ' hash of an expression depends on the interpreter (string hash seed, object ids); `__getstate__` ships the'
           ' instance dict, so a memoised hash travels with the pickle and the shipped expression hashes differently from'
           ' the equal expression built on the server: two cache entries, the cached call is evaluated twice')
  mi = ctx.repo.module(LF)
  n = 0
  for ci in mi.classes.values():
    fi = ci.methods.get('__hash__')
    if fi is None:
      continue
    n += 1
    bad = None
    for x in ast.walk(fi.node):
      if isinstance(x, (ast.Assign, ast.AugAssign, ast.AnnAssign)):
        for t in (x.targets if isinstance(x, ast.Assign) else [x.target]):
          for y in ast.walk(t):
            if isinstance(y, (ast.Attribute, ast.Subscript)) and any(isinstance(z, ast.Name) and z.id == 'self' for z in ast.walk(y)):
              bad = x
      if isinstance(x, ast.Call) and (unparse(x.func).endswith('__setattr__') or unparse(x.func) in ('setattr',) or (
          isinstance(x.func, ast.Attribute) and x.func.attr in ('setdefault', 'update') and 'self' in unparse(x.func.value))):
        bad = x
    what = f'{ci.name}.__hash__ stores nothing on the instance'
    if bad is not None:
      ctx.fail(rule, fi, what,
               f'`{unparse(bad)[:70]}` memoises the hash on the instance: the memo is pickled with the expression and is wrong in'
               ' the receiving interpreter — equal expressions no longer share a cache entry there', node=bad)
    else:
      ctx.ok(rule, fi, what, fi.node)
  ctx.floor(rule, 1, n)


def r17(ctx: Ctx):
  rule = 'R-C17-17'
  ctx.rule(rule, '"a missing cached object raises the dedicated error" — and never resolves to ANOTHER object: handles are keyed by'
           ' id alone, so the per-process id counter must not wrap within the life of a process. The module-level'
           ' `IncrementId(id_len=<n>)` of lazy_fns.py is built with a literal length of at least 8 bytes (2**64 ids); a'
           ' 2- or 4-byte counter hands the id of a live or evicted handle to a new object after 2**16 / 2**32 creations')
  mi = ctx.repo.module(LF)
  n = 0
  for st in mi.tree.body:
    if isinstance(st, ast.Assign) and isinstance(st.value, ast.Call) and unparse(st.value.func) == 'IncrementId':
      n += 1
      k = kwarg(st.value, 'id_len') or (st.value.args[0] if st.value.args else None)
      anchor = next(iter(mi.functions.values()))
      what = f'lazy_fns.{unparse(st.targets[0])}: the id counter is at least 8 bytes wide'
      if isinstance(k, ast.Constant) and isinstance(k.value, int) and k.value >= 8:
        ctx.ok(rule, anchor, what, st)
      else:
        ctx.fail(rule, anchor, what,
                 f'`{unparse(st)}`: the counter wraps after 2**({unparse(k) if k is not None else "?"}*8) objects — a later handle gets the id'
                 ' of an earlier one, an evicted handle dereferences to the newer object instead of raising LazyObjectMissingError',
                 node=st)
  ctx.floor(rule, 1, n)


def r18(ctx: Ctx):
  rule = 'R-C17-18'
  ctx.rule(rule, '"a cached call evaluates once and afterwards returns the identical object" — whatever it evaluated to: on a cache'
           ' miss the wrapper stores the result UNCONDITIONALLY. The store `cache[x] = <result>` is not nested under a test of'
           ' the result (`if result is not None:`): a cached call whose value is None (a side-effect function, a dict.get'
           ' miss) would be evaluated again at every materialisation, and twice within one expression that uses it twice')
  mi = ctx.repo.module(LF)
  fi = mi.functions.get('_maybe_lru_cache')
  if fi is None:
    raise AnalysisError('_maybe_lru_cache not found')
  pm = parent_map(fi.node)
  n = 0
  for x in ast.walk(fi.node):
    if not (isinstance(x, ast.Assign) and isinstance(x.targets[0], ast.Subscript) and isinstance(x.value, ast.Name)):
      continue
    n += 1
    val = x.value.id
    guard = None
    q = x
    while q in pm:
      q = pm[q]
      if isinstance(q, ast.If) and any(isinstance(y, ast.Name) and y.id == val for y in ast.walk(q.test)):
        guard = q
    what = f'_maybe_lru_cache: `{unparse(x)[:40]}` stores every result of a miss'
    if guard is not None:
      ctx.fail(rule, fi, what,
               f'the store runs only under `{unparse(guard.test)}`: results that fail the test are never cached and the call is'
               ' evaluated again each time', node=x)
    else:
      ctx.ok(rule, fi, what, x)
  ctx.floor(rule, 1, n)


def r19(ctx: Ctx):
  rule = 'R-C17-19'
  ctx.rule(rule, '"a cached call evaluates once": two traced expressions are the same call when their parts are EQUAL. `__eq__` of'
           ' the lazy classes compares the wrapped values with `==`, never with `is`: every `obj.method` access builds a new'
           ' bound-method object that is equal but not identical to the previous one, so re-building the same cached'
           ' expression over a method would miss the cache and run the (stateful) method again')
  mi = ctx.repo.module(LF)
  n = 0
  for ci in mi.classes.values():
    fi = ci.methods.get('__eq__')
    if fi is None:
      continue
    n += 1
    bad = [c for c in ast.walk(fi.node) if isinstance(c, ast.Compare) and any(isinstance(o, (ast.Is, ast.IsNot)) for o in c.ops)
           and isinstance(c.left, ast.Attribute) and c.left.attr in ('value', 'args', 'kwargs')
           and any(isinstance(k, ast.Attribute) and k.attr == c.left.attr for k in c.comparators)]
    what = f'{ci.name}.__eq__ compares the traced parts by value'
    if bad:
      ctx.fail(rule, fi, what, f'`{unparse(bad[0])}` compares by identity: equal bound methods / equal argument tuples built at different'
               ' times make two cache entries for one expression', node=bad[0])
    else:
      ctx.ok(rule, fi, what, fi.node)
  ctx.floor(rule, 2, n)


from mlmverif.selfcheck import B, OK  # noqa: E402

_L = 'chainables/lazy_fns.py'
_F = 'utils/func_utils.py'
VARIANTS = [
    OK('cache-hit-through-a-local', 'chainables/lazy_fns.py',
       "          result = lazy_obj_cache[x]\n", "          cached = lazy_obj_cache[x]\n          result = cached\n"),
    OK('made-value-through-a-local', 'chainables/lazy_fns.py',
       "    return maybe_lazy.result_()", "    made = maybe_lazy.result_()\n    return made"),
    OK('miss-stored-through-a-named-value', 'chainables/lazy_fns.py',
       "            result = fn(x)\n            lazy_obj_cache[x] = result\n            return result", "            value = fn(x)\n            result = value\n            lazy_obj_cache[x] = result\n            return result"),
    B('none-results-not-cached', 'chainables/lazy_fns.py',
      "            result = fn(x)\n            lazy_obj_cache[x] = result\n            return result", "            result = fn(x)\n            if result is not None:\n              lazy_obj_cache[x] = result\n            return result", 'R-C17-18'),
    B('traced-callables-compared-by-identity', 'chainables/lazy_fns.py',
      "    if not self._cache_result and not other._cache_result:\n      return self.value == other.value", "    if not self._cache_result and not other._cache_result:\n      if callable(self.value) and callable(other.value):\n        return self.value is other.value\n      return self.value == other.value", 'R-C17-19'),
    B('id-counter-four-bytes', 'chainables/lazy_fns.py',
      "_increment_id = IncrementId(id_len=8)", "_increment_id = IncrementId(id_len=4)", 'R-C17-17'),
    OK('makers-key-through-a-helper-free-local', 'chainables/lazy_fns.py',
       "    self.data[repr(type_)] = maker", "    self.data[repr(type_)] = maker\n    del maker"),
    OK('hash-through-a-local-tuple', 'chainables/lazy_fns.py',
       "    try:\n      return hash((self.value, self.args, self.kwargs))\n    except TypeError:\n      return hash(self.id)", "    try:\n      parts = (self.value, self.args, self.kwargs)\n      return hash(parts)\n    except TypeError:\n      return hash(self.id)"),
    B('makers-keyed-by-the-type-object', 'chainables/lazy_fns.py',
      "    self.data[repr(type_)] = maker", "    self.data[type_] = maker", 'R-C17-15',
      extra=(('chainables/lazy_fns.py', "    return self.data.get(repr(type_), None)", "    return self.data.get(type_, None)"),)),
    B('makers-keyed-by-qualname', 'chainables/lazy_fns.py',
      "    self.data[repr(type_)] = maker", "    self.data[type_.__qualname__] = maker", 'R-C17-15',
      extra=(('chainables/lazy_fns.py', "    return self.data.get(repr(type_), None)", "    return self.data.get(type_.__qualname__, None)"),)),
    B('hash-memoised-in-the-instance-dict', 'chainables/lazy_fns.py',
      "    try:\n      return hash((self.value, self.args, self.kwargs))\n    except TypeError:\n      return hash(self.id)",
      "    if '_hash' in self.__dict__:\n      return self.__dict__['_hash']\n    try:\n      result = hash((self.value, self.args, self.kwargs))\n    except TypeError:\n      result = hash(self.id)\n    self.__dict__['_hash'] = result\n    return result", 'R-C17-16'),
    B('cache-miss-evaluated-under-a-plain-lock', 'chainables/lazy_fns.py',
      "    lazy_obj_cache = func_utils.LruCache(maxsize=maxsize)\n", "    lazy_obj_cache = func_utils.LruCache(maxsize=maxsize)\n    import threading\n    cache_lock = threading.Lock()\n", 'R-C17-14',
      extra=(('chainables/lazy_fns.py', "            result = fn(x)\n            lazy_obj_cache[x] = result\n            return result",
              "            with cache_lock:\n              result = fn(x)\n              lazy_obj_cache[x] = result\n            return result"),)),
    OK('cache-miss-evaluated-under-a-reentrant-lock', 'chainables/lazy_fns.py',
       "    lazy_obj_cache = func_utils.LruCache(maxsize=maxsize)\n", "    lazy_obj_cache = func_utils.LruCache(maxsize=maxsize)\n    import threading\n    cache_lock = threading.RLock()\n",
       extra=(('chainables/lazy_fns.py', "            result = fn(x)\n            lazy_obj_cache[x] = result\n            return result",
               "            with cache_lock:\n              result = fn(x)\n              lazy_obj_cache[x] = result\n            return result"),)),
    B('revert-args-materialised-in-generator-expression', 'chainables/lazy_fns.py',
      "      args = [_maybe_make(arg) for arg in self.args]", "      args = tuple(_maybe_make(arg) for arg in self.args)", 'R-C17-13'),
    B('kwargs-materialised-in-generator-expression', 'chainables/lazy_fns.py',
      "      kwargs = {k: _maybe_make(v) for k, v in self.kwargs}", "      kwargs = dict((k, _maybe_make(v)) for k, v in self.kwargs)", 'R-C17-13'),
    OK('args-materialised-in-explicit-loop', 'chainables/lazy_fns.py',
       "      args = [_maybe_make(arg) for arg in self.args]", "      args = []\n      for arg in self.args:\n        args.append(_maybe_make(arg))"),
    OK('args-materialised-by-map', 'chainables/lazy_fns.py',
       "      args = [_maybe_make(arg) for arg in self.args]", "      args = tuple(map(_maybe_make, self.args))"),
    B('hash-fallback-structural', 'chainables/lazy_fns.py',
      "    except TypeError:\n      return hash(self.id)\n\n  def __eq__(self, other: Self):", "    except TypeError:\n      return hash((self.value, len(self.args)))\n\n  def __eq__(self, other: Self):", 'R-C17-12'),
    B('revert-lazy-object-eq-without-type-check', 'chainables/lazy_fns.py',
      "    if not isinstance(other, LazyObject):\n      return False\n    if self.id == other.id:", "    if self.id == other.id:", 'R-C17-11'),
    OK('lazy-object-eq-returns-notimplemented', 'chainables/lazy_fns.py',
       "    if not isinstance(other, LazyObject):\n      return False\n    if self.id == other.id:", "    if not isinstance(other, LazyObject):\n      return NotImplemented\n    if self.id == other.id:"),
    B('getattr-refuses-every-underscore-name', 'chainables/lazy_fns.py',
      "    if name.startswith('__') and name.endswith('__'):\n      raise AttributeError", "    if name.startswith('_'):\n      raise AttributeError(name)", 'R-C17-10'),
    OK('getattr-dunder-guard-nested', 'chainables/lazy_fns.py',
       "    if name.startswith('__') and name.endswith('__'):\n      raise AttributeError", "    if name.startswith('__'):\n      if name.endswith('__'):\n        raise AttributeError(name)"),
    B('list-key-recorded-as-tuple', 'chainables/lazy_fns.py',
      '  def __getitem__(self, key) -> LazyFn:\n    return LazyFn.new(operator.getitem, args=(self, key))',
      '  def __getitem__(self, key) -> LazyFn:\n    if isinstance(key, list):\n      key = tuple(key)\n    return LazyFn.new(operator.getitem, args=(self, key))', 'R-C17-8'),
    B('uuid-fold-of-one-half-with-itself', 'chainables/lazy_fns.py',
      "  b = int.from_bytes(b[:new_len], 'big') ^ int.from_bytes(b[new_len:], 'big')",
      "  b = int.from_bytes(b[:new_len], 'big') ^ int.from_bytes(b[:new_len], 'big')", 'R-C17-9'),
    B('wrapped-value-tested-by-truthiness', 'chainables/lazy_fns.py',
      "    if self.value is None:\n      return f'LazyObject(id={self.id})'", "    if not self.value:\n      return f'LazyObject(id={self.id})'", 'R-C17-7'),
    OK('wrapped-value-presence-inverted', 'chainables/lazy_fns.py',
       "    if self.value is None:\n      return f'LazyObject(id={self.id})'", "    if not (self.value is not None):\n      return f'LazyObject(id={self.id})'"),
    B('args-before-callee', _L,
      '      fn = _maybe_make(self.value)\n      if not callable(fn):\n        raise TypeError(f\'fn is not callable from {self}.\')\n      args = [_maybe_make(arg) for arg in self.args]\n      kwargs = {k: _maybe_make(v) for k, v in self.kwargs}',
      '      args = [_maybe_make(arg) for arg in self.args]\n      kwargs = {k: _maybe_make(v) for k, v in self.kwargs}\n      fn = _maybe_make(self.value)\n      if not callable(fn):\n        raise TypeError(f\'fn is not callable from {self}.\')',
      'R-C17-2'),
    B('kwargs-before-args', _L,
      '      args = [_maybe_make(arg) for arg in self.args]\n      kwargs = {k: _maybe_make(v) for k, v in self.kwargs}',
      '      kwargs = {k: _maybe_make(v) for k, v in self.kwargs}\n      args = [_maybe_make(arg) for arg in self.args]',
      'R-C17-2'),
    B('getattr-inherits-cache-flag', _L,
      '    return LazyFn.new(getattr, args=(self, name))',
      '    return LazyFn.new(getattr, args=(self, name), cache_result=self._cache_result)', 'R-C17-6'),
    B('getstate-drops-value-of-cached', _L,
      '  def __getstate__(self):\n    return dict(self.__dict__)',
      "  def __getstate__(self):\n    state = dict(self.__dict__)\n    if self._cache_result:\n      state['value'] = None\n    return state",
      'R-C17-5'),
    OK('getstate-via-local-copy', _L,
       '  def __getstate__(self):\n    return dict(self.__dict__)',
       '  def __getstate__(self):\n    state = self.__dict__.copy()\n    return state'),
    B('treefn-getstate-drops-fn', 'chainables/tree_fns.py',
      "    state.pop('_lazy', None)\n", "    state.pop('_lazy', None)\n    state.pop('fn', None)\n", 'R-C17-5'),
    B('kwargs-sorted', _L, '        kwargs=tuple((kwargs or {}).items()),',
      '        kwargs=tuple(sorted((kwargs or {}).items())),', 'R-C17-2'),
    B('uncached-reads-cache', _L, '      else:\n        return fn(x)\n\n    wrapped_fn.cache_info',
      '      else:\n        if x in lazy_obj_cache:\n          return lazy_obj_cache[x]\n        return fn(x)\n\n    wrapped_fn.cache_info',
      'R-C17-1'),
    B('miss-not-stored', _L, '            result = fn(x)\n            lazy_obj_cache[x] = result\n            return result',
      '            result = fn(x)\n            return result', 'R-C17-1'),
    B('missing-object-evaluated', _L,
      "          else:\n            raise LazyObjectMissingError(\n                f'{x} is missing, if this is remote, the worker'\n                ' might have been restarted.'\n            ) from e",
      '          else:\n            return fn(x)', 'R-C17-1'),
    B('kwargs-not-materialised', _L, '      kwargs = {k: _maybe_make(v) for k, v in self.kwargs}',
      '      kwargs = {k: v for k, v in self.kwargs}', 'R-C17-2'),
    B('result-not-materialised', _L, '      result = _maybe_make(fn(*args, **kwargs))',
      '      result = fn(*args, **kwargs)', 'R-C17-2'),
    B('lru-newness-after-store', _F,
      '    key_is_new = key not in self.data\n    self.data[key] = value\n',
      '    self.data[key] = value\n    key_is_new = key not in self.data\n', 'R-C17-3'),
    B('lru-evicts-newest', _F, '      oldest = next(iter(self.data))',
      '      oldest = next(reversed(self.data))', 'R-C17-3'),
    B('lru-hit-no-refresh', _F, '    value = self.data[key]\n    self.data.move_to_end(key)\n    return value',
      '    value = self.data[key]\n    return value', 'R-C17-3'),
    B('lru-evict-at-bound', _F, '    if self.currsize > self.maxsize:', '    if self.currsize >= self.maxsize:',
      'R-C17-3'),
    B('hash-uses-id', _L, '      return hash((self.value, self.args, self.kwargs))',
      '      return hash((self.value, self.args, self.kwargs, self._lazy_result))', 'R-C17-4'),
    OK('lru-size-via-len', _F, '  def __len__(self) -> int:\n    return self.currsize',
       '  def __len__(self) -> int:\n    return len(self.data)'),
]
