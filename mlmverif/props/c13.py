"""C13 — parallel iteration yields the sequential multiset and releases threads.

Structural part: a shared input is lock-wrapped before fan-out, the producer
count declared to the queue equals the number of submitted enqueue tasks,
return values are forwarded, and every terminal path stops queue and pool.
"""
from __future__ import annotations

import ast

from mlmverif import cfg as cfgm
from mlmverif.core import (parent_map, AnalysisError, Ctx, FuncInfo, is_self_attr, kwarg,
                           unparse, walk_no_nested)
from mlmverif.locks import LockEngine, ls_has
from mlmverif.props import c05
from mlmverif.props._queue import model

EXPLANATION = (
    'AST/CFG/lockset analysis of piter_fn, piter_multiplex, pmap, piter,'
    ' _ThreadSafeIterator and the consumer iterators. Decides: the iterator'
    ' shared by the `parallism` consumer instances is wrapped in'
    ' _ThreadSafeIterator on every path that fans out, and its __next__ pulls'
    ' under its own lock from one underlying iterator; the queue is told'
    ' max_enqueuer=len(X) for the same materialised X the submit loop ranges'
    ' over with exactly one enqueue_from_iterator submit per element;'
    ' producers forward their generator return values; thread release ='
    ' R-C05-5 (maybe_stop + pool shutdown on every terminal path). NOT'
    ' decided: multiset equality across schedules.'
)
ASSUMPTIONS = ['ThreadPoolExecutor runs every submitted callable eventually.']

IU = 'utils.iter_utils'


def run(ctx: Ctx):
  for r in (r1, r2, r3, r4, r6, r10, r11, r12, r13, r14, r15, r16, r17, r18):
    ctx.guard(r)
  from mlmverif.props import c04
  from mlmverif.props._queue import model as qmodel
  from mlmverif.props import c05
  ctx.include('R-C13-7', '"when the stream fails or is stopped early, all helper'
              ' threads finish": a failure recorded by ANY producer wakes all'
              ' waiters on both conditions (R-C05-1), and no stop/failure path'
              ' waits or notifies under a second lock in an inverted order'
              ' (R-C04-4); a producer submitted to the pool with its future'
              ' dropped records every failure of its input itself, incl. a'
              ' failing __iter__ (R-C05-10); the test "buffer full / empty" and the wait'
              ' that follows it are one atomic step under the condition (R-C04-14)',
              _fail_shared, qmodel(ctx), min_instances=14)
  ctx.include('R-C13-5', '"collects every generator\'s return value": the'
              ' return values are recorded before end-of-stream can be'
              ' observed (R-C04-6)', c04.r6, qmodel(ctx), min_instances=2)
  from mlmverif.props import c12
  ctx.include('R-C13-9', '"when the stream ... fails ... all helper threads finish and'
              ' the pool is shut down": every failure that leaves the __next__ of'
              ' the iterator that owns the thread pool has passed maybe_stop()'
              ' (R-C12-15)', c12.r15, min_instances=4)
  ctx.include('R-C13-8', '"produces exactly the multiset ... all helper threads'
              ' finish": the bounded hand-over queues piter builds wake a blocked'
              ' producer after EVERY successful dequeue, whichever way the'
              ' consumer leaves (batch full, queue empty, single get) (R-C04-5)',
              c04.r5, qmodel(ctx), min_instances=4)

_QUEUE_MAKERS = {'piter_multiplex', 'piter_fn', 'IteratorQueue', 'AsyncIteratorQueue'}


def _stop_link_methods(repo) -> set[str]:
  """Methods of the queue class that register their argument to be stopped with the queue:
  the parameter is stored into a self attribute whose elements maybe_stop() stops."""
  ci = repo.cls(IU, 'IteratorQueue')
  ms = ci.methods.get('maybe_stop')
  if ms is None:
    return set()
  stopped_attrs = set()
  for x in ast.walk(ms.node):
    if isinstance(x, ast.For) and is_self_attr(x.iter) and isinstance(x.target, ast.Name):
      if any(isinstance(c, ast.Call) and isinstance(c.func, ast.Attribute) and c.func.attr == 'maybe_stop'
             and isinstance(c.func.value, ast.Name) and c.func.value.id == x.target.id for c in ast.walk(x)):
        stopped_attrs.add(x.iter.attr)
    if isinstance(x, ast.Call) and isinstance(x.func, ast.Attribute) and x.func.attr == 'maybe_stop' and is_self_attr(
        x.func.value):
      stopped_attrs.add(x.func.value.attr)
  out = set()
  for name, m in ci.methods.items():
    ps = FuncInfo(m.module, m.qualname, m.node, ci).params()[1:]
    for x in walk_no_nested(m.node):
      if isinstance(x, ast.Call) and isinstance(x.func, ast.Attribute) and x.func.attr in ('append', 'add') and is_self_attr(
          x.func.value) and x.func.value.attr in stopped_attrs and x.args and isinstance(x.args[0], ast.Name) and (
              x.args[0].id in ps):
        out.add(name)
      if isinstance(x, ast.Assign) and any(is_self_attr(t) and t.attr in stopped_attrs for t in x.targets) and isinstance(
          x.value, ast.Name) and x.value.id in ps and name != '__init__':
        out.add(name)
  return out


def r10(ctx: Ctx):
  rule = 'R-C13-10'
  ctx.rule(rule, '"stopped early, all helper threads finish": a function that stacks two'
           ' queues — it builds a queue A (piter_multiplex / piter_fn / IteratorQueue)'
           ' and feeds it into the construction of a second queue B that it returns —'
           ' links their stops: B.<link>(A), where <link> is a queue method that stores'
           ' its argument in an attribute whose elements maybe_stop() stops. Without the'
           ' link, stopping the consumer of B stops B\'s workers only: the threads'
           ' filling A stay blocked in put() on its full buffer for ever and the pool'
           ' never shuts down')
  repo = ctx.repo
  links = _stop_link_methods(repo)
  n = 0
  mi = repo.module(IU)
  for fi in mi.functions.values():
    made: dict[str, ast.Call] = {}
    for x in walk_no_nested(fi.node):
      if isinstance(x, ast.Assign) and len(x.targets) == 1 and isinstance(x.targets[0], ast.Name) and isinstance(
          x.value, ast.Call) and unparse(x.value.func).split('.')[-1] in _QUEUE_MAKERS:
        made[x.targets[0].id] = x.value
    # B: a maker call (assigned or returned directly) that receives a made queue A as argument
    for x in walk_no_nested(fi.node):
      call = None
      bname = None
      if isinstance(x, ast.Return) and isinstance(x.value, ast.Call) and unparse(x.value.func).split('.')[-1] in _QUEUE_MAKERS:
        call = x.value
      elif isinstance(x, ast.Assign) and len(x.targets) == 1 and isinstance(x.targets[0], ast.Name) and isinstance(
          x.value, ast.Call) and unparse(x.value.func).split('.')[-1] in _QUEUE_MAKERS:
        call, bname = x.value, x.targets[0].id
      if call is None:
        continue
      fed = [a.id for a in list(call.args) + [k.value for k in call.keywords]
             if isinstance(a, ast.Name) and a.id in made and made[a.id] is not call]
      for a in fed:
        n += 1
        # plain local copies (`upstream = a`, `out = b`) name the same queues
        def copies(name):
          same = {name}
          for _ in range(2):
            for y in walk_no_nested(fi.node):
              if isinstance(y, ast.Assign) and len(y.targets) == 1 and isinstance(y.targets[0], ast.Name) and isinstance(y.value, ast.Name) \
                  and y.value.id in same:
                same.add(y.targets[0].id)
          return same
        a_names, b_names = copies(a), (copies(bname) if bname is not None else set())
        linked = bname is not None and any(
            isinstance(c, ast.Call) and isinstance(c.func, ast.Attribute) and c.func.attr in links
            and isinstance(c.func.value, ast.Name) and c.func.value.id in b_names and any(
                isinstance(y, ast.Name) and y.id in a_names for y in c.args)
            for c in walk_no_nested(fi.node))
        if linked:
          ctx.ok(rule, fi, f'{fi.name}: the queue fed from `{a}` stops `{a}` with itself', call)
        else:
          ctx.fail(rule, fi, f'{fi.name}: stacked queues link their stops',
                   f'`{a}` (built by {unparse(made[a].func)}) feeds `{unparse(call.func)}(...)`, whose queue is'
                   f' what the caller gets, but nothing registers `{a}` to be stopped with it'
                   f' (known link methods: {sorted(links) or "none"}): an early stop of the consumer leaves'
                   f' the threads filling `{a}` blocked in put() for ever', node=call)
  ctx.floor(rule, 1, n)


def _stopped_attrs(repo) -> set[str]:
  ci = repo.cls(IU, 'IteratorQueue')
  ms = ci.methods.get('maybe_stop')
  out = set()
  if ms is None:
    return out
  for x in ast.walk(ms.node):
    if isinstance(x, ast.For) and is_self_attr(x.iter) and isinstance(x.target, ast.Name) and any(
        isinstance(c, ast.Call) and isinstance(c.func, ast.Attribute) and c.func.attr == 'maybe_stop'
        and isinstance(c.func.value, ast.Name) and c.func.value.id == x.target.id for c in ast.walk(x)):
      out.add(x.iter.attr)
  return out


def _stops_linked_loop(x: ast.AST, attrs: set[str]) -> bool:
  return isinstance(x, ast.For) and is_self_attr(x.iter) and x.iter.attr in attrs and isinstance(
      x.target, ast.Name) and any(
          isinstance(c, ast.Call) and isinstance(c.func, ast.Attribute) and c.func.attr == 'maybe_stop'
          and isinstance(c.func.value, ast.Name) and c.func.value.id == x.target.id for c in ast.walk(x))


_DONE_IMPLIED_BY_FAILURE = [False]


def _failed_edges(p, q, lab):
  """Normal edges, with tests of the failure state folded for "a failure has been recorded"."""
  if not cfgm.only_normal(p, q, lab):
    return False
  if p.kind == 'cond':
    t = p.ast
    neg = False
    while isinstance(t, ast.UnaryOp) and isinstance(t.op, ast.Not):
      neg, t = not neg, t.operand
    val = None
    if is_self_attr(t) and t.attr in ('exception', '_exception'):
      val = True
    elif is_self_attr(t) and t.attr == 'enqueue_done' and _DONE_IMPLIED_BY_FAILURE[0]:
      val = True      # enqueue_done answers True first thing when a failure is recorded (checked in r12)
    elif isinstance(t, ast.Compare) and len(t.ops) == 1 and is_self_attr(t.left) and t.left.attr in (
        'exception', '_exception') and isinstance(t.comparators[0], ast.Constant) and t.comparators[0].value is None:
      val = isinstance(t.ops[0], (ast.IsNot, ast.NotEq))
    if val is not None:
      val = val != neg
      return lab == ('true' if val else 'false')
  return True


def r12(ctx: Ctx):
  rule = 'R-C13-12'
  ctx.rule(rule, '"when the stream ... fails ..., all helper threads finish": a queue that records a FAILURE of one of'
           ' its enqueuers (`self._exception = <error>`) stops the queues linked to it (R-C13-10\'s link) on every path'
           ' from that store to the end of the method — directly or through a method that runs the loop'
           ' `for other in self.<linked>: other.maybe_stop()` (call summaries over self-calls). The workers of a stacked'
           ' stream stop on a failure and the consumer sees it, but the feeder threads of the input queue sit in put()'
           ' on a full buffer: only the link can release them. And the link method stops its argument at once when'
           ' the queue has ALREADY failed (the workers are launched before the link is made: a failure on the very'
           ' first element precedes it)')
  repo = ctx.repo
  attrs = _stopped_attrs(repo)
  if not attrs:
    raise AnalysisError('IteratorQueue.maybe_stop stops no linked queue: nothing to check (R-C13-10 reports the missing link)')
  classes = [repo.cls(IU, 'IteratorQueue')]
  # does `enqueue_done` answer True whenever a failure is recorded? (first statement: if self._exception ...: return True)
  ed = classes[0].methods.get('enqueue_done')
  _DONE_IMPLIED_BY_FAILURE[0] = False
  if ed is not None:
    body = [b for b in ed.node.body if not (isinstance(b, ast.Expr) and isinstance(b.value, ast.Constant))]
    if body and isinstance(body[0], ast.If) and any(is_self_attr(y) and y.attr in ('_exception', 'exception') for y in ast.walk(body[0].test)) and (
        not isinstance(body[0].test, ast.BoolOp) or isinstance(body[0].test.op, ast.Or)) and any(
            isinstance(r_, ast.Return) and isinstance(r_.value, ast.Constant) and r_.value.value is True for r_ in body[0].body):
      _DONE_IMPLIED_BY_FAILURE[0] = True
  try:
    classes.append(repo.cls(IU, 'AsyncIteratorQueue'))
  except Exception:  # pylint: disable=broad-exception-caught
    pass
  methods = {}
  for ci in classes:
    for name, m in ci.methods.items():
      methods.setdefault(name, m)
  # summaries: methods that (on some condition of the failure state only) stop the linked queues
  summ = {name for name, m in methods.items() if any(_stops_linked_loop(x, attrs) for x in ast.walk(m.node))}
  changed = True
  while changed:
    changed = False
    for name, m in methods.items():
      if name in summ:
        continue
      # a method whose every normal path calls a summarised method
      g = cfgm.cfg_of(m.node)
      thr = lambda nd: any(isinstance(c, ast.Call) and isinstance(c.func, ast.Attribute) and is_self_attr(c.func)
                           and c.func.attr in summ for x in cfgm.node_exprs(nd) for c in ast.walk(x))
      if any(thr(nd) for nd in g.nodes) and g.must_pass(g.entry, [g.exit_ret], thr, edge_ok=_failed_edges) is None:
        summ.add(name)
        changed = True
  n = 0
  for ci in classes:
    for name, m in ci.methods.items():
      if name in ('__init__', 'maybe_stop'):
        continue
      g = cfgm.cfg_of(m.node)
      stores = [nd for nd in g.nodes if nd.kind == 'stmt' and isinstance(nd.ast, ast.Assign) and any(
          is_self_attr(t, '_exception') for t in nd.ast.targets) and not (
              isinstance(nd.ast.value, ast.Constant) and nd.ast.value.value is None)]
      for st in stores:
        n += 1

        def thr(nd):
          if nd.ast is not None and _stops_linked_loop(nd.ast, attrs):
            return True
          return any(isinstance(c, ast.Call) and isinstance(c.func, ast.Attribute) and is_self_attr(c.func)
                     and c.func.attr in summ for x in cfgm.node_exprs(nd) for c in ast.walk(x))

        w = g.must_pass(st, [g.exit_ret, g.exit_exc], thr, edge_ok=cfgm.no_close)
        what = f'{ci.name}.{name}: a recorded failure stops the linked queues'
        if w is None:
          ctx.ok(rule, m, what, st.ast)
        else:
          ctx.fail(rule, m, what,
                   f'{ci.name}.{name} records a failure (`{unparse(st.ast)}`) and leaves without stopping the queues in'
                   f' self.{sorted(attrs)} (methods that do: {sorted(summ) or "none"}): path {" -> ".join(w[-4:])}. The'
                   ' workers of a stacked stream stop, the threads feeding them stay blocked in put() on the full input'
                   ' queue for good', node=st.ast)
  # (c) the stream also ENDS normally: when its last enqueuer is done the linked queues are stopped as well — the loop that
  # stops them is guarded by nothing stronger than `self.enqueue_done` (a guard on the failure alone leaves the feeders of
  # a worker function that stops reading early — islice, a search that found its hit — blocked on the full input queue)
  pm_cache = {}
  for name, mth in methods.items():
    for x in ast.walk(mth.node):
      if not _stops_linked_loop(x, attrs) or name == 'maybe_stop':
        continue
      n += 1
      pm = pm_cache.setdefault(name, parent_map(mth.node))
      guards = []
      q = x
      while q in pm:
        par = pm[q]
        if isinstance(par, ast.If) and any(y is q for b in par.body for y in ast.walk(b)):
          guards.append(par.test)
        q = par
      only_failure = [g_ for g_ in guards if any(is_self_attr(y) and y.attr in ('exception', '_exception') for y in ast.walk(g_))
                      and not any(is_self_attr(y) and y.attr == 'enqueue_done' for y in ast.walk(g_))]
      what = f'IteratorQueue.{name}: the linked queues are stopped when the stream is over, not only when it failed'
      if only_failure:
        ctx.fail(rule, mth, what,
                 f'the loop that stops the linked queues in {name} runs only under `{unparse(only_failure[0])}`: when the workers of a'
                 ' stacked stream finish NORMALLY without draining their input (the worker function stops reading early) the'
                 ' stream is exhausted, but the threads feeding the input queue stay blocked in put() for good', node=x)
      else:
        ctx.ok(rule, mth, what, x)
  # the link method handles "already failed"
  for lname in sorted(_stop_link_methods(repo)):
    m = methods[lname]
    n += 1
    ps = FuncInfo(m.module, m.qualname, m.node, m.cls).params()[1:]
    ok = False
    failure_only = None
    for x in ast.walk(m.node):
      if isinstance(x, ast.If) and any(
          (is_self_attr(y) and y.attr in ('_exception', 'exception', 'enqueue_done', '_stop_requested')) for y in ast.walk(x.test)):
        if any(isinstance(c, ast.Call) and isinstance(c.func, ast.Attribute) and c.func.attr == 'maybe_stop'
               and isinstance(c.func.value, ast.Name) and c.func.value.id in ps for b in x.body for c in ast.walk(b)):
          ok = True
          if not any(is_self_attr(y) and y.attr == 'enqueue_done' for y in ast.walk(x.test)):
            failure_only = x.test
    what = f'IteratorQueue.{lname}: a queue that is already over (failed, stopped or exhausted) stops the newly linked queue at once'
    # register-then-check: the argument is in the link list BEFORE the "already over?" test is made. The other way round
    # a queue that ends between the test and the registration has run its end-of-stream path with nothing linked AND the
    # test has said "not over": nobody stops the argument
    g_l = cfgm.cfg_of(m.node)
    is_reg = lambda nd: any(isinstance(c, ast.Call) and isinstance(c.func, ast.Attribute) and c.func.attr in ('append', 'add')
                            and is_self_attr(c.func.value) and c.args and isinstance(c.args[0], ast.Name) and c.args[0].id in ps
                            for c in cfgm.node_exprs(nd)) or (
        isinstance(nd.ast, ast.Assign) and any(is_self_attr(t) for t in nd.ast.targets) and isinstance(nd.ast.value, ast.Name)
        and nd.ast.value.id in ps)
    tests = [nd for nd in g_l.nodes if nd.kind == 'cond' and any(
        is_self_attr(y) and y.attr in ('_exception', 'exception', 'enqueue_done', '_stop_requested') for y in ast.walk(nd.ast))]
    late = [t_ for t_ in tests if g_l.dominates(is_reg, t_, cfgm.only_normal) is not None]
    if ok and late:
      ctx.fail(rule, m, what,
               f'{lname}() tests `{unparse(late[0].ast)}` BEFORE it has registered its argument: when the queue ends between that test'
               ' and the registration, the end-of-stream path has already run with nothing linked and the test has answered'
               ' "not over" — the newly linked queue is never stopped and its feeder threads stay blocked in put()', node=late[0].ast)
    elif ok and failure_only is not None:
      ctx.fail(rule, m, what,
               f'{lname}() stops its argument only under `{unparse(failure_only)}`: the stacking function makes the link AFTER it'
               ' launched the workers, so workers that finish NORMALLY before the link exists (a worker function that reads'
               ' little or nothing) have already run the end-of-stream path with nothing linked — the feeder threads stay'
               ' blocked in put() on the full input queue', node=m.node)
    elif ok:
      ctx.ok(rule, m, what, m.node)
    else:
      ctx.fail(rule, m, what,
               f'{lname}() only registers its argument: the stacking function makes the link AFTER it launched the workers,'
               ' so a failure on the very first element has already run the failure path (with nothing linked yet) —'
               ' the feeder threads are never stopped', node=m.node)
  ctx.floor(rule, 4, n)


def r13(ctx: Ctx):
  rule = 'R-C13-13'
  ctx.rule(rule, '"when the stream is exhausted ... all helper threads finish and the pool is shut down": a pool the parallel'
           ' helpers create themselves belongs to ONE stream — the functions of iter_utils that construct a'
           ' ThreadPoolExecutor are not memoised (functools.cache / lru_cache) and store it in no module-level name. A'
           ' shared default pool is never shut down (its threads outlive every stream) and is sized for one stream: a'
           ' second live stream of the same shape finds every thread taken by the first one\'s blocked feeders')
  mi = ctx.repo.module(IU)
  n = 0
  fns = list(mi.functions.values()) + [m_ for c in mi.classes.values() for m_ in c.methods.values()]
  for fi in fns:
    makes = [c for c in walk_no_nested(fi.node) if isinstance(c, ast.Call) and unparse(c.func).split('.')[-1] == 'ThreadPoolExecutor']
    if not makes:
      continue
    n += 1
    cached = [d for d in fi.decorators if 'cache' in d]
    glob = [x for x in walk_no_nested(fi.node) if isinstance(x, ast.Global)]
    what = f'{fi.qualname}: the pool it creates is a fresh one per call'
    if cached or glob:
      ctx.fail(rule, fi, what,
               f'{fi.qualname} constructs a ThreadPoolExecutor and is {"memoised (@" + cached[0] + ")" if cached else "storing it in a global"}:'
               ' every stream that asks for a default pool gets the SAME executor — it is never shut down when a stream ends,'
               ' and two live streams share threads sized for one', node=makes[0])
    else:
      ctx.ok(rule, fi, what, makes[0])
  for name, v in mi.assigns.items():
    if isinstance(v, ast.Call) and unparse(v.func).split('.')[-1] == 'ThreadPoolExecutor':
      n += 1
      ctx.fail(rule, fns[0], 'iter_utils keeps no module-level executor',
               f'module-level `{name} = {unparse(v)[:50]}`: a pool shared by all streams is never shut down', node=v)
  ctx.floor(rule, 2, n)


def r14(ctx: Ctx):
  rule = 'R-C13-14'
  ctx.rule(rule, '"when the stream is exhausted, fails, or is stopped early, all helper threads finish and the pool is shut down" —'
           ' also when the consumer is INTERRUPTED: the draw in MultiplexIterator.__next__ is covered, for every way an'
           ' exception can leave it, by a handler that tears down (maybe_stop) before re-raising, or by a `finally`. `except'
           ' Exception` does not catch KeyboardInterrupt / SystemExit / GeneratorExit: a Ctrl-C raised out of next() would'
           ' leave the workers running until their bounded buffer is full and then blocked in put() for good')
  fi = ctx.repo.func(IU, 'MultiplexIterator.__next__')
  tries = [t for t in walk_no_nested(fi.node) if isinstance(t, ast.Try) and any(
      isinstance(c, ast.Call) and unparse(c.func) == 'next' for b in t.body for c in ast.walk(b))]
  if not tries:
    raise AnalysisError(f'{rule}: the draw of MultiplexIterator.__next__ is no longer inside a try')
  n = 0
  for t in tries:
    n += 1
    stops = lambda body: any(isinstance(c, ast.Call) and unparse(c.func) == 'self.maybe_stop' for b in body for c in ast.walk(b))
    covered = bool(t.finalbody) and stops(t.finalbody)
    for h in t.handlers:
      types = cfgm.handler_type_names(h)
      if (h.type is None or any(x in ('BaseException', 'KeyboardInterrupt') for x in types)) and stops(h.body):
        covered = True
    what = 'MultiplexIterator.__next__: an interrupt raised out of the draw tears the stream down as well'
    if covered:
      ctx.ok(rule, fi, what, t)
    else:
      ctx.fail(rule, fi, what,
               'no handler of the try around `next(self._iterator)` catches KeyboardInterrupt / BaseException (and there is no'
               ' finally) to call maybe_stop(): an interrupted consumer leaves the queue running and the pool open — the worker'
               ' threads fill the buffer and stay blocked in put()', node=t)
  ctx.floor(rule, 1, n)


def r11(ctx: Ctx):
  rule = 'R-C13-11'
  ctx.rule(rule, '"for all ... numbers of input iterators": a function that stacks two queues on ONE'
           ' thread pool it creates itself (R-C13-10\'s shape: feeders fill queue A, workers drain A'
           ' into queue B) sizes that pool for everything that has to run at the same time: the'
           ' `max_workers` it asks for mentions the number of feeders (`len(<inputs>)`) as well as'
           ' the worker parallelism. The feeders are submitted first and block on A\'s bounded'
           ' buffer; with a pool smaller than the number of inputs they occupy every thread, the'
           ' workers never start and nothing is ever produced')
  repo = ctx.repo
  mi = repo.module(IU)
  n = 0
  for fi in mi.functions.values():
    made = {x.targets[0].id for x in walk_no_nested(fi.node) if isinstance(x, ast.Assign) and len(x.targets) == 1
            and isinstance(x.targets[0], ast.Name) and isinstance(x.value, ast.Call)
            and unparse(x.value.func).split('.')[-1] in _QUEUE_MAKERS}
    stacked = any(isinstance(c, ast.Call) and unparse(c.func).split('.')[-1] in _QUEUE_MAKERS and any(
        isinstance(a, ast.Name) and a.id in made for a in list(c.args) + [k.value for k in c.keywords])
                  for c in walk_no_nested(fi.node))
    if not stacked:
      continue
    pools = [c for c in walk_no_nested(fi.node) if isinstance(c, ast.Call) and unparse(c.func).split('.')[-1] in (
        '_get_thread_pool', 'ThreadPoolExecutor')]
    if not pools:
      continue
    n += 1
    # the inputs that need feeders: the iterable handed to the FIRST queue maker
    feeders = set()
    for x in walk_no_nested(fi.node):
      if isinstance(x, ast.Assign) and isinstance(x.value, ast.Call) and unparse(x.value.func).split('.')[-1] in _QUEUE_MAKERS and (
          isinstance(x.targets[0], ast.Name) and x.targets[0].id in made) and x.value.args:
        feeders |= {y.id for y in ast.walk(x.value.args[0]) if isinstance(y, ast.Name)}
    # the pool is created by the FIRST of these calls that runs (the later ones get it passed in):
    # every call that can come first — i.e. every one that is not preceded, line-wise, by a sized
    # one — must be sized
    def is_sized(c):
      mw = kwarg(c, 'max_workers')
      return mw is not None and any(isinstance(y, ast.Call) and unparse(y.func) == 'len' and y.args and isinstance(
          y.args[0], ast.Name) and y.args[0].id in feeders for y in ast.walk(mw))
    pools = sorted(pools, key=lambda c: c.lineno)
    sized = is_sized(pools[0])
    if sized:
      ctx.ok(rule, fi, f'{fi.name}: own pool sized with the number of feeders', pools[0])
    else:
      ctx.fail(rule, fi, f'{fi.name}: the pool it creates has a thread per feeder plus the workers',
               f'{fi.name} stacks a worker queue on an input queue fed from {sorted(feeders)} and creates the'
               f' thread pool itself (`{unparse(pools[0])[:50]}`) without sizing it by the number of inputs: with'
               ' more input iterators than pool threads the feeders (submitted first, blocked on the bounded'
               ' input buffer) take every thread and the workers that would drain it never start — deadlock,'
               ' nothing is produced', node=pools[0])
  ctx.floor(rule, 1, n)



def _fail_shared(sub, m):
  from mlmverif.props import c04, c05
  sub.guard(c05.r1, m)
  sub.guard(c04.r4, m)
  sub.guard(c05.r10, m)
  sub.guard(c04.r14, m)


def r1(ctx: Ctx):
  rule = 'R-C13-1'
  ctx.rule(rule, 'shared input is locked: in piter_fn the iterable handed to'
           ' every one of the `parallism` consumer instances is a'
           ' _ThreadSafeIterator whenever it is not None;'
           ' _ThreadSafeIterator.__next__ calls next() on its single'
           ' underlying iterator with its lock held')
  repo = ctx.repo
  fi = repo.func(IU, 'piter_fn')
  g = cfgm.cfg_of(fi.node)
  fan = [n for n in g.nodes if any(
      isinstance(x, (ast.ListComp, ast.GeneratorExp)) and any(
          'range(parallism)' in unparse(gen.iter) or 'range(' in unparse(gen.iter)
          for gen in x.generators) for x in cfgm.node_exprs(n))]
  if not fan:
    raise AnalysisError(f'{rule}: fan-out comprehension over range(parallism) not found in piter_fn')
  shared = None
  for n in fan:
    for x in cfgm.node_exprs(n):
      if isinstance(x, (ast.ListComp, ast.GeneratorExp)) and isinstance(x.elt, ast.Call):
        names = [a.id for a in x.elt.args if isinstance(a, ast.Name)]
        for nm in names:
          if nm in fi.params():
            shared = nm
  if shared is None:
    raise AnalysisError(f'{rule}: cannot identify the shared input of the fan-out')
  wrap = lambda n: isinstance(n.ast, ast.Assign) and isinstance(n.ast.targets[0], ast.Name) and (
      n.ast.targets[0].id == shared and isinstance(n.ast.value, ast.Call)
      and unparse(n.ast.value.func) == '_ThreadSafeIterator'
      and n.ast.value.args and unparse(n.ast.value.args[0]) == shared)

  def edge_ok(a, b, lab):
    if lab in ('exc', 'close'):
      return False
    # the branch where the shared input is None needs no wrapping
    if a.kind == 'cond' and unparse(a.ast) in (f'{shared} is not None',) and lab == 'false':
      return False
    if a.kind == 'cond' and unparse(a.ast) in (f'{shared} is None',) and lab == 'true':
      return False
    return True

  bad = None
  for n in fan:
    w = g.dominates(wrap, n, edge_ok)
    if w is not None:
      bad = w
  if bad:
    ctx.fail(rule, fi, f'piter_fn: {shared} = _ThreadSafeIterator({shared})',
             f'the {shared} shared by all consumer threads reaches the fan-out'
             ' without the lock wrapper: two threads can interleave inside one'
             ' next() and elements are lost or duplicated', node=fan[0].ast,
             witness=bad)
  else:
    ctx.ok(rule, fi, f'{shared} wrapped in _ThreadSafeIterator before fan-out', fan[0].ast)
  ci = repo.cls(IU, '_ThreadSafeIterator')
  eng = LockEngine(repo)
  lt = eng.lock_table(ci)
  nx = ci.methods.get('__next__')
  if not lt or nx is None:
    ctx.fail(rule, nx or ci.methods['__init__'], '_ThreadSafeIterator: lock + __next__',
             '_ThreadSafeIterator has no lock', node=ci.node)
  else:
    lock = list(lt.values())[0][0]
    eng.analyze(nx)
    g = cfgm.cfg_of(nx.node)
    nodes = [n for n in g.nodes if any(isinstance(x, ast.Call) and unparse(x.func) == 'next'
                                       for x in cfgm.node_exprs(n))]
    held = nodes and all(all(ls_has(ls, lock) for ls in st.get(n, ())) and st.get(n)
                         for st in eng.states_at(nx) for n in nodes)
    if held:
      ctx.ok(rule, nx, 'next(self._iterator) under self._lock', nodes[0].ast)
    else:
      ctx.fail(rule, nx, '_ThreadSafeIterator.__next__: with self._lock: return next(self._iterator)',
               'the underlying iterator is advanced without holding the lock',
               node=nx.node)
    # the raw iterator never escapes the lock: every use outside __init__ is
    # under self._lock and __iter__ hands out the wrapper itself
    for name, meth in ci.methods.items():
      if name == '__init__':
        continue
      uses = [x for x in walk_no_nested(meth.node) if is_self_attr(x, '_iterator')]
      if not uses:
        continue
      eng.analyze(meth)
      gm = cfgm.cfg_of(meth.node)
      for u in uses:
        nds = [nd for nd in gm.nodes if any(y is u for y in cfgm.node_exprs(nd))]
        held_u = nds and all(all(ls_has(ls, lock) for ls in st.get(nd, ())) and st.get(nd)
                             for st in eng.states_at(meth) for nd in nds)
        if not held_u:
          ctx.fail(rule, meth, f'_ThreadSafeIterator.{name}: self._iterator outside the lock',
                   f'_ThreadSafeIterator.{name} exposes or advances the raw'
                   ' shared iterator without the lock: consumers that obtain it'
                   ' (e.g. through iter()) bypass the mutual exclusion', node=u)
    itf = ci.methods.get('__iter__')
    if itf is not None:
      rets = [x for x in walk_no_nested(itf.node) if isinstance(x, ast.Return)]
      if rets and all(unparse(r_.value) == 'self' for r_ in rets):
        ctx.ok(rule, itf, '__iter__ returns the lock-protected wrapper', itf.node)
      else:
        ctx.fail(rule, itf, '_ThreadSafeIterator.__iter__: return self',
                 'iter(wrapper) hands out something other than the'
                 ' lock-protected wrapper', node=itf.node)
    init = ci.methods['__init__']
    one = [x for x in walk_no_nested(init.node) if isinstance(x, ast.Assign)
           and is_self_attr(x.targets[0], '_iterator') and isinstance(x.value, ast.Call)
           and unparse(x.value.func) == 'iter']
    if one:
      ctx.ok(rule, init, 'single underlying iterator created once', one[0])
    else:
      ctx.fail(rule, init, '_ThreadSafeIterator.__init__: self._iterator = iter(iterable)',
               'the wrapper does not pin one underlying iterator (each thread'
               ' could restart the iterable)', node=init.node)
  ctx.floor(rule, 3)


def r2(ctx: Ctx):
  rule = 'R-C13-2'
  ctx.rule(rule, 'producer count: piter_multiplex materialises its inputs,'
           ' creates the queue with max_enqueuer=len(inputs) and submits'
           ' exactly one enqueue_from_iterator per input to the pool, then'
           ' returns that queue')
  fi = ctx.repo.func(IU, 'piter_multiplex')
  qv = None
  me = None
  for x in walk_no_nested(fi.node):
    if isinstance(x, ast.Assign) and isinstance(x.value, ast.Call) and unparse(
        x.value.func) == 'IteratorQueue' and isinstance(x.targets[0], ast.Name):
      qv = x.targets[0].id
      me = kwarg(x.value, 'max_enqueuer')
  if qv is None:
    raise AnalysisError(f'{rule}: IteratorQueue construction not found')
  X = None
  if isinstance(me, ast.Call) and unparse(me.func) == 'len' and isinstance(me.args[0], ast.Name):
    X = me.args[0].id
  loops = [l for l in walk_no_nested(fi.node) if isinstance(l, ast.For)]
  sub = []
  for l in loops:
    calls = [c for c in ast.walk(l) if isinstance(c, ast.Call) and isinstance(c.func, ast.Attribute)
             and c.func.attr == 'submit']
    sub.append((l, calls))
  problem = None
  if X is None:
    problem = (f'max_enqueuer is `{unparse(me) if me is not None else "missing"}`,'
               ' not the number of input iterators')
  else:
    match = [(l, cs) for l, cs in sub if unparse(l.iter) == X]
    if len(match) != 1:
      problem = f'no single submit loop over `{X}`'
    else:
      l, cs = match[0]
      if len(cs) != 1:
        problem = f'{len(cs)} submits per input (exactly one expected)'
      else:
        c = cs[0]
        a = [unparse(z) for z in c.args]
        if a != [f'{qv}.enqueue_from_iterator', unparse(l.target)]:
          problem = f'submit({", ".join(a)}) is not {qv}.enqueue_from_iterator(<loop input>)'
    mat = [x for x in walk_no_nested(fi.node) if isinstance(x, ast.Assign)
           and isinstance(x.targets[0], ast.Name) and x.targets[0].id == X
           and isinstance(x.value, ast.Call) and unparse(x.value.func) in ('tuple', 'list')]
    if not mat:
      problem = problem or f'`{X}` is not materialised before it is counted and iterated'
  rets = [x for x in walk_no_nested(fi.node) if isinstance(x, ast.Return)]
  if not rets or any(unparse(r.value) != qv for r in rets):
    problem = problem or 'the result queue is not returned'
  if problem:
    ctx.fail(rule, fi, 'piter_multiplex: max_enqueuer=len(inputs) and one submit per input',
             f'{problem}: the queue reports end-of-stream too early (lost'
             ' elements) or never (consumers hang)', node=fi.node)
  else:
    ctx.ok(rule, fi, f'max_enqueuer=len({X}); one submit per element of {X}', fi.node)
  ctx.floor(rule, 1)


def r3(ctx: Ctx):
  rule = 'R-C13-3'
  ctx.rule(rule, 'thread release: R-C05-5 (maybe_stop wakes both sides,'
           ' MultiplexIterator stops queue and pool on every terminal path,'
           ' DequeueIterator stops the queue at its step budget)')
  sub = Ctx(ctx.pid, ctx.repo, ctx.tier)
  c05.r5(sub, model(ctx))
  for f in sub.findings:
    fi = ctx.repo.func(f.module, f.qualname)
    ctx.fail(rule, fi, f.construct, f.message, node=fi.node, witness=f.witness)
  for i in sub.instances:
    if i.verdict == 'holds':
      ctx.instances.append(type(i)(rule, i.where, i.what, 'holds', True, i.detail))
  # the parallel branch hands the pool it will shut down to the fan-out
  init = ctx.repo.func(IU, 'MultiplexIterator.__init__')
  calls = [c for c in walk_no_nested(init.node) if isinstance(c, ast.Call)
           and unparse(c.func) in ('piter_multiplex', 'piter_fn')]
  bad = [c for c in calls if unparse(kwarg(c, 'thread_pool')) != 'self._thread_pool']
  if calls and not bad:
    ctx.ok(rule, init, 'fan-out uses the pool that maybe_stop shuts down', calls[0])
  else:
    ctx.fail(rule, init, 'MultiplexIterator.__init__: thread_pool=self._thread_pool',
             'the producers run on a pool that maybe_stop() does not shut down',
             node=init.node)
  ctx.floor(rule, 8)


def r4(ctx: Ctx):
  rule = 'R-C13-4'
  ctx.rule(rule, 'return values: both enqueue loops forward the finished'
           ' generator\'s return value (*e.args) to _stop_enqueue, and'
           ' iter_ignore_error returns it')
  m = model(ctx)
  for name, exc in (('enqueue_from_iterator', 'StopIteration'),
                    ('async_enqueue_from_iterator', 'StopAsyncIteration')):
    fi = None
    for c in m.classes:
      if name in c.methods:
        fi = c.methods[name]
    if fi is None:
      continue
    ok = False
    for h in walk_no_nested(fi.node):
      if isinstance(h, ast.ExceptHandler) and h.type is not None and exc in unparse(h.type) and h.name:
        for c in ast.walk(h):
          if isinstance(c, ast.Call) and unparse(c.func) == 'self._stop_enqueue' and any(
              isinstance(a, ast.Starred) and unparse(a.value) in (f'{h.name}.args',)
              for a in c.args):
            ok = True
    if ok:
      ctx.ok(rule, fi, f'{name}: _stop_enqueue(*e.args) on {exc}', fi.node)
    else:
      ctx.fail(rule, fi, f'{name}: except {exc} as e: self._stop_enqueue(*e.args)',
               'the generator\'s return value is dropped when its producer'
               ' finishes', node=fi.node)
  fi = ctx.repo.func(IU, 'iter_ignore_error')
  ok = any(isinstance(h, ast.ExceptHandler) and h.name and any(
      isinstance(r, ast.Return) and unparse(r.value) == f'{h.name}.value' for r in ast.walk(h))
           for h in walk_no_nested(fi.node))
  if ok:
    ctx.ok(rule, fi, 'iter_ignore_error returns e.value', fi.node)
  else:
    ctx.fail(rule, fi, 'iter_ignore_error: return e.value',
             'the wrapped generator\'s return value is lost', node=fi.node)
  ctx.floor(rule, 3)


def _len_at_most_one_edge(t: ast.AST, coll: str) -> str | None:
  """Edge label ('true'/'false') of test `t` on which len(coll) <= 1 is known."""
  neg = False
  while isinstance(t, ast.UnaryOp) and isinstance(t.op, ast.Not):
    neg = not neg
    t = t.operand
  lab = None
  if isinstance(t, ast.Compare) and len(t.ops) == 1 and unparse(t.left) == f'len({coll})' and isinstance(
      t.comparators[0], ast.Constant) and isinstance(t.comparators[0].value, int):
    c, op = t.comparators[0].value, type(t.ops[0])
    if (op, c) in ((ast.Eq, 1), (ast.LtE, 1), (ast.Lt, 2), (ast.Eq, 0)):
      lab = 'true'
    elif (op, c) in ((ast.Gt, 1), (ast.GtE, 2), (ast.NotEq, 1)) and (op, c) != (ast.NotEq, 1):
      lab = 'false'
  if lab is None:
    return None
  return lab if not neg else ('false' if lab == 'true' else 'true')


def r6(ctx: Ctx):
  rule = 'R-C13-6'
  ctx.rule(rule, 'every source is consumed: MultiplexIterator picks ONE source'
           ' out of its list (`_source_iterators[0]`) only on a path where the'
           ' list is known to hold at most one source (true edge of len == 1'
           ' / false edge of len > 1); with several sources they are chained'
           ' or multiplexed — otherwise sources 2..n and their return values'
           ' are silently dropped')
  fi = ctx.repo.func(IU, 'MultiplexIterator.__init__')
  g = cfgm.cfg_of(fi.node)
  coll = 'self._source_iterators'
  picks = [n for n in g.nodes if any(
      isinstance(x, ast.Subscript) and unparse(x.value) == coll and isinstance(x.slice, ast.Constant)
      for e in cfgm.node_exprs(n) for x in ast.walk(e))]
  if not picks:
    raise AnalysisError(f'{rule}: no single-source pick found in MultiplexIterator.__init__')

  def edge_ok(p_, q_, lab):
    if lab in ('exc', 'close'):
      return False
    if p_.kind == 'cond':
      good = _len_at_most_one_edge(p_.ast, coll)
      if good is not None and lab == good:
        return False
    return True

  reach = g.reachable([g.entry], edge_ok=edge_ok, include_src=True)
  n = 0
  for pk in picks:
    n += 1
    if pk in reach:
      ctx.fail(rule, fi, 'MultiplexIterator.__init__: self._source_iterators[0] only when there is at most one source',
               'a single source is picked out of the list on a path where the'
               ' list may hold several sources: the other sources are never'
               ' iterated (their elements and return values are lost) for'
               ' some combinations of source count and parallelism', node=pk.ast,
               witness=g.path_to(reach, pk)[-8:])
    else:
      ctx.ok(rule, fi, f'`{pk.text()[:50]}` under len({coll}) <= 1', pk.ast)
  ctx.floor(rule, 2, n)


def r15(ctx: Ctx):
  rule = 'R-C13-15'
  ctx.rule(rule, '"collects every generator\'s return value": the per-worker function pmap hands to piter_fn passes the END of its'
           ' input through unchanged — it is `map(<fn>, <input>)` over its parameter (a map object re-raises the input\'s'
           ' StopIteration with its value), or a generator function that returns what its input returned (`return (yield'
           ' from ...)` / an explicit `return <value>`). A for-loop or a generator expression over the input swallows the'
           ' StopIteration value: the mapped generator\'s return value is lost with parallelism although the sequential'
           ' `map(fn, it)` of the same function delivers it')
  mi = ctx.repo.module('utils.iter_utils')
  fi = mi.functions.get('pmap')
  if fi is None:
    raise AnalysisError('iter_utils.pmap not found')
  n = 0
  nested = {x.name: x for x in ast.walk(fi.node) if isinstance(x, ast.FunctionDef) and x is not fi.node}
  for c in walk_no_nested(fi.node):
    if not (isinstance(c, ast.Call) and unparse(c.func) in ('piter_fn', 'piter') and (c.args or kwarg(c, 'iterator_fn') is not None)):
      continue
    n += 1
    f0 = c.args[0] if c.args else kwarg(c, 'iterator_fn')
    what = 'pmap: the worker function relays the return value of its input'
    ok, why = False, ''
    if isinstance(f0, ast.Lambda):
      ps = [a.arg for a in f0.args.args]
      b = f0.body
      ok = (isinstance(b, ast.Call) and unparse(b.func) == 'map' and len(b.args) == 2 and len(ps) == 1
            and isinstance(b.args[1], ast.Name) and b.args[1].id == ps[0])
      why = f'`{unparse(f0)[:60]}` is not `lambda it: map(<fn>, it)`'
    elif isinstance(f0, ast.Name) and f0.id in nested:
      d = nested[f0.id]
      is_gen = any(isinstance(y, (ast.Yield, ast.YieldFrom)) for y in walk_no_nested(d))
      returns_value = any(isinstance(y, ast.Return) and y.value is not None for y in walk_no_nested(d))
      ok = returns_value
      why = (f'the generator function `{d.name}` loops over its input and never returns a value: the StopIteration value of'
             ' the input ends the for-loop silently') if is_gen else f'`{d.name}` was not recognised as relaying the end of its input'
    elif isinstance(f0, ast.Call) and unparse(f0.func) in ('functools.partial', 'partial') and f0.args and unparse(f0.args[0]) == 'map':
      ok = True
    else:
      why = f'`{unparse(f0)[:60]}` was not recognised as relaying the end of its input'
    if ok:
      ctx.ok(rule, fi, what, c)
    else:
      ctx.fail(rule, fi, what, why + ': `returned` of the parallel stream stays empty (and the consumer\'s final StopIteration'
               ' carries nothing) while pmap(..., max_parallism=0) returns the value', node=f0)
  ctx.floor(rule, 1, n)


def r16(ctx: Ctx):
  rule = 'R-C13-16'
  ctx.rule(rule, '"when the stream ... fails ..., all helper threads finish": piter launches the feeder threads of its input queue'
           ' BEFORE it builds the workers, and building them calls the user\'s worker function. Every `piter_fn(...,'
           ' input_iterable=<queue>)` call of piter therefore sits in a try whose handler (BaseException / Exception / bare)'
           ' stops that queue (`<queue>.maybe_stop()`) and re-raises: without it a worker function that raises when it is'
           ' called (wrong arity, eager validation) makes piter raise while the feeders stay blocked in put() on the full'
           ' input queue, with no handle left to stop them')
  mi = ctx.repo.module('utils.iter_utils')
  fi = mi.functions.get('piter')
  if fi is None:
    raise AnalysisError('iter_utils.piter not found')
  feeds = {t.id for x in walk_no_nested(fi.node) if isinstance(x, ast.Assign) and isinstance(x.value, ast.Call)
           and unparse(x.value.func) == 'piter_multiplex' for t in x.targets if isinstance(t, ast.Name)}
  if not feeds:
    raise AnalysisError(f'{rule}: piter no longer binds the multiplexed input queue to a name')
  pm = parent_map(fi.node)
  n = 0
  for c in walk_no_nested(fi.node):
    if not (isinstance(c, ast.Call) and unparse(c.func) == 'piter_fn'):
      continue
    q_ = kwarg(c, 'input_iterable')
    if not (isinstance(q_, ast.Name) and q_.id in feeds):
      continue
    n += 1
    guarded = False
    x = c
    while x in pm:
      par = pm[x]
      if isinstance(par, ast.Try) and any(x is b for b in par.body):
        for h in par.handlers:
          broad = h.type is None or unparse(h.type) in ('BaseException', 'Exception') or (
              isinstance(h.type, ast.Tuple) and any(unparse(e) in ('BaseException', 'Exception') for e in h.type.elts))
          stops = any(isinstance(y, ast.Call) and isinstance(y.func, ast.Attribute) and y.func.attr == 'maybe_stop'
                      and isinstance(y.func.value, ast.Name) and y.func.value.id == q_.id for b in h.body for y in ast.walk(b))
          reraises = any(isinstance(y, ast.Raise) for b in h.body for y in ast.walk(b))
          if broad and stops and reraises:
            guarded = True
        if par.finalbody and any(isinstance(y, ast.Call) and isinstance(y.func, ast.Attribute) and y.func.attr == 'maybe_stop'
                                 for b in par.finalbody for y in ast.walk(b)):
          pass   # a `finally` that always stops would also stop the successful stream: not accepted
      x = par
    what = f'piter: a failure of `piter_fn(..., input_iterable={q_.id})` stops the feeders of `{q_.id}`'
    if guarded:
      ctx.ok(rule, fi, what, c)
    else:
      ctx.fail(rule, fi, what,
               f'`{unparse(c)[:60]}` can raise (it calls the worker function) after the feeder threads of `{q_.id}` were started,'
               f' and no handler stops `{q_.id}`: piter raises to its caller while the feeders stay blocked in put() for good',
               node=c)
  ctx.floor(rule, 1, n)


def r17(ctx: Ctx):
  rule = 'R-C13-17'
  ctx.rule(rule, '"collects every generator\'s return value" — each ONCE, whatever the degree of parallelism: the workers of a stacked'
           ' stream read their input through one shared lock-protected iterator, and the end of a QUEUE-backed input is'
           ' `StopIteration(*returned)` at every call (a generator raises a bare StopIteration the second time). The sharing'
           ' wrapper (_ThreadSafeIterator) therefore remembers the end: its __next__ has a StopIteration handler that sets a'
           ' flag on self and re-raises, and the draw `next(self.<iterator>)` is reached only with that flag false — otherwise'
           ' each of n workers ends with the same return values and the output records them n times')
  ci = ctx.repo.cls('utils.iter_utils', '_ThreadSafeIterator')
  fi = ci.methods.get('__next__')
  if fi is None:
    raise AnalysisError('_ThreadSafeIterator.__next__ not found')
  g = cfgm.cfg_of(fi.node)
  draws = [nd for nd in g.nodes if any(isinstance(c, ast.Call) and unparse(c.func) == 'next' and c.args and is_self_attr(c.args[0])
                                       for c in cfgm.node_exprs(nd))]
  if not draws:
    raise AnalysisError(f'{rule}: _ThreadSafeIterator.__next__ no longer draws with next(self.<iterator>)')
  flags = set()
  for h in ast.walk(fi.node):
    if isinstance(h, ast.ExceptHandler) and h.type is not None and 'StopIteration' in unparse(h.type):
      sets = {t.attr for x in ast.walk(h) if isinstance(x, ast.Assign) and isinstance(x.value, ast.Constant) and x.value.value is True
              for t in x.targets if is_self_attr(t)}
      if sets and any(isinstance(x, ast.Raise) for x in ast.walk(h)):
        flags |= sets
  what = '_ThreadSafeIterator.__next__: the end of the shared input (and its return values) is relayed once'
  ok = False
  if flags:
    tested = lambda nd: nd.kind == 'cond' and any(is_self_attr(y) and y.attr in flags for y in ast.walk(nd.ast))
    ok = all(g.dominates(tested, d, cfgm.only_normal) is None for d in draws)
  if ok:
    ctx.ok(rule, fi, what, fi.node)
  else:
    ctx.fail(rule, fi, what,
             '_ThreadSafeIterator.__next__ delegates every call to the shared iterator' + ('' if not flags else
             f' without testing {sorted(flags)} first') + ': a queue-backed input raises StopIteration(*returned) for each of the n'
             ' workers, so the output queue collects every return value n times (returned == [a, b, a, b, ...]) while one worker'
             ' collects [a, b]', node=draws[0].ast or fi.node)
  ctx.floor(rule, 1, 1)


def r18(ctx: Ctx):
  rule = 'R-C13-18'
  ctx.rule(rule, '"produces exactly the multiset of values the sequential evaluation produces", also with several streams alive at'
           ' once: the per-stream bookkeeping of the queue / iterator classes of iter_utils (stop links, buffers, counters)'
           ' belongs to the INSTANCE. No class body of the module binds a mutable container (`x: list = []`, `{}`, `set()`,'
           ' deque(), defaultdict()) as a class attribute: every instance would append to the one shared object — one'
           ' stream ending then stops the input queues of every other live stream, which end early without an error')
  mi = ctx.repo.module('utils.iter_utils')
  n = 0
  for ci in mi.classes.values():
    if any('dataclass' in unparse(d) for d in ci.node.decorator_list) or not ci.methods:
      continue
    n += 1
    bad = None
    for st in ci.node.body:
      v = st.value if isinstance(st, (ast.Assign, ast.AnnAssign)) else None
      if v is None:
        continue
      if isinstance(v, (ast.List, ast.Dict, ast.Set, ast.ListComp, ast.DictComp, ast.SetComp)) or (
          isinstance(v, ast.Call) and unparse(v.func).split('.')[-1] in ('list', 'dict', 'set', 'deque', 'defaultdict', 'OrderedDict',
                                                                        'Counter')):
        bad = st
        break
    what = f'{ci.name}: no mutable container is shared through a class attribute'
    anchor = next(iter(ci.methods.values()))
    if bad is not None:
      ctx.fail(rule, anchor, what,
               f'`{unparse(bad)[:70]}` in the body of {ci.name} is ONE object for all instances: what an instance appends (a'
               ' stop link, a buffered element) is seen and acted on by every other live instance', node=bad)
    else:
      ctx.ok(rule, anchor, what, ci.node)
  ctx.floor(rule, 8, n)


from mlmverif.selfcheck import B, OK  # noqa: E402

_F = 'utils/iter_utils.py'
VARIANTS = [
    OK('returned-values-through-a-local', 'utils/iter_utils.py',
       "      self._returned.extend(values)\n", "      ended_with = values\n      self._returned.extend(ended_with)\n"),
    OK('stop-link-through-a-local', 'utils/iter_utils.py',
       "    result.stop_with(input_iterable)\n", "    upstream = input_iterable\n    result.stop_with(upstream)\n"),
    OK('put-through-a-local', 'utils/iter_utils.py',
       "          self._put_nowait(value)\n", "          item = value\n          self._put_nowait(item)\n"),
    OK('class-level-immutable-default', 'utils/iter_utils.py',
       "  ignore_error: bool\n\n  def __init__(\n", "  ignore_error: bool\n  _kind: str = 'iterator-queue'\n  _no_links: tuple = ()\n\n  def __init__(\n"),
    B('stop-links-in-a-class-attribute', 'utils/iter_utils.py',
      "  ignore_error: bool\n\n  def __init__(\n", "  ignore_error: bool\n  _stopped_with: list[types.Stoppable] = []\n\n  def __init__(\n", 'R-C13-18',
      extra=(('utils/iter_utils.py', "    self._stopped_with: list[types.Stoppable] = []\n", ""),)),
    B('revert-shared-iterator-relays-the-end-to-every-worker', 'utils/iter_utils.py',
      "      if self._exhausted:\n        raise StopIteration()\n      try:\n        return next(self._iterator)\n      except StopIteration:\n        # Only one of the threads sharing the iterator relays its return\n        # values, a queue raises them again at every call.\n        self._exhausted = True\n        raise\n",
      "      return next(self._iterator)\n", 'R-C13-17'),
    B('shared-iterator-flag-never-tested', 'utils/iter_utils.py',
      "      if self._exhausted:\n        raise StopIteration()\n      try:", "      try:", 'R-C13-17'),
    OK('shared-iterator-end-flag-renamed', 'utils/iter_utils.py',
       "      if self._exhausted:\n        raise StopIteration()\n      try:\n        return next(self._iterator)\n      except StopIteration:\n        # Only one of the threads sharing the iterator relays its return\n        # values, a queue raises them again at every call.\n        self._exhausted = True\n        raise\n",
       "      if self._done:\n        raise StopIteration()\n      try:\n        return next(self._iterator)\n      except StopIteration as end:\n        self._done = True\n        raise end\n",
       extra=(('utils/iter_utils.py', "    self._exhausted = False\n\n  def __next__(self):\n    with self._lock:", "    self._done = False\n\n  def __next__(self):\n    with self._lock:"),)),
    B('revert-failed-setup-stops-the-feeders', 'utils/iter_utils.py',
      "  except BaseException:\n    # The threads feeding the input queue are already running: they would stay\n    # blocked on the full queue for good, the caller cannot stop them.\n    if isinstance(input_iterable, IteratorQueue):\n      input_iterable.maybe_stop()\n    raise\n",
      "  except BaseException:\n    raise\n", 'R-C13-16'),
    OK('failed-setup-stops-the-feeders-on-exception', 'utils/iter_utils.py',
       "  except BaseException:\n    # The threads feeding the input queue are already running: they would stay\n    # blocked on the full queue for good, the caller cannot stop them.\n    if isinstance(input_iterable, IteratorQueue):\n      input_iterable.maybe_stop()\n    raise\n",
       "  except Exception as setup_error:\n    if isinstance(input_iterable, IteratorQueue):\n      input_iterable.maybe_stop()\n    raise setup_error\n"),
    B('link-tests-before-it-registers', 'utils/iter_utils.py',
      "    self._stopped_with.append(other)\n    if self.enqueue_done:\n      # Already over, e.g., failed on the very first element.\n      other.maybe_stop()\n",
      "    if self.enqueue_done:\n      # Already over, e.g., failed on the very first element.\n      other.maybe_stop()\n      return\n    self._stopped_with.append(other)\n", 'R-C13-12'),
    B('pmap-maps-with-a-for-loop-generator', 'utils/iter_utils.py',
      "  return piter_fn(\n      lambda it: map(fn, it),", "  def mapped(it):\n    for x in it:\n      yield fn(x)\n\n  return piter_fn(\n      mapped,", 'R-C13-15'),
    B('pmap-maps-with-a-generator-expression', 'utils/iter_utils.py',
      "      lambda it: map(fn, it),", "      lambda it: (fn(x) for x in it),", 'R-C13-15'),
    OK('pmap-maps-with-partial-map', 'utils/iter_utils.py',
       "      lambda it: map(fn, it),", "      functools.partial(map, fn),"),
    B('interrupt-skips-the-teardown', 'utils/iter_utils.py',
      '    except KeyboardInterrupt:\n      self.maybe_stop()\n      raise\n    except Exception:\n      logging.exception(\'chainable: %s\', f\'error iterating "{self.name}".\')',
      '    except Exception:\n      logging.exception(\'chainable: %s\', f\'error iterating "{self.name}".\')', 'R-C13-14'),
    OK('teardown-for-interrupt-and-exit', 'utils/iter_utils.py',
       '    except KeyboardInterrupt:\n      self.maybe_stop()\n      raise\n    except Exception:',
       '    except (KeyboardInterrupt, SystemExit):\n      self.maybe_stop()\n      raise\n    except Exception:'),
    B('default-pool-memoised', 'utils/iter_utils.py',
      'def _get_thread_pool(\n', '@functools.cache\ndef _get_thread_pool(\n', 'R-C13-13'),
    B('revert-failure-stops-linked', 'utils/iter_utils.py',
      "    if self.enqueue_done:\n      # The stream is over (failed, stopped, or every enqueuer is done): what\n      # feeds its enqueuers is stopped as well, its threads are otherwise\n      # blocked on their full queue for good.\n      for other in self._stopped_with:\n        other.maybe_stop()\n",
      '', 'R-C13-12'),
    B('revert-linked-stop-on-failure-only', 'utils/iter_utils.py',
      "    if self.enqueue_done:\n      # The stream is over (failed, stopped, or every enqueuer is done): what",
      "    if self.exception is not None:\n      # The stream is over (failed, stopped, or every enqueuer is done): what", 'R-C13-12'),
    B('link-ignores-earlier-failure', 'utils/iter_utils.py',
      "    self._stopped_with.append(other)\n    if self.enqueue_done:\n      # Already over, e.g., failed on the very first element.\n      other.maybe_stop()\n",
      "    self._stopped_with.append(other)\n", 'R-C13-12'),
    B('revert-link-stops-on-failure-only', 'utils/iter_utils.py',
      "    self._stopped_with.append(other)\n    if self.enqueue_done:\n      # Already over",
      "    self._stopped_with.append(other)\n    if self.exception is not None:\n      # Already over", 'R-C13-12'),
    OK('link-stops-when-over-or-failed', 'utils/iter_utils.py',
       "    self._stopped_with.append(other)\n    if self.enqueue_done:\n      # Already over",
       "    self._stopped_with.append(other)\n    if self.exception is not None or self.enqueue_done:\n      # Already over"),
    OK('failure-stops-linked-through-helper', 'utils/iter_utils.py',
       "    if self.enqueue_done:\n      # The stream is over (failed, stopped, or every enqueuer is done): what\n      # feeds its enqueuers is stopped as well, its threads are otherwise\n      # blocked on their full queue for good.\n      for other in self._stopped_with:\n        other.maybe_stop()\n",
       "    if self.enqueue_done:\n      self._stop_linked()\n\n  def _stop_linked(self):\n    for other in self._stopped_with:\n      other.maybe_stop()\n"),
    B('revert-piter-pool-sized-for-feeders', 'utils/iter_utils.py',
      '    thread_pool = _get_thread_pool(\n        thread_pool, max_workers=len(input_iterators) + max(max_parallism, 1)\n    )',
      '    thread_pool = _get_thread_pool(thread_pool)', 'R-C13-11'),
    B('piter-small-pool-created-first', 'utils/iter_utils.py',
      '  input_iterable = None\n  # No parallelism at all, use the input iterator directly.',
      '  input_iterable = None\n  thread_pool = _get_thread_pool(thread_pool, max_workers=1 + max_parallism)\n  # No parallelism at all, use the input iterator directly.', 'R-C13-11'),
    B('piter-pool-sized-like-pmap', 'utils/iter_utils.py',
      '    thread_pool = _get_thread_pool(\n        thread_pool, max_workers=len(input_iterators) + max(max_parallism, 1)\n    )',
      '    thread_pool = _get_thread_pool(thread_pool, max_workers=1 + max_parallism)', 'R-C13-11'),
    B('revert-stacked-queues-linked', 'utils/iter_utils.py',
      '    result.stop_with(input_iterable)\n', '    pass\n', 'R-C13-10'),
    B('stop-link-not-honoured-by-maybe-stop', 'utils/iter_utils.py',
      '    for other in self._stopped_with:\n      other.maybe_stop()\n', '', 'R-C13-10'),
    OK('stop-link-variable-renamed', 'utils/iter_utils.py',
       '    result = piter_fn(\n        iterator_fn,', '    out_queue = piter_fn(\n        iterator_fn,',
       extra=[('utils/iter_utils.py', '  if isinstance(result, IteratorQueue) and isinstance(\n      input_iterable, IteratorQueue\n  ):', '  if isinstance(out_queue, IteratorQueue) and isinstance(\n      input_iterable, IteratorQueue\n  ):'),
              ('utils/iter_utils.py', '    result.stop_with(input_iterable)\n  return result\n', '    out_queue.stop_with(input_iterable)\n  return out_queue\n')]),
    B('multiplex-only-with-enough-sources', _F,
      '    if len(self._source_iterators) > 1:\n      iterators = self._source_iterators',
      '    if len(self._source_iterators) >= max(parallism, 2):\n      iterators = self._source_iterators',
      'R-C13-6'),
    OK('multiplex-branches-swapped', _F,
       '    if len(self._source_iterators) > 1:\n      iterators = self._source_iterators',
       '    if not len(self._source_iterators) <= 1:\n      iterators = self._source_iterators'),
    B('iter-returns-raw-iterator', _F,
      '        self._exhausted = True\n        raise\n\n  def __iter__(self):\n    return self\n',
      '        self._exhausted = True\n        raise\n\n  def __iter__(self):\n    return self._iterator\n',
      'R-C13-1'),
    B('no-threadsafe-wrapper', _F,
      '  if input_iterable is not None:\n    input_iterable = _ThreadSafeIterator(input_iterable)\n',
      '', 'R-C13-1'),
    B('threadsafe-next-unlocked', _F,
      '    with self._lock:\n      if self._exhausted:\n        raise StopIteration()\n      try:\n        return next(self._iterator)\n      except StopIteration:\n        # Only one of the threads sharing the iterator relays its return\n        # values, a queue raises them again at every call.\n        self._exhausted = True\n        raise',
      '    if self._exhausted:\n      raise StopIteration()\n    try:\n      return next(self._iterator)\n    except StopIteration:\n      self._exhausted = True\n      raise',
      'R-C13-1'),
    B('max-enqueuer-off', _F, '      max_enqueuer=len(input_iterators),\n',
      '      max_enqueuer=len(input_iterators) - 1,\n', 'R-C13-2'),
    B('inputs-not-materialised', _F,
      '  input_iterators = tuple(input_iterators)\n  if not input_iterators:\n    raise ValueError(\'input_iterators has to be provided.\')\n',
      '  if not input_iterators:\n    raise ValueError(\'input_iterators has to be provided.\')\n',
      'R-C13-2'),
    B('double-submit', _F,
      '    thread_pool.submit(result_queue.enqueue_from_iterator, iterator)\n',
      '    thread_pool.submit(result_queue.enqueue_from_iterator, iterator)\n    thread_pool.submit(result_queue.enqueue_from_iterator, iterator)\n',
      'R-C13-2'),
    B('return-value-dropped', _F,
      '      except StopIteration as e:\n        self._stop_enqueue(*e.args)\n        return',
      '      except StopIteration as e:\n        self._stop_enqueue()\n        return', 'R-C13-4'),
    OK('wrapper-before-check', _F,
       '  if input_iterable is not None:\n    input_iterable = _ThreadSafeIterator(input_iterable)\n',
       '  if input_iterable is None:\n    pass\n  else:\n    input_iterable = _ThreadSafeIterator(input_iterable)\n'),
]
