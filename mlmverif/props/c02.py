"""C02 — pipeline aggregation and slicing equal a brute-force group-by
(structural part only).

Which rows belong to a slice depends on runtime mask and slice-key values and
is NOT decided.  Decided are the necessary bookkeeping conditions of the state
update: the unsliced state is updated once per batch with the unmasked
function and independently of the slicers; every (slice key, mask) pair
yielded gets its own state, created on first sight and updated with the
function masked by *that* pair; masks carry one entry per row; results are
reported under exactly the keys the state holds.
"""
from __future__ import annotations

import ast

from mlmverif import cfg as cfgm
from mlmverif.core import (is_increment, increment_target, AnalysisError, Ctx, FuncInfo, is_self_attr, kwarg,
                           parent_map, unparse, walk_no_nested)
from mlmverif.effects import DIRECT, Effects

EXPLANATION = (
    'CFG dominance / AST dataflow over TransformRunner.update_state and'
    ' get_result, Slicer.new (row -> mask construction), Slicer.iterate_and_'
    'slice, TreeFn._apply_masks/_get_inputs and tree.apply_mask. Decides: the'
    ' unsliced update uses the aggregate function as taken from agg_fns (before'
    ' any with_masks rebinding), stores under MetricKey(output_key) and is not'
    ' control-dependent on the slicers; disable_slicing only skips the slicing'
    ' part; per yielded (slice_key, masks): key = MetricKey(output_key,'
    ' slice_key), state created on first sight, function masked with THIS'
    ' iteration\'s masks and the slicer\'s replace value, update stored under the'
    ' same key, exactly once per yielded pair; the row loop of the default mask'
    ' builder advances the row index exactly once per row and after recording'
    ' it, masks have one entry per row and are true exactly at the recorded'
    ' indices; slice values are normalised to tuples on both sides; masks are'
    ' applied to the selected inputs (one mask to all, or strictly zipped);'
    ' boolean-array masks filter by indexing or replace with np.where;'
    ' get_result reports every state entry under its own (metric, slice) key.'
    ' NOT decided: slice membership, per-slice aggregate values.'
)
ASSUMPTIONS = ['Aggregates behave as decided under C01/C11.']

TR = 'chainables.transform'
TF = 'chainables.tree_fns'
TT = 'chainables.tree'


def run(ctx: Ctx):
  for r in (r1, r2, r3, r4, r5, r6, r8, r9, r10, r13, r17, r23, r24, r18, r19, r20, r21, r22):
    ctx.guard(r)
  from mlmverif.props import c03
  ctx.include('R-C02-7', 'every sliced aggregate sees every slice: the slices of'
              ' a batch are one-shot generators, never shared between the'
              ' aggregates of a stage without being materialised (R-C03-6'
              ' single-pass discipline over transform.py / tree_fns.py)',
              c03.r6, ('chainables.transform', 'chainables.tree_fns'), 'R-C03-6', 8, min_instances=8)
  from mlmverif.props import c17
  ctx.include('R-C02-12', '"adding or removing slicers never changes the unsliced result, and no slice key is'
              ' invented": a pipeline reaches its workers pickled — __getstate__ of the operator classes'
              ' keeps every declared field of the instance\'s own class (R-C17-5), so subclass'
              ' configuration such as TreeAggregateFn.disable_slicing survives the round trip',
              c17.r5, min_instances=1)
  from mlmverif.props import c18
  ctx.include('R-C02-14', '"the aggregate result a pipeline reports ... equals applying the aggregate function'
              ' directly": get_result rebuilds the reported result leaf by leaf through the tree setter, so a'
              ' result keyed by plain ints (per-class counts {0: .., 2: ..}) must come back as that mapping —'
              ' a fresh branch becomes a list only for an Index key (R-C18-8)', c18.r8, min_instances=1)
  ctx.include('R-C02-15', '"for every slice key it reports exactly the aggregate over the rows belonging to that'
              ' slice ... no slice key is dropped": a pipeline assembled with chain() from same-named parts keeps'
              ' the slicers of BOTH parts, as it keeps their fns and aggregates (R-C03-3 fusing keeps the'
              ' operators)', c03.r3, min_instances=3)
  ctx.include('R-C02-11', '"applying the aggregate function directly to the selected input'
              ' columns": a column literally named like a reserved key (\'SELF\') selects'
              ' that column, not the whole batch — only the reserved OBJECT does (R-C18-4'
              ' reserved-key test: the candidate must be of the reserved type)', c18.r4,
              min_instances=4)


def r1(ctx: Ctx):
  rule = 'R-C02-1'
  ctx.rule(rule, 'unsliced update: for every aggregate the state under'
           ' MetricKey(output_key) is updated once per batch with the unmasked'
           ' function and all inputs, before and independently of the slicer'
           ' loop; disable_slicing only skips the slicing part')
  fi = ctx.repo.func(TR, 'TransformRunner.update_state')
  g = cfgm.cfg_of(fi.node)
  outer = [l for l in walk_no_nested(fi.node) if isinstance(l, ast.For)
           and unparse(l.iter) == 'self.agg_fns.items()']
  if len(outer) != 1 or not isinstance(outer[0].target, ast.Tuple):
    raise AnalysisError(f'{rule}: loop over self.agg_fns.items() not found')
  okey, fnv = (unparse(x) for x in outer[0].target.elts)
  inputs = fi.params()[2]
  state = fi.params()[1]
  upd = [n for n in g.nodes if isinstance(n.ast, ast.Assign) and isinstance(n.ast.targets[0], ast.Subscript)
         and unparse(n.ast.targets[0]) == f'{state}[MetricKey({okey})]']
  if len(upd) != 1:
    ctx.fail(rule, fi, f'update_state: {state}[MetricKey({okey})] = {fnv}.update_state(...)',
             f'{len(upd)} unsliced state updates per aggregate (exactly one'
             ' expected): the overall result is dropped or double counted',
             node=fi.node)
    return
  u = upd[0]
  v = u.ast.value
  ok = (isinstance(v, ast.Call) and unparse(v.func) == f'{fnv}.update_state'
        and [unparse(a) for a in v.args] == [f'{state}[MetricKey({okey})]', inputs])
  if ok:
    ctx.ok(rule, fi, unparse(u.ast), u.ast)
  else:
    ctx.fail(rule, fi, u.ast, 'the unsliced update does not feed the previous'
             ' unsliced state and the whole batch to the aggregate function')
  # uses the unmasked function: no with_masks rebinding can reach it within
  # the same outer iteration, and it is not inside a slicer loop
  rebind = [n for n in g.nodes if isinstance(n.ast, ast.Assign) and 'with_masks(' in unparse(n.ast.value)
            and unparse(n.ast.targets[0]) == fnv]
  pm = parent_map(fi.node)
  inner_loops = []
  cur = u.ast
  while cur in pm:
    cur = pm[cur]
    if isinstance(cur, ast.For) and cur is not outer[0]:
      inner_loops.append(cur)
  head = [n for n in g.nodes if n.kind == 'for_iter' and n.ast is outer[0]]
  bad = False
  for rb in rebind:
    reach = g.reachable([rb], avoid=lambda n: n in head, edge_ok=cfgm.only_normal)
    if u in reach:
      bad = True
  if inner_loops or bad:
    ctx.fail(rule, fi, f'update_state: unsliced update uses the unmasked {fnv}',
             'the unsliced update runs inside the slicer loop or after the'
             ' function was rebound to a masked copy: adding a slicer changes'
             ' the unsliced result', node=u.ast)
  else:
    ctx.ok(rule, fi, 'unsliced update precedes and is independent of slicing', u.ast)
  # it is reached on every path of an outer iteration (not guarded by slicing flags)
  body = [s for s, lab in head[0].succ if lab == 'true'] if head else []
  w = None
  for s in body:
    if s is u:
      continue
    w = g.must_pass(s, head + [g.exit_ret], lambda n: n is u, cfgm.only_normal)
  if w is None:
    ctx.ok(rule, fi, 'every aggregate is updated on every batch', u.ast)
  else:
    ctx.fail(rule, fi, 'update_state: unsliced update on every path',
             'an aggregate can be skipped for a batch (e.g. when slicing is'
             ' disabled or no slicer is configured)', node=u.ast, witness=w)
  dis = [c for c in g.nodes if c.kind == 'cond' and 'disable_slicing' in unparse(c.ast)]
  if dis and all(g.dominates(lambda n: n is u, c, cfgm.only_normal) is None for c in dis):
    ctx.ok(rule, fi, 'disable_slicing is tested after the unsliced update', dis[0].ast)
  else:
    ctx.fail(rule, fi, 'update_state: if tree_agg_fn.disable_slicing: continue (after the unsliced update)',
             'disable_slicing also disables (or no longer controls) the'
             ' unsliced aggregation', node=fi.node)
  ctx.floor(rule, 4)


def r2(ctx: Ctx):
  rule = 'R-C02-2'
  ctx.rule(rule, 'per-slice update: each (slice_key, masks) yielded by a slicer'
           ' gets MetricKey(output_key, slice_key); the state is created on'
           ' first sight; the function is masked with this iteration\'s masks'
           ' and the slicer\'s replace value; the update is stored under the'
           ' same key exactly once per yielded pair')
  fi = ctx.repo.func(TR, 'TransformRunner.update_state')
  g = cfgm.cfg_of(fi.node)
  sl = [l for l in walk_no_nested(fi.node) if isinstance(l, ast.For)
        and 'iterate_and_slice(' in unparse(l.iter)]
  if len(sl) != 1 or not isinstance(sl[0].target, ast.Tuple):
    raise AnalysisError(f'{rule}: loop over slicer.iterate_and_slice(inputs) not found')
  l = sl[0]
  skey, masks = (unparse(x) for x in l.target.elts)
  slicer = unparse(l.iter).split('.iterate_and_slice')[0]
  inputs = fi.params()[2]
  state = fi.params()[1]
  outer = [o for o in walk_no_nested(fi.node) if isinstance(o, ast.For) and unparse(o.iter) == 'self.agg_fns.items()'][0]
  okey, fnv = (unparse(x) for x in outer.target.elts)
  if unparse(l.iter) != f'{slicer}.iterate_and_slice({inputs})':
    ctx.fail(rule, fi, l.iter, 'slices are not computed from the batch being aggregated')
  body = l.body
  mk = [s for s in body if isinstance(s, ast.Assign) and isinstance(s.value, ast.Call)
        and unparse(s.value.func) == 'MetricKey']
  if len(mk) != 1 or [unparse(a) for a in mk[0].value.args] != [okey, skey]:
    ctx.fail(rule, fi, f'update_state: metric_key = MetricKey({okey}, {skey})',
             'the per-slice state is not keyed by this aggregate and this slice:'
             ' slices of different aggregates or values share a state',
             node=l)
    return
  mkv = unparse(mk[0].targets[0])
  ctx.ok(rule, fi, unparse(mk[0]), mk[0])
  it = [n for n in g.nodes if n.kind == 'for_iter' and n.ast is l][0]
  create = [n for n in g.nodes if isinstance(n.ast, ast.Assign) and unparse(n.ast.targets[0]) == f'{state}[{mkv}]'
            and 'create_state()' in unparse(n.ast.value)]
  guard = [c for c in g.nodes if c.kind == 'cond' and unparse(c.ast) == f'{mkv} not in {state}']
  update = [n for n in g.nodes if isinstance(n.ast, ast.Assign) and unparse(n.ast.targets[0]) == f'{state}[{mkv}]'
            and '.update_state(' in unparse(n.ast.value)]
  if create and guard and all(any(s is c_ for s, lab in gd.succ if lab == 'true') for gd in guard for c_ in create):
    ctx.ok(rule, fi, f'if {mkv} not in {state}: create_state()', create[0].ast)
  else:
    ctx.fail(rule, fi, f'update_state: if {mkv} not in {state}: {state}[{mkv}] = create_state()',
             'a slice seen for the first time does not start from a fresh state'
             ' (or an existing slice state is reset)', node=l)
  if len(update) != 1:
    ctx.fail(rule, fi, f'update_state: {state}[{mkv}] = masked.update_state({state}[{mkv}], {inputs})',
             f'{len(update)} per-slice updates per yielded slice (exactly one expected)', node=l)
    return
  up = update[0]
  call = up.ast.value
  recv = unparse(call.func.value)
  args = [unparse(a) for a in call.args]
  mask_assign = [n for n in g.nodes if isinstance(n.ast, ast.Assign) and unparse(n.ast.targets[0]) == recv
                 and isinstance(n.ast.value, ast.Call) and unparse(n.ast.value.func).endswith('.with_masks')]
  ok = bool(mask_assign) and args == [f'{state}[{mkv}]', inputs]
  if ok:
    wm = mask_assign[0].ast.value
    ok = (wm.args and unparse(wm.args[0]) == masks
          and unparse(kwarg(wm, 'replace_mask_false_with')) == f'{slicer}.replace_mask_false_with')
    # the masking of THIS iteration dominates the update inside the loop body
    starts = [s for s, lab in it.succ if lab == 'true']
    dom = all(g.must_pass(s, [up], lambda n: n in mask_assign, cfgm.only_normal) is None
              or s in mask_assign for s in starts)
    ok = ok and dom
  if ok:
    ctx.ok(rule, fi, f'{recv} = ….with_masks({masks}, replace_mask_false_with={slicer}.…); update under {mkv}', up.ast)
  else:
    ctx.fail(rule, fi, up.ast, 'the per-slice update does not use the function'
             ' masked by this iteration\'s masks (with the slicer\'s replace'
             ' value) on the previous state of the same key and the batch: rows'
             ' outside the slice leak into it or the wrong state is updated')
  # once per yielded pair
  starts = [s for s, lab in it.succ if lab == 'true']
  w = None
  for s in starts:
    if s is not up:
      w = g.must_pass(s, [it], lambda n: n is up, cfgm.only_normal) or w
  if w is None:
    ctx.ok(rule, fi, 'every yielded slice is updated', up.ast)
  else:
    ctx.fail(rule, fi, 'update_state: per-slice update on every path of the slice loop',
             'a yielded slice can be skipped: a slice key is dropped for this batch',
             node=l, witness=w)
  ctx.floor(rule, 4)


def r3(ctx: Ctx):
  rule = 'R-C02-3'
  ctx.rule(rule, 'mask construction: the default mask builder advances the row'
           ' index exactly once per row, after recording it for every slice'
           ' value of that row; masks have one entry per row, true exactly at'
           ' the recorded indices; slice values are normalised to tuples;'
           ' iterate_and_slice wraps them with the slicer\'s name')
  repo = ctx.repo
  new = repo.func(TF, 'Slicer.new')
  fn = None
  for s in ast.walk(new.node):
    if isinstance(s, ast.FunctionDef) and s.name == '_slice_mask_fn':
      fn = FuncInfo(new.module, 'Slicer.new._slice_mask_fn', s, new.cls)
  if fn is None:
    raise AnalysisError(f'{rule}: _slice_mask_fn not found')
  rows = [l for l in walk_no_nested(fn.node) if isinstance(l, ast.For) and unparse(l.iter).startswith('zip(*')]
  if len(rows) != 1:
    raise AnalysisError(f'{rule}: row loop not found')
  rl = rows[0]
  incs = [s for s in rl.body if is_increment(s)]
  all_incs = [s for s in ast.walk(rl) if isinstance(s, ast.AugAssign) or is_increment(s)]
  if len(incs) == 1 and len(all_incs) == 1:
    ix = increment_target(incs[0])
    rec = [c for c in ast.walk(rl) if isinstance(c, ast.Call) and isinstance(c.func, ast.Attribute)
           and c.func.attr == 'append' and [unparse(a) for a in c.args] == [ix]]
    before = rec and all(c.lineno < incs[0].lineno for c in rec)
    init0 = any(isinstance(s, ast.Assign) and unparse(s.targets[0]) == ix and unparse(s.value) == '0'
                for s in fn.node.body)
    if rec and before and init0:
      ctx.ok(rule, fn, f'{ix} recorded per slice value, then += 1 once per row (starts at 0)', incs[0])
    else:
      ctx.fail(rule, fn, incs[0], 'row indices are recorded after the increment,'
               ' not recorded, or do not start at 0: masks are shifted by one row')
    sz = [s for s in fn.node.body if isinstance(s, ast.Assign) and unparse(s.value) == ix]
    zeros = [c for c in ast.walk(fn.node) if isinstance(c, ast.Call) and unparse(c.func) == 'np.zeros']
    szv = unparse(sz[0].targets[0]) if sz else None
    setm = [s for s in ast.walk(fn.node) if isinstance(s, ast.Assign) and isinstance(s.targets[0], ast.Subscript)
            and unparse(s.value) == 'True']
    ok = (szv and zeros and unparse(zeros[0].args[0]) == szv and setm
          and any(isinstance(l2, ast.For) and unparse(l2.iter).endswith('.items()')
                  and unparse(setm[0].targets[0].slice) in unparse(l2.target) for l2 in ast.walk(fn.node)))
    if ok:
      ctx.ok(rule, fn, f'mask = zeros({szv}); mask[indices] = True', setm[0])
    else:
      ctx.fail(rule, fn, '_slice_mask_fn: mask = np.zeros(batch_size).astype(bool); mask[indices] = True',
               'masks are not one boolean per row, true exactly at the rows'
               ' recorded for the slice value', node=fn.node)
  else:
    ctx.fail(rule, fn, '_slice_mask_fn: batch_ix += 1 once per row',
             f'the row index is advanced {len(all_incs)} time(s) in the row loop'
             f' ({len(incs)} at row level): a row that fans out to several'
             ' slice values (or to none) shifts every later mask', node=rl)
  # every slice value a row yields is recorded (no `continue`/skip on the value)
  g_ = cfgm.cfg_of(fn.node)
  inner = [nd for nd in g_.nodes if nd.kind == 'for_iter' and isinstance(nd.ast.iter, ast.Call)
           and any(isinstance(a_, ast.Starred) for a_ in nd.ast.iter.args)
           and not unparse(nd.ast.iter).startswith('zip(')]
  if len(inner) != 1:
    raise AnalysisError(f'{rule}: the loop over the slice values of a row was not found')
  il = inner[0]
  rec_ = lambda nd: any(isinstance(c, ast.Call) and isinstance(c.func, ast.Attribute) and c.func.attr == 'append'
                        and isinstance(c.func.value, ast.Subscript) for x in cfgm.node_exprs(nd) for c in ast.walk(x))
  skipped = None
  for s_, lab in il.succ:
    if lab != 'true':
      continue
    if rec_(s_):
      continue
    w_ = g_.must_pass(s_, [il], rec_, cfgm.only_normal)
    if w_ is not None:
      skipped = w_
  if skipped is None:
    ctx.ok(rule, fn, 'every slice value yielded for a row is recorded', il.ast)
  else:
    ctx.fail(rule, fn, '_slice_mask_fn: every yielded slice value is recorded',
             'a path through the loop over a row\'s slice values goes on to the'
             ' next value without recording the row for the current one:'
             ' legitimate slice values (0, False, \'\', ...) are dropped and'
             ' their slice keys never appear in the result', node=il.ast, witness=skipped[-6:])
  from mlmverif import pat
  NORM = 'if not isinstance($sv, tuple):\n  $sv = ($sv,)'
  norm_new = pat.has(fn.node, NORM, nested=True)
  ias = repo.func(TF, 'Slicer.iterate_and_slice')
  norm = pat.search(ias.node, NORM, nested=True)
  norm_it = bool(norm)
  y = [x for x in ast.walk(ias.node) if isinstance(x, ast.Yield)]
  wrap = bool(y) and norm_it and pat.match(f'SliceKey(self.slice_name, {norm[0][1]["sv"]}), $m', y[0].value) is not None
  call = [c for c in ast.walk(ias.node) if isinstance(c, ast.Call) and unparse(c.func) == 'self.slice_mask_fn']
  sel = any(isinstance(c, ast.Call) and unparse(kwarg(c, 'key_paths')) == 'self.input_keys' for c in ast.walk(ias.node))
  if norm_new and norm_it and wrap and call and sel:
    ctx.ok(rule, ias, 'slice values normalised to tuples; SliceKey(slice_name, value); inputs selected by input_keys', ias.node)
  else:
    ctx.fail(rule, ias, 'Slicer: tuple-normalised slice values wrapped as SliceKey(self.slice_name, slice_value)',
             'slice keys are not built consistently from the slicer\'s name and'
             ' the tuple-normalised value (keys are invented or split)', node=ias.node)
  dflt = None
  for s in ast.walk(new.node):
    if isinstance(s, ast.FunctionDef) and s.name == '_default_slice_fn':
      dflt = s
  if dflt is not None and pat.has(dflt, 'return (args,)') and pat.has(
      dflt, '($a for $a, $w in zip(args, $wv, strict=True) if $a in $w)'):
    ctx.ok(rule, new, 'default slice fn: the row itself, or the values within the allowed sets', dflt)
  else:
    ctx.fail(rule, new, 'Slicer.new._default_slice_fn', 'the default slice function changed', node=new.node)
  ctx.floor(rule, 4)


def _apply_mask_modes(ctx, rule, ap):
  """The two modes of a boolean row mask over an array column select along the SAME (leading) axis."""
  items_p, = [p for p in ap.params() if p == 'items'] or [ap.params()[0]]
  a = ap.node.args
  kw = [x.arg for x in a.kwonlyargs] + [x.arg for x in a.args]
  mask_p = next((x for x in kw if 'mask' in x), None)
  rep_p = next((x for x in kw if 'replace' in x), None)
  if mask_p is None or rep_p is None:
    raise AnalysisError('apply_mask: mask / replace parameters not found')
  ifs = [x for x in ast.walk(ap.node) if isinstance(x, ast.If) and isinstance(x.test, ast.Compare) and len(x.test.ops) == 1
         and {unparse(x.test.left), unparse(x.test.comparators[0])} == {rep_p, 'DEFAULT_FILTER'}
         and any(isinstance(r, ast.Return) for b in x.body + x.orelse for r in ast.walk(b))]
  if not ifs:
    raise AnalysisError('apply_mask: the replace-or-filter decision of the boolean-mask branch was not found')
  what = 'apply_mask: replace mode and filter mode both apply the row mask along the leading axis'
  for node in ifs:
    replacing_first = isinstance(node.test.ops[0], (ast.NotEq, ast.IsNot))
    rep_body, flt_body = (node.body, node.orelse) if replacing_first else (node.orelse, node.body)

    def resolve(body):
      env = {}
      def sub(e):
        class _S(ast.NodeTransformer):
          def visit_Name(self, nm):
            return env.get(nm.id, nm) if isinstance(nm.ctx, ast.Load) else nm
        import copy as _c
        return _S().visit(_c.deepcopy(e))
      rets = []
      for st in body:
        if isinstance(st, ast.Assign) and len(st.targets) == 1 and isinstance(st.targets[0], ast.Name):
          env[st.targets[0].id] = sub(st.value)
        elif isinstance(st, ast.Return) and st.value is not None:
          rets.append((st, sub(st.value)))
      return rets

    problem = None
    rep = resolve(rep_body)
    flt = resolve(flt_body)
    if not rep or not flt:
      problem = 'one of the two modes no longer returns the masked column'
    for st, v in rep:
      if not (isinstance(v, ast.Call) and unparse(v.func) in ('np.where', 'numpy.where') and len(v.args) == 3):
        problem = problem or f'replace mode returns `{unparse(st.value)[:50]}`, not np.where(mask, items, value)'
        continue
      c_, i_, r_ = v.args
      if unparse(r_) != rep_p or unparse(i_) not in (items_p, f'np.asarray({items_p})'):
        problem = problem or 'np.where does not choose between the items and the replacement value'
      ctext = unparse(c_)
      if mask_p not in {y.id for y in ast.walk(c_) if isinstance(y, ast.Name)}:
        problem = problem or 'the condition of np.where is not the mask'
      elif not (any(k in ctext for k in ('reshape', 'expand_dims', 'newaxis', 'None]', '[..., None')) and (
          'ndim' in ctext or 'shape' in ctext)):
        problem = problem or (
            f'the condition of np.where is the bare row mask `{ctext[:40]}`: np.where broadcasts a 1-D mask of n rows against the'
            ' LAST axis of the column, while the filter mode `items[masks]` selects along the first — for a 2-D column the'
            ' replace mode masks feature columns (or raises a broadcast error): a sliced aggregate with'
            ' replace_mask_false_with reports values of the wrong rows. Extend the mask to the rank of the items first')
    for st, v in flt:
      if not (isinstance(v, ast.Subscript) and unparse(v.slice) == mask_p and unparse(v.value) in (items_p, f'np.asarray({items_p})')):
        problem = problem or f'filter mode returns `{unparse(st.value)[:50]}`, not items[mask]'
    if problem:
      ctx.fail(rule, ap, what, problem, node=node)
    else:
      ctx.ok(rule, ap, what, node)


def r17(ctx: Ctx):
  rule = 'R-C02-17'
  ctx.rule(rule, '"for all ... batched input streams including empty streams": the one-shot runner (`pipeline.make()(...)`) returns'
           ' the aggregate of nothing for an empty stream like iterate().agg_result does — it does not take'
           ' `more_itertools.last(<iterator>)` without a default, which raises ValueError("last() was called on an empty'
           ' iterable") (and, because last() also catches TypeError, reports a TypeError raised INSIDE the pipeline as that'
           ' same misleading ValueError)')
  from mlmverif.props import c19
  c19.ends_have_default(ctx, rule, ('chainables.transform',), 1)


def r18(ctx: Ctx):
  rule = 'R-C02-18'
  ctx.rule(rule, '"for every slice key it reports exactly the aggregate over the rows belonging to that slice" for fan-out slice'
           ' functions: what a user function (slice_fn, slice_mask_fn, an operator fn) RETURNS is consumed by the call that'
           ' asked for it — the pipeline code never stores the result of calling a function-valued parameter in a container'
           ' that outlives the call (a closure dict / cache, functools.cache) to hand it out again. A fan-out slice_fn may'
           ' return a generator / map / enumerate object: the second row that gets the cached object finds it exhausted and'
           ' lands in no slice')
  repo = ctx.repo
  n = 0
  for mod in ('chainables.transform', 'chainables.tree_fns'):
    mi = repo.module(mod)
    fns = list(mi.functions.values()) + [m_ for c in mi.classes.values() for m_ in c.methods.values()]
    for fi in fns:
      callables = set(fi.params())
      for _ in range(2):      # local aliases of the parameters (`user_fn = slice_fn`, also in tuple assignments)
        for x in walk_no_nested(fi.node):
          if isinstance(x, ast.Assign) and len(x.targets) == 1:
            t, v = x.targets[0], x.value
            pairs = list(zip(t.elts, v.elts)) if isinstance(t, ast.Tuple) and isinstance(v, ast.Tuple) and len(t.elts) == len(v.elts) else [(t, v)]
            for tt, vv in pairs:
              if isinstance(tt, ast.Name) and isinstance(vv, ast.Name) and vv.id in callables:
                callables.add(tt.id)
      inner = [x for x in ast.walk(fi.node) if isinstance(x, (ast.FunctionDef, ast.AsyncFunctionDef, ast.Lambda)) and x is not fi.node]
      if not inner:
        continue
      for f_in in inner:
        if isinstance(f_in, ast.Lambda):
          continue
        n += 1
        bad = None
        calls_param = lambda e: any(isinstance(c, ast.Call) and isinstance(c.func, ast.Name) and c.func.id in callables
                                    and c.func.id not in {a.arg for a in f_in.args.args}
                                    for c in ast.walk(e))
        own = {t.id for x in ast.walk(f_in) if isinstance(x, ast.Assign) for t in x.targets if isinstance(t, ast.Name)} | {
            a.arg for a in f_in.args.args}
        for x in ast.walk(f_in):
          if isinstance(x, ast.Assign) and calls_param(x.value):
            for t in x.targets:
              if isinstance(t, ast.Subscript) and isinstance(t.value, ast.Name) and t.value.id not in own:
                bad = x
          if isinstance(x, ast.Call) and isinstance(x.func, ast.Attribute) and x.func.attr in ('setdefault',) and (
              isinstance(x.func.value, ast.Name) and x.func.value.id not in own) and any(calls_param(a) for a in x.args):
            bad = x
        if any('cache' in unparse(d) for d in f_in.decorator_list) and any(
            isinstance(c, ast.Call) and isinstance(c.func, ast.Name) and c.func.id in callables for c in ast.walk(f_in)):
          bad = f_in
        what = f'{fi.qualname}.{f_in.name}: results of user callables are not kept across calls'
        if bad is None:
          ctx.ok(rule, fi, what, f_in)
        else:
          ctx.fail(rule, fi, what,
                   f'`{unparse(bad)[:70]}` in {fi.qualname}.{f_in.name} keeps what a user callable returned in a container that'
                   ' outlives the call and hands it out again: a returned generator / map / enumerate is exhausted by its first'
                   ' consumer — every later row with the same feature value gets no slices (also in later batches and runs)',
                   node=bad)
  ctx.floor(rule, 3, n)


def r19(ctx: Ctx):
  rule = 'R-C02-19'
  ctx.rule(rule, '"no slice key is invented or dropped": the slice values of the default slicer are the row\'s OWN feature'
           ' values — the row-to-mask construction iterates the feature columns as they were given (`zip(*inputs)` over'
           ' its unchanged varargs). Converting the columns first (np.asarray, astype, a list of str) changes the values:'
           ' a column mixing numbers and strings becomes all strings, so slice 7 is dropped, slice \'7\' invented and a'
           ' slice splits across batches')
  ci = ctx.repo.cls(TF, 'Slicer')
  new = ci.methods.get('new')
  inner = [x for x in ast.walk(new.node) if isinstance(x, ast.FunctionDef) and x.args.vararg is not None and any(
      isinstance(c, ast.Call) and unparse(c.func) == 'zip' and any(isinstance(a, ast.Starred) for a in c.args)
      for c in ast.walk(x))]
  if not inner:
    raise AnalysisError(f'{rule}: the row-to-mask function of Slicer.new (zip over its varargs) was not found')
  n = 0
  for f_in in inner:
    va = f_in.args.vararg.arg
    n += 1
    rebinds = [x for x in ast.walk(f_in) if isinstance(x, (ast.Assign, ast.AugAssign, ast.AnnAssign)) and any(
        isinstance(y, ast.Name) and y.id == va for t in (x.targets if isinstance(x, ast.Assign) else [x.target]) for y in ast.walk(t))]
    zips = [c for c in ast.walk(f_in) if isinstance(c, ast.Call) and unparse(c.func) == 'zip']
    direct = any(len(c.args) == 1 and isinstance(c.args[0], ast.Starred) and unparse(c.args[0].value) == va for c in zips)
    what = f'Slicer.new.{f_in.name}: rows are drawn from the feature columns as given'
    if rebinds or not direct:
      b = rebinds[0] if rebinds else zips[0]
      ctx.fail(rule, new, what,
               f'`{unparse(b)[:70]}` in {f_in.name}: the feature columns are converted / replaced before the rows are drawn:'
               ' the slice values are no longer the rows\' own values (a mixed column becomes strings, numpy scalars replace'
               ' ints) — slice keys are invented and dropped, and restricted value sets stop matching', node=b)
    else:
      ctx.ok(rule, new, what, zips[0])
  ctx.floor(rule, 1, n)


def r20(ctx: Ctx):
  rule = 'R-C02-20'
  ctx.rule(rule, '"adding or removing slicers never changes the unsliced result, and no slice key is invented": the declaring'
           ' methods of the pipeline come in pairs (agg = aggregate, add_agg = add_aggregate): a method of transform.py'
           ' whose whole body is `return self.<other>(...)` hands EVERY one of its parameters on. A parameter the alias'
           ' accepts but does not forward (disable_slicing) silently takes the default of the full method: an aggregate'
           ' declared unsliced through the alias is sliced, and the report contains slice keys nobody asked for')
  mi = ctx.repo.module(TR)
  n = 0
  for ci in mi.classes.values():
    for name, fi in ci.methods.items():
      body = [b for b in fi.node.body if not (isinstance(b, ast.Expr) and isinstance(b.value, ast.Constant))]
      if not (len(body) == 1 and isinstance(body[0], ast.Return) and isinstance(body[0].value, ast.Call)
              and isinstance(body[0].value.func, ast.Attribute) and isinstance(body[0].value.func.value, ast.Name)
              and body[0].value.func.value.id == 'self'):
        continue
      a = fi.node.args
      ps = [x.arg for x in a.posonlyargs + a.args[1:] + a.kwonlyargs] + [x.arg for x in (a.vararg, a.kwarg) if x]
      if not ps or body[0].value.func.attr not in ci.methods:
        continue
      n += 1
      used = {y.id for y in ast.walk(body[0].value) if isinstance(y, ast.Name)}
      lost = [p_ for p_ in ps if p_ not in used]
      what = f'{ci.name}.{name}: every parameter of the alias reaches {body[0].value.func.attr}()'
      if lost:
        ctx.fail(rule, fi, what,
                 f'{ci.name}.{name} accepts {lost} but `{unparse(body[0])[:80]}` does not pass {"them" if len(lost) > 1 else "it"} on:'
                 f' the value the caller gave is replaced by the default of {body[0].value.func.attr}() without a word', node=body[0])
      else:
        ctx.ok(rule, fi, what, body[0])
  ctx.floor(rule, 2, n)


def r21(ctx: Ctx):
  rule = 'R-C02-21'
  ctx.rule(rule, '"for every slice key it reports exactly the aggregate over the rows belonging to that slice ... no slice key is'
           ' dropped", for a pipeline assembled from same-named parts: the fuse (`_chain_and_fuse`) concatenates the'
           ' operator collections of the two parts. (a) Every collection it concatenates is one that `is_noop` looks at — a'
           ' part that only contributes to a collection is_noop ignores (a slicer-only part) is discarded as "no-op"'
           ' before the concatenation and its slice keys are never reported. (b) The fuse rejects what the declaring'
           ' methods reject: like add_slice() it raises on a slice name that both parts declare (a guard over'
           ' `slice_name`) — the stage would otherwise hold the slicer twice and feed every row twice to each slice'
           ' aggregate')
  ci = ctx.repo.cls(TR, 'TreeTransform')
  fuse = ci.methods.get('_chain_and_fuse')
  noop = ci.methods.get('is_noop')
  if fuse is None or noop is None:
    raise AnalysisError(f'{rule}: TreeTransform._chain_and_fuse / is_noop not found')
  n = 0
  merged = set()
  for c in ast.walk(fuse.node):
    if isinstance(c, ast.Call) and unparse(c.func).endswith('maybe_replace'):
      for k in c.keywords:
        if isinstance(k.value, ast.BinOp) and isinstance(k.value.op, ast.Add):
          merged.add(k.arg)
  if len(merged) < 2:
    raise AnalysisError(f'{rule}: the fuse no longer concatenates the operator collections in one maybe_replace call')
  looked = {x.attr for x in ast.walk(noop.node) if is_self_attr(x)}
  uses_noop = any(is_self_attr(x) is False and isinstance(x, ast.Attribute) and x.attr == 'is_noop' for x in ast.walk(fuse.node))
  for fld in sorted(merged):
    n += 1
    what = f'TreeTransform.is_noop looks at `{fld}`, which the fuse concatenates'
    if fld in looked or fld.rstrip('_') in looked or not uses_noop:
      ctx.ok(rule, noop, what, noop.node)
    else:
      ctx.fail(rule, noop, what,
               f'the fuse concatenates `{fld}` of the two parts but discards a part whose `is_noop` is true, and is_noop does not'
               f' look at `{fld}`: a part that only adds {fld} is dropped — its slice keys never appear in the report', node=noop.node)
  # (b) duplicate slice names
  n += 1
  guards = []
  for x in ast.walk(fuse.node):
    if isinstance(x, ast.If) and any(isinstance(y, ast.Raise) for b in x.body for y in ast.walk(b)):
      txt = unparse(x.test)
      for nm in {y.id for y in ast.walk(x.test) if isinstance(y, ast.Name)}:
        for a in ast.walk(fuse.node):
          if isinstance(a, ast.Assign) and any(isinstance(t, ast.Name) and t.id == nm for t in a.targets):
            txt += ' ' + unparse(a.value)
      guards.append(txt)
  what = 'TreeTransform._chain_and_fuse rejects a slice name declared by both parts'
  if 'slicers' in merged and not any('slice_name' in g_ for g_ in guards):
    ctx.fail(rule, fuse, what,
             'the fuse concatenates the slicers of both parts without comparing their slice names (add_slice() raises'
             ' "Duplicate slice name" for the same declaration on one transform): a slicer declared by both parts runs'
             ' twice per batch and every slice aggregate counts each row twice', node=fuse.node)
  else:
    ctx.ok(rule, fuse, what, fuse.node)
  ctx.floor(rule, 4, n)


def r4(ctx: Ctx):
  rule = 'R-C02-4'
  ctx.rule(rule, 'mask application and reporting: masks are applied to the'
           ' selected inputs (one mask to all inputs, several zipped strictly);'
           ' a boolean-array mask filters by indexing or replaces with'
           ' np.where; the masked inputs feed the aggregate; get_result reports'
           ' every state entry under its own (metric, slice) key')
  repo = ctx.repo
  gi = repo.func(TF, 'TreeFn._get_inputs')
  from mlmverif import pat
  sel_ = pat.search(gi.node, '$f = $$v[self.input_keys]')
  if sel_ and pat.has(gi.node, f'if self.masks:\n  {sel_[0][1]["f"]} = self._apply_masks({sel_[0][1]["f"]})') and any(
      isinstance(r_, ast.Return) and unparse(r_.value) == sel_[0][1]['f'] for r_ in walk_no_nested(gi.node)):
    ctx.ok(rule, gi, '_get_inputs selects by input_keys then applies masks', gi.node)
  else:
    ctx.fail(rule, gi, '_get_inputs: select input_keys, then self._apply_masks(fn_inputs) when masks are set',
             'masks are not applied to the inputs the aggregate sees', node=gi.node)
  am = repo.func(TF, 'TreeFn._apply_masks')
  t = unparse(am.node)
  one = 'case (mask,)' in t or 'case [mask]' in t
  many = 'zip(items, self.masks, strict=True)' in t
  rep = 'replace_false_with=self.replace_mask_false_with' in t
  acc = pat.search(am.node, '$r = []')
  if one and many and rep and acc and pat.has(am.node, f'return tuple({acc[0][1]["r"]})'):
    ctx.ok(rule, am, '_apply_masks: one mask for all inputs or strict zip; replace value forwarded', am.node)
  else:
    ctx.fail(rule, am, '_apply_masks: (mask,) -> every item; several -> zip(items, masks, strict=True)',
             f'mask broadcasting changed (single: {one}, strict zip: {many},'
             f' replace forwarded: {rep})', node=am.node)
  ap = repo.func(TT, 'apply_mask')
  _apply_mask_modes(ctx, rule, ap)
  eff = Effects(repo)
  if eff.mutations(ap, {'items': DIRECT}):
    ctx.fail(rule, ap, 'apply_mask leaves items untouched', 'apply_mask mutates the batch it masks', node=ap.node)
  ta = repo.func(TF, 'TreeAggregateFn.update_state')
  ps_ = ta.params()
  got_in = pat.search(ta.node, f'$f, $k = (self._get_inputs({ps_[2]}), {{}})') or pat.search(
      ta.node, f'$f = self._get_inputs({ps_[2]})')
  aliases = set()
  if got_in:
    aliases.add(got_in[0][1]['f'])
    for _ in range(2):       # `a = f` / `a, k = f, {}`: the selected inputs under another local name
      for x in walk_no_nested(ta.node):
        if isinstance(x, ast.Assign) and len(x.targets) == 1:
          t_, v_ = x.targets[0], x.value
          pairs = list(zip(t_.elts, v_.elts)) if isinstance(t_, ast.Tuple) and isinstance(v_, ast.Tuple) and len(t_.elts) == len(v_.elts) else [(t_, v_)]
          for tt, vv in pairs:
            if isinstance(tt, ast.Name) and isinstance(vv, ast.Name) and vv.id in aliases:
              aliases.add(tt.id)
  if got_in and any(pat.has(ta.node, f'{ps_[1]} = self._actual_fn.update_state({ps_[1]}, *{al}, **$kw)') for al in sorted(aliases)):
    ctx.ok(rule, ta, 'aggregate sees the (masked) selected inputs', ta.node)
  else:
    ctx.fail(rule, ta, 'TreeAggregateFn.update_state: _actual_fn.update_state(state, *self._get_inputs(inputs))',
             'the aggregate is not fed the masked, selected inputs', node=ta.node)
  gr = repo.func(TR, 'TransformRunner.get_result')
  loops = [l for l in walk_no_nested(gr.node) if isinstance(l, ast.For) and unparse(l.iter) == f'{gr.params()[1]}.items()']
  ok = False
  if len(loops) == 1:
    l = loops[0]
    kv, sv_ = (unparse(x) for x in l.target.elts) if isinstance(l.target, ast.Tuple) else ('', '')
    # entries of OTHER runners (chained stages share one state) may be skipped
    foreign = {id(y) for st_ in l.body if isinstance(st_, ast.If)
               and unparse(st_.test) in (f'{kv}.metrics not in self.agg_fns', f'not {kv}.metrics in self.agg_fns')
               for b_ in st_.body for y in ast.walk(b_) if isinstance(y, ast.Continue)}
    skip = any(isinstance(x, (ast.Continue, ast.Break)) and id(x) not in foreign for x in ast.walk(l))
    o1 = pat.search(l, f'$o = self.agg_fns[{kv}.metrics].get_result({sv_})', nested=True)
    ov = o1[0][1]['o'] if o1 else '_'
    fl = pat.search(l, f'$fk = tuple((MetricKey($m, {kv}.slice) for $m in {kv}.metrics))', nested=True)
    fkv = fl[0][1]['fk'] if fl else '_'
    ok = (not skip and bool(o1) and bool(fl)
          and pat.has(l, f'{ov} = tree.TreeMapView({ov})[{kv}.metrics]', nested=True)
          and pat.has(l, f'$r = $r.copy_and_set({fkv}, {ov})', nested=True)
          and pat.has(l, f'{fkv} = {kv}.metrics', nested=True))
  if ok:
    ctx.ok(rule, gr, 'get_result: one entry per state key, sliced keys as MetricKey(metric, slice)', gr.node)
  else:
    ctx.fail(rule, gr, 'get_result: for key, fn_state in state.items(): result[...] = get_result(fn_state)',
             'results are not reported for every state entry under its own'
             ' (metric, slice) key: slice keys are dropped, merged or invented',
             node=gr.node)
  mk = repo.cls(TR, 'MetricKey')
  if mk.is_dataclass and mk.dataclass_kw.get('frozen') and [f.name for f in mk.fields] == ['metrics', 'slice']:
    ctx.ok(rule, gr, 'MetricKey is a frozen (metrics, slice) pair', mk.node)
  else:
    ctx.fail(rule, gr, 'MetricKey: frozen dataclass (metrics, slice)', 'state keys changed shape', node=mk.node)
  ctx.floor(rule, 6)


def r9(ctx: Ctx):
  rule = 'R-C02-9'
  ctx.rule(rule, '"intra-example masks": a nested mask/element is classified by VALUE or'
           ' STRUCTURE, never by truthiness: in a recursive tree function (one that'
           ' calls itself on an element variable v), an if/elif chain that recurses on v'
           ' in one branch does not decide another branch by `v` / `not v` — an empty'
           ' nested container is falsy, so it would be treated as False (dropped or'
           ' replaced) instead of being recursed into and kept as an empty element;'
           ' the example then vanishes from the masked column while the unmasked'
           ' column keeps it and the two columns are mis-paired')
  repo = ctx.repo
  n = 0
  for mod in (TT, TF):
    mi = repo.module(mod)
    fns = list(mi.functions.values()) + [m_ for c in mi.classes.values() for m_ in c.methods.values()]
    for fi in fns:
      for top in walk_no_nested(fi.node):
        if not isinstance(top, ast.If):
          continue
        # flatten the if/elif chain starting here
        chain, cur = [], top
        while True:
          chain.append((cur.test, cur.body))
          if len(cur.orelse) == 1 and isinstance(cur.orelse[0], ast.If):
            cur = cur.orelse[0]
          else:
            chain.append((None, cur.orelse))
            break
        rec_vars = set()
        for _, body in chain:
          for b in body:
            for c in ast.walk(b):
              if isinstance(c, ast.Call) and unparse(c.func).split('.')[-1] == fi.name:
                for a in list(c.args) + [k.value for k in c.keywords]:
                  if isinstance(a, ast.Name):
                    rec_vars.add(a.id)
        if not rec_vars:
          continue
        n += 1
        bad = None
        for test, _ in chain:
          if test is None:
            continue
          t = test
          while isinstance(t, ast.UnaryOp) and isinstance(t.op, ast.Not):
            t = t.operand
          if isinstance(t, ast.Call) and unparse(t.func) == 'bool' and t.args:
            t = t.args[0]
          if isinstance(t, ast.Name) and t.id in rec_vars:
            bad = test
        if bad is not None:
          ctx.fail(rule, fi, f'{fi.qualname}: branches of the recursion on a nested element test value/structure, not truthiness',
                   f'`{unparse(bad)}` decides a branch by the truthiness of an element the same chain'
                   ' recurses into: an empty nested mask/container ([] or {}) is falsy and is handled'
                   ' as "False" (dropped / replaced) instead of being kept as an empty element', node=bad)
        else:
          ctx.ok(rule, fi, f'{fi.qualname}: recursion chain classifies by value/structure', top)
  ctx.floor(rule, 2, n)


def r10(ctx: Ctx):
  rule = 'R-C02-10'
  ctx.rule(rule, '"the aggregate result a pipeline reports for a stream equals applying the'
           ' aggregate function directly": every evaluation starts from FRESH aggregate states'
           ' — each create_state() in transform.py / tree_fns.py derives what it returns from'
           ' create_state()/new calls made in that very invocation; it never hands out (a'
           ' shallow copy of) state objects kept on the runner (attribute, cached_property).'
           ' Accumulators are updated in place, so a shared initial state makes the second'
           ' stream on the same runner start from the totals of the first')
  repo = ctx.repo
  n = 0
  for mod in (TR, TF):
    for ci in repo.module(mod).classes.values():
      fi = ci.methods.get('create_state')
      if fi is None:
        continue
      rets = [x for x in walk_no_nested(fi.node) if isinstance(x, ast.Return) and x.value is not None]
      if not rets:
        continue
      n += 1
      # locals of the function (generator expressions etc.) count as made here
      local_defs = {t.id: x.value for x in walk_no_nested(fi.node) if isinstance(x, ast.Assign)
                    for t in x.targets if isinstance(t, ast.Name)}

      def fresh(e, depth=0):
        """Does e (transitively through locals) make its states by calls in this invocation?"""
        if depth > 3:
          return False
        calls = [c for c in ast.walk(e) if isinstance(c, ast.Call) and isinstance(c.func, ast.Attribute)
                 and c.func.attr in ('create_state', 'new', 'make')]
        calls += [c for c in ast.walk(e) if isinstance(c, ast.Call) and isinstance(c.func, ast.Name) and (
            c.func.id[:1].isupper() or c.func.id in ('copy', 'deepcopy'))]
        if calls:
          return True
        return any(isinstance(y, ast.Name) and y.id in local_defs and fresh(local_defs[y.id], depth + 1)
                   for y in ast.walk(e))

      def kept(e):
        """Reads of self attributes that are not methods being called (state kept on the object)."""
        out = []
        for y in ast.walk(e):
          if is_self_attr(y) and y.attr.startswith('_') and 'state' in y.attr:
            out.append(y)
        return out

      bad = [r_ for r_ in rets if not fresh(r_.value) or kept(r_.value)]
      if bad:
        ctx.fail(rule, fi, f'{ci.name}.create_state makes fresh states on every call',
                 f'`{unparse(bad[0])[:70]}` returns states that were not created in this call (kept on the'
                 ' runner): accumulators are updated in place, so the next iterate()/__call__ on the same'
                 ' runner continues from the previous stream\'s totals — only the unsliced result goes stale,'
                 ' slice states are still created per run', node=bad[0])
      else:
        ctx.ok(rule, fi, f'{ci.name}.create_state: states created per call', rets[0])
  ctx.floor(rule, 3, n)


def r13(ctx: Ctx):
  rule = 'R-C02-13'
  ctx.rule(rule, '"exactly the aggregate over the rows (or masked elements) belonging to that slice": an'
           ' array mask FILTERS by boolean indexing only when it is known to be boolean. In apply_mask'
           ' the fast path `np.asarray(items)[masks]` / `np.where(masks, ...)` is dominated by a test'
           ' that the mask\'s dtype IS bool (== bool / np.bool_, kind == \'b\'); a wider guard (e.g. "not'
           ' object") sends 0/1 integer masks down the same path, where they are read as row'
           ' POSITIONS: the slice aggregates rows 0 and 1 repeated instead of the rows where the mask'
           ' is 1')
  fi = ctx.repo.func(TT, 'apply_mask')
  g = cfgm.cfg_of(fi.node)
  a_ = fi.node.args
  mp = next((p_.arg for p_ in a_.posonlyargs + a_.args + a_.kwonlyargs if p_.annotation is not None
             and 'bool' in unparse(p_.annotation)), None)
  if mp is None:
    raise AnalysisError(f'{rule}: apply_mask has no parameter annotated as a tree of bool')
  fancy = [nd for nd in g.nodes if nd.kind in ('stmt', 'cond') and any(
      isinstance(x, ast.Subscript) and isinstance(x.slice, ast.Name) and x.slice.id == mp
      for x in cfgm.node_exprs(nd))]
  if not fancy:
    raise AnalysisError(f'{rule}: apply_mask no longer indexes with the mask array')

  def is_bool_test(t):
    for c in ast.walk(t):
      if isinstance(c, ast.Compare) and len(c.ops) == 1 and isinstance(c.ops[0], (ast.Eq, ast.Is)):
        sides = [unparse(c.left), unparse(c.comparators[0])]
        if any('dtype' in s_ for s_ in sides) and any(s_ in ('bool', 'np.bool_', 'np.dtype(bool)', "'b'", '"b"') for s_ in sides):
          return True
      if isinstance(c, ast.Call) and unparse(c.func) in ('np.issubdtype',) and len(c.args) == 2 and unparse(c.args[1]) in (
          'np.bool_', 'bool'):
        return True
    return False

  n = 0
  for nd in fancy:
    n += 1
    guard = lambda q: q.kind == 'cond' and is_bool_test(q.ast)
    # every path to the indexing passes the TRUE edge of a bool-dtype test
    def edge_ok(a, b, lab):
      if lab in ('exc', 'close'):
        return False
      return True
    reach = g.reachable([g.entry], avoid=guard, edge_ok=edge_ok)
    via_false = False
    for q in g.nodes:
      if guard(q):
        fs = [s_ for s_, lab in q.succ if lab == 'false']
        r2_ = g.reachable(fs, avoid=guard, edge_ok=edge_ok, include_src=True)
        if nd in r2_:
          via_false = True
    if nd in reach or via_false:
      ctx.fail(rule, fi, 'apply_mask: boolean indexing only under a bool-dtype test of the mask',
               f'`{nd.text()[:50]}` is reachable without the mask having been tested for a boolean dtype: an integer'
               ' 0/1 mask is then used as fancy index (row positions) and the slice is computed over the wrong'
               ' rows — all keys present, unsliced result unchanged, values silently wrong', node=nd.ast)
    else:
      ctx.ok(rule, fi, 'mask indexing guarded by dtype == bool', nd.ast)
  ctx.floor(rule, 1, n)


def r5(ctx: Ctx):
  rule = 'R-C02-5'
  ctx.rule(rule, 'slices do not inherit each other\'s mask configuration: when'
           ' the per-slice function is derived from the previously masked one'
           ' (`f = f.with_masks(...)` inside the slicer loops), with_masks must'
           ' be a total override — every return path rebuilds the function'
           ' with masks AND replace_mask_false_with taken from its own'
           ' parameters')
  from mlmverif import pat
  up = ctx.repo.func(TR, 'TransformRunner.update_state')
  chained = [n for n, b in pat.search(up.node, '$f = $f.with_masks(___)')]
  derived = [n for n, b in pat.search(up.node, '$g = $f.with_masks(___)')]
  if not derived:
    raise AnalysisError(f'{rule}: update_state does not mask the aggregate function per slice')
  wm = ctx.repo.func(TF, 'TreeFn.with_masks')
  ps = wm.params()[1:]
  if len(ps) != 2:
    raise AnalysisError(f'{rule}: with_masks has parameters {ps}')
  p_masks, p_repl = ps
  if not chained:
    ctx.ok(rule, up, 'per-slice function derived from the loop-invariant aggregate function',
           derived[0])
    ctx.floor(rule, 1)
    return
  ctx.ok(rule, up, f'chained derivation `{unparse(chained[0])[:60]}`: total override required',
         chained[0])
  rets = [x for x in walk_no_nested(wm.node) if isinstance(x, ast.Return)]
  if not rets:
    raise AnalysisError(f'{rule}: with_masks has no return')
  for r_ in rets:
    v = r_.value
    got = {}
    if isinstance(v, ast.Call) and unparse(v.func) in ('dc.replace', 'dataclasses.replace') and (
        v.args and unparse(v.args[0]) == 'self'):
      got = {k.arg: unparse(k.value) for k in v.keywords if k.arg}
    elif isinstance(v, ast.Call):
      raise AnalysisError(f'{rule}: unsupported construction `{unparse(v)[:50]}` in with_masks')
    missing = [f for f, p_ in (('masks', p_masks), ('replace_mask_false_with', p_repl))
               if got.get(f) != p_]
    if missing:
      ctx.fail(rule, wm, r_,
               f'with_masks returns `{unparse(v)[:70]}` which keeps the receiver\'s'
               f' {missing}: update_state derives each slice\'s function from the'
               ' previous slice\'s masked function, so a slicer inherits the'
               ' previous slicer\'s replacement value / masks and aggregates'
               ' rows that do not belong to its slice')
    else:
      ctx.ok(rule, wm, f'return overrides masks and replace value from the parameters', r_)
  ctx.floor(rule, 2)


def r6(ctx: Ctx):
  rule = 'R-C02-6'
  ctx.rule(rule, 'no slice key dropped on restore/continue: the iterator\'s'
           ' aggregate state is built from EVERY entry of the state it is'
           ' given (unsliced and per-slice keys), filtered only by whether'
           ' the entry\'s metric belongs to the runner')
  fi = ctx.repo.func(TR, '_RunnerIterator.__init__')
  sp = 'state'
  if sp not in fi.params():
    raise AnalysisError(f'{rule}: _RunnerIterator.__init__ has no `state` parameter')
  asg = [x for x in walk_no_nested(fi.node) if isinstance(x, ast.Assign)
         and any(is_self_attr(t, 'agg_state') for t in x.targets)]
  if len(asg) != 1:
    raise AnalysisError(f'{rule}: expected one store to self.agg_state, found {len(asg)}')
  v = asg[0].value
  ok = None
  why = ''
  if isinstance(v, ast.DictComp) and len(v.generators) == 1:
    gen = v.generators[0]
    it = unparse(gen.iter)
    if it == f'{sp}.items()' and isinstance(gen.target, ast.Tuple) and len(gen.target.elts) == 2:
      kn, vn = (unparse(e) for e in gen.target.elts)
      if unparse(v.key) == kn and unparse(v.value) == vn:
        conds = [unparse(c) for c in gen.ifs]
        bad = [c for c in conds if not (c.startswith(f'{kn}.metrics in ') or c.startswith(
            f'{kn}.metrics not in '))]
        if bad:
          ok, why = False, f'entries are additionally filtered by `{bad[0]}`'
        else:
          ok = True
      else:
        ok, why = False, f'entries are re-keyed/re-valued as {unparse(v.key)}: {unparse(v.value)[:40]}'
    else:
      ok, why = False, (f'the keys are drawn from `{it[:50]}` and not from the given state:'
                        ' per-slice entries of the given state are lost')
  elif unparse(v) in (f'dict({sp})', f'{sp}.copy()', f'{{**{sp}}}', sp):
    ok = True
  if ok is None:
    raise AnalysisError(f'{rule}: unsupported construction of agg_state `{unparse(v)[:60]}`')
  if ok:
    ctx.ok(rule, fi, f'agg_state keeps every runner entry of `{sp}`', asg[0])
  else:
    ctx.fail(rule, fi, asg[0],
             f'_RunnerIterator builds its aggregate state so that {why}: slice'
             ' keys present in the incoming state (slices seen only in earlier'
             ' batches) are dropped or reset')
  ctx.floor(rule, 1)


STR_PASSES = ('__contains__', '__iter__', '__len__', '__getitem__')
STR_PASSES_ABC = ('Iterable', 'Sequence', 'Container', 'Collection', 'Sized', 'Reversible')


def _str_passing_test(t: ast.AST) -> str | None:
  """Name tested by a container test that a plain str also passes."""
  if isinstance(t, ast.Call) and unparse(t.func) == 'hasattr' and len(t.args) == 2 and isinstance(
      t.args[0], ast.Name) and isinstance(t.args[1], ast.Constant) and t.args[1].value in STR_PASSES:
    return t.args[0].id
  if isinstance(t, ast.Call) and unparse(t.func) == 'isinstance' and len(t.args) == 2 and isinstance(
      t.args[0], ast.Name):
    kinds = t.args[1].elts if isinstance(t.args[1], ast.Tuple) else [t.args[1]]
    names = [unparse(k).split('.')[-1] for k in kinds]
    if any(n in STR_PASSES_ABC for n in names) and 'str' not in names:
      return t.args[0].id
  return None


def r8(ctx: Ctx):
  rule = 'R-C02-8'
  ctx.rule(rule, 'a single string is ONE slice value / key, not a container of'
           ' characters: where key or value specifications are normalised'
           ' ("wrap a single value, keep a collection"), the collection test'
           ' is not one that a plain str passes (hasattr __contains__/__iter__,'
           ' isinstance Iterable/Sequence/Container without excluding str) —'
           ' otherwise `value in "en-US"` becomes a substring test and slice'
           ' keys outside the restricted set are invented')
  n = 0
  hits = 0
  for mod in (TF, TT, TR):
    mi = ctx.repo.module(mod)
    fns = list(mi.functions.values()) + [m for c in mi.classes.values() for m in c.methods.values()]
    for fi in fns:
      n += 1
      for x in ast.walk(fi.node):
        if not isinstance(x, (ast.IfExp, ast.If)):
          continue
        tests = x.test.values if isinstance(x.test, ast.BoolOp) else [x.test]
        neg_str = any(isinstance(t, ast.UnaryOp) and isinstance(t.op, ast.Not) and 'str' in unparse(t)
                      for t in tests) or 'str' in unparse(x.test)
        for t in tests:
          v = _str_passing_test(t)
          if v is None or neg_str:
            continue
          branches = [x.body, x.orelse] if isinstance(x, ast.IfExp) else [
              *[s_ for s_ in x.body], *[s_ for s_ in x.orelse]]
          wraps = any(isinstance(y, (ast.Tuple, ast.List)) and len(y.elts) == 1 and isinstance(
              y.elts[0], ast.Name) and y.elts[0].id == v for b in branches for y in ast.walk(b))
          if wraps:
            hits += 1
            ctx.fail(rule, fi, f'{fi.qualname}: wrap-a-single-value test treats str as a scalar',
                     f'{fi.qualname} decides between "use `{v}` as a collection" and'
                     f' "wrap `{v}` as a single value" with `{unparse(t)}`, which a plain'
                     ' string passes: a single string value is then used as a'
                     ' collection of its characters/substrings', node=x)
  # positive control: the detector must recognise the pitfall shape
  probe = ast.parse("w = v if hasattr(v, '__contains__') else (v,)").body[0].value
  if _str_passing_test(probe.test) != 'v':
    raise AnalysisError(f'{rule}: positive control not recognised')
  ctx.ok(rule, None, f'{n} functions of tree_fns/tree/transform: no str-passing collection test'
         f' decides a wrap ({hits} found); positive control recognised', where='ml_metrics/_src/chainables')
  ctx.floor(rule, 40, n)


def r22(ctx: Ctx):
  rule = 'R-C02-22'
  ctx.rule(rule, '"for every slice key it reports exactly the aggregate over the rows belonging to that slice", also for a pipeline'
           ' that was pickled to a worker: a module-level str / number constant that serves as the DEFAULT of an operator'
           ' field or parameter (tree.DEFAULT_FILTER, the "filter, do not replace" marker of a slicer) travels inside the'
           ' pickled operator and comes back as an EQUAL but not identical object. Every comparison against such a constant'
           ' in the chainables modules uses == / != — an identity test (`is not DEFAULT_FILTER`) is true for every'
           ' unpickled default slicer, which then REPLACES masked-out rows by the marker string instead of dropping them')
  repo = ctx.repo
  mods = [repo.module(x) for x in (TT, TF, TR)]
  consts = {}
  for mi in mods:
    for st in mi.tree.body:
      if isinstance(st, ast.Assign) and len(st.targets) == 1 and isinstance(st.targets[0], ast.Name) and isinstance(st.value, ast.Constant) \
          and isinstance(st.value.value, (str, int, float)) and not isinstance(st.value.value, bool):
        consts[st.targets[0].id] = mi
  used_as_default = set()
  for mi in mods:
    for x in ast.walk(mi.tree):
      defaults = []
      if isinstance(x, (ast.FunctionDef, ast.AsyncFunctionDef, ast.Lambda)):
        defaults = [d for d in x.args.defaults + x.args.kw_defaults if d is not None]
      elif isinstance(x, ast.AnnAssign) and x.value is not None:
        defaults = [x.value]
      for d in defaults:
        nm = d.attr if isinstance(d, ast.Attribute) else d.id if isinstance(d, ast.Name) else None
        if nm in consts:
          used_as_default.add(nm)
  if not used_as_default:
    raise AnalysisError(f'{rule}: no module-level constant serves as an operator default any more (DEFAULT_FILTER expected)')
  n = 0
  for mi in mods:
    fns = list(mi.functions.values()) + [m_ for c in mi.classes.values() for m_ in c.methods.values()]
    for fi in fns:
      for c in ast.walk(fi.node):
        if not isinstance(c, ast.Compare):
          continue
        for op, right in zip(c.ops, c.comparators):
          for side in (c.left, right):
            nm = side.attr if isinstance(side, ast.Attribute) else side.id if isinstance(side, ast.Name) else None
            if nm in used_as_default:
              n += 1
              what = f'{fi.qualname}: `{unparse(c)[:50]}` compares the default marker by value'
              if isinstance(op, (ast.Is, ast.IsNot)):
                ctx.fail(rule, fi, what,
                         f'`{unparse(c)}` tests the IDENTITY of `{nm}` (a {type(consts[nm].tree.body[0]).__name__ and "str/number"} constant that is an'
                         ' operator default): after a pickle round trip the default is an equal, non-identical object — the test'
                         ' answers "a replacement value was configured" for every default slicer on a worker', node=c)
              else:
                ctx.ok(rule, fi, what, c)
  ctx.floor(rule, 3, n)


def r23(ctx: Ctx):
  rule = 'R-C02-23'
  ctx.rule(rule, '"for every slice key it reports exactly the aggregate over the rows belonging to that slice", batch after batch:'
           ' the row-to-mask functions a Slicer builds are functions of the CURRENT batch only. The nested functions of'
           ' Slicer.new keep no state between calls: they neither write into a container of the enclosing scope'
           ' (`<free name>[k] = ...`, `.update(...)`, `.append(...)`, `.setdefault(...)`) nor re-bind an enclosing name'
           ' (`nonlocal`). Masks remembered for "the same columns" (compared by identity) are replayed for a later batch'
           ' when the source refills its arrays in place: rows land in the wrong slices, new slices are never reported')
  ci = ctx.repo.cls(TF, 'Slicer')
  new = ci.methods.get('new')
  if new is None:
    raise AnalysisError(f'{rule}: Slicer.new not found')
  n = 0
  for f_in in ast.walk(new.node):
    if not isinstance(f_in, ast.FunctionDef) or f_in is new.node:
      continue
    n += 1
    a = f_in.args
    own = {x.arg for x in a.posonlyargs + a.args + a.kwonlyargs} | {x.arg for x in (a.vararg, a.kwarg) if x}
    for x in ast.walk(f_in):
      if isinstance(x, (ast.Assign, ast.AnnAssign, ast.AugAssign)):
        for t in (x.targets if isinstance(x, ast.Assign) else [x.target]):
          for y in ast.walk(t):
            if isinstance(y, ast.Name) and isinstance(y.ctx, ast.Store):
              own.add(y.id)
      if isinstance(x, (ast.For, ast.comprehension)):
        own |= {y.id for y in ast.walk(x.target) if isinstance(y, ast.Name)}
      if isinstance(x, ast.NamedExpr):
        own.add(x.target.id)
    bad = None
    for x in ast.walk(f_in):
      if isinstance(x, ast.Nonlocal):
        bad = x
      if isinstance(x, (ast.Assign, ast.AugAssign)):
        for t in (x.targets if isinstance(x, ast.Assign) else [x.target]):
          if isinstance(t, ast.Subscript) and isinstance(t.value, ast.Name) and t.value.id not in own:
            bad = x
      if isinstance(x, ast.Call) and isinstance(x.func, ast.Attribute) and x.func.attr in ('update', 'append', 'extend', 'setdefault', 'add',
                                                                                            'insert', 'pop', 'clear') \
          and isinstance(x.func.value, ast.Name) and x.func.value.id not in own:
        bad = x
    what = f'Slicer.new.{f_in.name}: no state is kept between two batches'
    if bad is not None:
      ctx.fail(rule, new, what,
               f'`{unparse(bad)[:70]}` in {f_in.name} writes into the enclosing scope: what one batch computed is available to the next —'
               ' masks of an earlier batch can be replayed for a later one', node=bad)
    else:
      ctx.ok(rule, new, what, f_in)
  ctx.floor(rule, 2, n)


def r24(ctx: Ctx):
  rule = 'R-C02-24'
  ctx.rule(rule, '"for every slice key it reports exactly the aggregate over the rows belonging to that slice", however the aggregate\'s'
           ' inputs are BOUND: positional or by keyword, what reaches the aggregate function is what `_get_inputs` selected'
           ' — the one place where the slice masks are applied. In TreeAggregateFn.update_state the `self._get_inputs(...)` call'
           ' dominates the call of the aggregate\'s update_state (CFG): a second selection path for keyword-bound inputs'
           ' (`as_view(inputs)[self.input_keys]`, masks applied only under some condition) updates every slice with the'
           ' whole unmasked batch')
  ci = ctx.repo.cls(TF, 'TreeAggregateFn')
  fi = ci.methods.get('update_state')
  if fi is None:
    raise AnalysisError(f'{rule}: TreeAggregateFn.update_state not found')
  g = cfgm.cfg_of(fi.node)
  sel = lambda nd: any(isinstance(c, ast.Call) and is_self_attr(c.func) and c.func.attr == '_get_inputs' for c in cfgm.node_exprs(nd))
  upd = [nd for nd in g.nodes if any(isinstance(c, ast.Call) and isinstance(c.func, ast.Attribute) and c.func.attr == 'update_state'
                                       and '_actual_fn' in unparse(c.func.value) for c in cfgm.node_exprs(nd))]
  if not upd:
    raise AnalysisError(f'{rule}: the call of the aggregate\'s update_state was not found')
  n = 0
  for u in upd:
    n += 1
    w = g.dominates(sel, u, cfgm.only_normal)
    what = 'TreeAggregateFn.update_state: the aggregate is fed what _get_inputs selected (and masked)'
    if w is None:
      ctx.ok(rule, fi, what, u.ast)
    else:
      ctx.fail(rule, fi, what,
               'a path reaches the aggregate\'s update_state without passing `self._get_inputs(...)`: on that path the inputs are'
               ' selected another way and the slice masks are not (or only conditionally) applied — a slice is updated with'
               ' rows that do not belong to it', node=u.ast, witness=w)
  ctx.floor(rule, 1, n)


from mlmverif.selfcheck import B, OK  # noqa: E402

_T = 'chainables/transform.py'
_F = 'chainables/tree_fns.py'
VARIANTS = [
    OK('merged-state-stored-through-a-local', 'chainables/transform.py',
       "          states_by_fn[key] = fn_state\n", "          merged_so_far = fn_state\n          states_by_fn[key] = merged_so_far\n"),
    OK('aggregate-inputs-through-a-local', 'chainables/tree_fns.py',
       "      fn_inputs, kw_inputs = self._get_inputs(inputs), {}\n      if self.input_argkeys:", "      selected = self._get_inputs(inputs)\n      fn_inputs, kw_inputs = selected, {}\n      if self.input_argkeys:"),
    B('keyword-bound-inputs-selected-beside-get-inputs', 'chainables/tree_fns.py',
      "      fn_inputs, kw_inputs = self._get_inputs(inputs), {}\n      if self.input_argkeys:\n        fn_inputs, kw_inputs = (), dict(zip(self.input_argkeys, fn_inputs))\n      state = self._actual_fn.update_state(",
      "      if self.input_argkeys:\n        selected = tree.TreeMapView.as_view(inputs)[self.input_keys]\n        fn_inputs, kw_inputs = (), dict(zip(self.input_argkeys, selected))\n      else:\n        fn_inputs, kw_inputs = self._get_inputs(inputs), {}\n      state = self._actual_fn.update_state(", 'R-C02-24'),
    B('slicer-remembers-the-masks-of-the-last-batch', 'chainables/tree_fns.py',
      "    def _slice_mask_fn(*inputs):\n", "    last_batch = {}\n\n    def _slice_mask_fn(*inputs):\n      last_batch.update(inputs=inputs)\n", 'R-C02-23'),
    OK('filter-marker-compared-the-other-way-round', 'chainables/tree.py',
       "        if replace_false_with != DEFAULT_FILTER:\n          result.append(replace_false_with)", "        if not (replace_false_with == DEFAULT_FILTER):\n          result.append(replace_false_with)"),
    B('filter-marker-compared-by-identity', 'chainables/tree.py',
      "        if replace_false_with != DEFAULT_FILTER:\n          result.append(replace_false_with)", "        if replace_false_with is not DEFAULT_FILTER:\n          result.append(replace_false_with)", 'R-C02-22'),
    B('revert-noop-ignores-slicers', 'chainables/transform.py',
      "        and not self.fns\n        and not self.slicers\n", "        and not self.fns\n", 'R-C02-21'),
    B('revert-fuse-accepts-a-repeated-slicer', 'chainables/transform.py',
      "    if dups := slice_names.intersection(s.slice_name for s in child.slicers):\n      raise ValueError(\n          f'Cannot chain a transform with duplicate slice names: {dups}.'\n      )\n", "", 'R-C02-21'),
    OK('fuse-duplicate-slicer-test-as-loop', 'chainables/transform.py',
       "    if dups := slice_names.intersection(s.slice_name for s in child.slicers):\n      raise ValueError(\n          f'Cannot chain a transform with duplicate slice names: {dups}.'\n      )\n",
       "    for s in child.slicers:\n      if s.slice_name in slice_names:\n        raise ValueError(f'Cannot chain a transform with duplicate slice name: {s.slice_name}.')\n"),
    B('agg-alias-drops-disable-slicing', 'chainables/transform.py',
      '    """Alias for aggregate."""\n    return self.aggregate(\n        fn,\n        input_keys=input_keys,\n        output_keys=output_keys,\n        disable_slicing=disable_slicing,\n    )',
      '    """Alias for aggregate."""\n    return self.aggregate(fn, input_keys=input_keys, output_keys=output_keys)', 'R-C02-20'),
    OK('agg-alias-forwards-positionally', 'chainables/transform.py',
       '    """Alias for aggregate."""\n    return self.aggregate(\n        fn,\n        input_keys=input_keys,\n        output_keys=output_keys,\n        disable_slicing=disable_slicing,\n    )',
       '    """Alias for aggregate."""\n    return self.aggregate(fn, input_keys=input_keys, output_keys=output_keys, disable_slicing=bool(disable_slicing))'),
    B('slice-fn-results-memoised', 'chainables/transform.py',
      "    slicer = tree_fns.Slicer.new(\n        input_keys=keys,\n        slice_fn=slice_fn,",
      "    if slice_fn is not None:\n      cache, user_fn = {}, slice_fn\n\n      def slice_fn(*args):\n        if args not in cache:\n          cache[args] = user_fn(*args)\n        return cache[args]\n\n    slicer = tree_fns.Slicer.new(\n        input_keys=keys,\n        slice_fn=slice_fn,", 'R-C02-18'),
    B('feature-columns-converted-before-slicing', 'chainables/tree_fns.py',
      "      batch_ix = 0\n      for row in zip(*inputs):", "      batch_ix = 0\n      inputs = tuple(np.asarray(column) for column in inputs)\n      for row in zip(*inputs):", 'R-C02-19'),
    B('revert-replace-mode-bare-row-mask', 'chainables/tree.py',
      "        items = np.asarray(items)\n        # The mask selects along the leading dimensions as `items[masks]` does:\n        # np.where alone would broadcast it against the trailing ones.\n        masks = np.reshape(\n            masks, masks.shape + (1,) * (items.ndim - masks.ndim)\n        )\n        return np.where(masks, items, replace_false_with)",
      "        return np.where(masks, items, replace_false_with)", 'R-C02-4'),
    OK('replace-mode-expands-the-mask-inline', 'chainables/tree.py',
       "        masks = np.reshape(\n            masks, masks.shape + (1,) * (items.ndim - masks.ndim)\n        )\n        return np.where(masks, items, replace_false_with)",
       "        return np.where(np.reshape(masks, masks.shape + (1,) * (items.ndim - masks.ndim)), items, replace_false_with)"),
    B('integer-masks-take-the-boolean-path', 'chainables/tree.py',
      "    if hasattr(masks, '__array__') and getattr(masks, 'dtype') == bool:", "    if hasattr(masks, '__array__') and getattr(masks, 'dtype') != object:", 'R-C02-13'),
    OK('bool-dtype-test-via-numpy-name', 'chainables/tree.py',
       "    if hasattr(masks, '__array__') and getattr(masks, 'dtype') == bool:", "    if hasattr(masks, '__array__') and masks.dtype == np.bool_:"),
    B('runner-caches-initial-state', 'chainables/transform.py',
      '  def create_state(self) -> _AggState:\n    return {\n        MetricKey(key): tree_fn.create_state()\n        for key, tree_fn in self.agg_fns.items()\n    }',
      '  @functools.cached_property\n  def _initial_state(self) -> _AggState:\n    return {\n        MetricKey(key): tree_fn.create_state()\n        for key, tree_fn in self.agg_fns.items()\n    }\n\n  def create_state(self) -> _AggState:\n    return dict(self._initial_state)',
      'R-C02-10'),
    B('nested-mask-false-by-truthiness', 'chainables/tree.py',
      '        result.append(elem)\n      elif mask == False:  # pylint: disable=singleton-comparison',
      '        result.append(elem)\n      elif not mask:', 'R-C02-9'),
    OK('nested-mask-false-by-identity-or-equality', 'chainables/tree.py',
       '        result.append(elem)\n      elif mask == False:  # pylint: disable=singleton-comparison',
       '        result.append(elem)\n      elif isinstance(mask, (bool, np.bool_, int)) and mask == False:'),
    B('falsy-slice-values-skipped', _F,
      '        for slice_value in slice_fn(*row):\n',
      '        for slice_value in slice_fn(*row):\n          if not slice_value:\n            continue\n',
      'R-C02-3'),
    B('restricted-values-duck-typed', _F,
      '      within_values = tuple(map(tree.normalize_keys, within_values))',
      "      within_values = tuple(v if hasattr(v, '__contains__') else (v,) for v in within_values)",
      'R-C02-8'),
    OK('restricted-values-duck-typed-excluding-str', _F,
       '      within_values = tuple(map(tree.normalize_keys, within_values))',
       "      within_values = tuple(v if hasattr(v, '__contains__') and not isinstance(v, str) else (v,) for v in within_values)"),
    B('slices-shared-between-aggregates', _T,
      '    for output_key, tree_agg_fn in self.agg_fns.items():\n      try:',
      '    batch_slices = [(slicer, slicer.iterate_and_slice(inputs)) for slicer in self.slicers]\n    for output_key, tree_agg_fn in self.agg_fns.items():\n      for slicer, slices in batch_slices:\n        for slice_key, masks in slices:\n          pass\n      try:',
      'R-C02-7'),
    B('with-masks-keeps-replacement', _F,
      '    \"\"\"Returns a new TreeFn with the masks.\"\"\"\n',
      '    \"\"\"Returns a new TreeFn with the masks.\"\"\"\n    if replace_mask_false_with == tree.DEFAULT_FILTER:\n      return dc.replace(self, masks=masks)\n',
      'R-C02-5'),
    OK('with-masks-kept-but-unchained', _F,
       '    \"\"\"Returns a new TreeFn with the masks.\"\"\"\n',
       '    \"\"\"Returns a new TreeFn with the masks.\"\"\"\n    if replace_mask_false_with == tree.DEFAULT_FILTER:\n      return dc.replace(self, masks=masks)\n',
       extra=((_T, '            tree_agg_fn = tree_agg_fn.with_masks(\n                masks,\n                replace_mask_false_with=slicer.replace_mask_false_with,\n            )\n            state[metric_key] = tree_agg_fn.update_state(',
               '            masked_fn = tree_agg_fn.with_masks(\n                masks,\n                replace_mask_false_with=slicer.replace_mask_false_with,\n            )\n            state[metric_key] = masked_fn.update_state('),)),
    B('restore-state-from-create-state-keys', _T,
      '        k: v for k, v in state.items() if k.metrics in self._runner.agg_fns\n',
      '        k: state.get(k, v) for k, v in self._runner.create_state().items()\n', 'R-C02-6'),
    B('restore-state-unsliced-only', _T,
      '        k: v for k, v in state.items() if k.metrics in self._runner.agg_fns\n',
      '        k: v for k, v in state.items() if k.metrics in self._runner.agg_fns if not k.slice\n', 'R-C02-6'),
    B('unsliced-after-masking', _T,
      '        state[MetricKey(output_key)] = tree_agg_fn.update_state(\n            state[MetricKey(output_key)], inputs\n        )\n        if tree_agg_fn.disable_slicing:\n          continue\n',
      '        if tree_agg_fn.disable_slicing:\n          continue\n', 'R-C02-1'),
    B('mask-from-previous-slice', _T,
      '            tree_agg_fn = tree_agg_fn.with_masks(\n                masks,\n                replace_mask_false_with=slicer.replace_mask_false_with,\n            )\n            state[metric_key] = tree_agg_fn.update_state(',
      '            state[metric_key] = tree_agg_fn.update_state(', 'R-C02-2'),
    B('slice-state-not-created', _T,
      '            if metric_key not in state:\n              state[metric_key] = tree_agg_fn.create_state()\n',
      '            state[metric_key] = tree_agg_fn.create_state()\n', 'R-C02-2'),
    B('slice-key-without-output-key', _T,
      '            metric_key = MetricKey(output_key, slice_key)',
      '            metric_key = MetricKey((), slice_key)', 'R-C02-2'),
    B('row-index-inside-fanout', _F,
      '            raise TypeError(\n                f\'{slice_value=} generated by {slice_name=} not hashable.\'\n            ) from e\n        batch_ix += 1',
      '            raise TypeError(\n                f\'{slice_value=} generated by {slice_name=} not hashable.\'\n            ) from e\n          batch_ix += 1',
      'R-C02-3'),
    B('masks-not-zipped-strictly', _F, '        for item, mask in zip(items, self.masks, strict=True):',
      '        for item, mask in zip(items, self.masks):', 'R-C02-4'),
    B('filter-and-replace-swapped', 'chainables/tree.py',
      "    if hasattr(masks, '__array__') and getattr(masks, 'dtype') == bool:\n      if replace_false_with != DEFAULT_FILTER:",
      "    if hasattr(masks, '__array__') and getattr(masks, 'dtype') == bool:\n      if replace_false_with == DEFAULT_FILTER:",
      'R-C02-4'),
    B('result-skips-empty-slices', _T,
      '      outputs = self.agg_fns[key.metrics].get_result(fn_state)\n      flattened_keys = key.metrics',
      '      outputs = self.agg_fns[key.metrics].get_result(fn_state)\n      if not outputs:\n        continue\n      flattened_keys = key.metrics',
      'R-C02-4'),
]
