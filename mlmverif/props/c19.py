"""C19 — re-batching conserves rows, order and column alignment (structural
part only).

Row conservation and exact batch sizes are arithmetic over the runtime
sequence of input batch sizes and are NOT decided.  What is decided are the
necessary bookkeeping conditions of the flush/slice/carry loop: every buffered
column is flushed, every slice is emitted or carried exactly once, a partial
batch leaves only when the input is exhausted, padding only happens then, the
carried remainder re-enters the buffer together with its sizes, column
mismatches raise, and the operators pass their batch sizes in the right roles.
"""
from __future__ import annotations

import ast

from mlmverif import cfg as cfgm
from mlmverif.core import (AnalysisError, Ctx, FuncInfo, is_self_attr, kwarg,
                           unparse, walk_no_nested)

EXPLANATION = (
    'CFG path rules over iter_utils.rebatched_args and its helpers. Decides:'
    ' each column of every input batch is appended to its own buffer and the'
    ' running sizes are updated from the same batch; a flush concatenates ALL'
    ' buffers and slices them with the target size, zipped strictly; inside'
    ' the slice loop the previously held slice is yielded before it is'
    ' overwritten (each slice is emitted or carried exactly once); after the'
    ' loop the held slice has exactly one disposition on every path (yield /'
    ' padded yield / carry) before it is cleared; a slice that is not full is'
    ' yielded only when the input is exhausted and _pad is only called then;'
    ' the carried remainder re-enters fresh buffers together with its sizes;'
    ' buffers and sizes are reset after a flush; column-count and'
    ' column-length mismatches raise ValueError; _concat/_pad keep the'
    ' container kind; TreeFn._iterate re-batches inputs with fn_batch_size and'
    ' outputs with batch_size and the matching column counts. NOT decided: row'
    ' conservation, exact batch sizes, order as statements about values.'
)
ASSUMPTIONS = ['more_itertools.sliced(seq, n) yields consecutive slices of'
               ' length n except possibly the last.']

IU = 'utils.iter_utils'
TF = 'chainables.tree_fns'


def run(ctx: Ctx):
  for r in (r9, r1, r2, r3, r4, r5, r6, r7, r13, r8, r10, r11, r12):
    ctx.guard(r)


def ends_have_default(ctx: Ctx, rule: str, modules, floor: int):
  """`first()` / `last()` / `one()` of a stream is given a default (an empty stream is a legal input)."""
  repo = ctx.repo
  n = 0
  for mod in modules:
    mi = repo.module(mod)
    fns = list(mi.functions.values()) + [m_ for c in mi.classes.values() for m_ in c.methods.values()]
    for fi in fns:
      for c in walk_no_nested(fi.node):
        if not (isinstance(c, ast.Call) and unparse(c.func) in ('mit.first', 'mit.last', 'mit.one', 'mit.only',
                                                                 'more_itertools.first', 'more_itertools.last')):
          continue
        n += 1
        has_default = len(c.args) >= 2 or any(k.arg == 'default' for k in c.keywords)
        what = f'{fi.qualname}: `{unparse(c.func)}` of a stream has a default for the empty stream'
        if has_default or unparse(c.func).endswith('only'):
          ctx.ok(rule, fi, what, c)
        else:
          ctx.fail(rule, fi, what,
                   f'`{unparse(c)[:60]}` in {fi.qualname} raises ValueError ("called on an empty iterable") when the stream is'
                   ' empty: an empty input is a legal stream — nothing should be emitted / the aggregate of nothing returned',
                   node=c)
  ctx.floor(rule, floor, n)


def r8(ctx: Ctx):
  rule = 'R-C19-8'
  ctx.rule(rule, '"for all sequences of input batch sizes (... empty stream)": re-batching an empty stream emits nothing — where'
           ' the re-batching code takes the first / last element of its input stream (to count the columns) it passes a'
           ' default and handles it; a default-less more_itertools.first() raises ValueError for the empty stream')
  ends_have_default(ctx, rule, (IU,), 2)


def r9(ctx: Ctx):
  rule = 'R-C19-9'
  ctx.rule(rule, '"emits, column by column, exactly the concatenation of the input rows": nothing in the re-batching code can'
           ' discard rows silently — the containers that hold buffered chunks are unbounded (a list, a deque without maxlen).'
           ' A bounded deque drops its oldest chunk when a new one arrives: with zero-row input batches more chunks than'
           ' the bound pile up before the target is reached, the oldest pending rows vanish while the row counter still'
           ' says the target was reached')
  fi = ctx.repo.func(IU, 'rebatched_args')
  n = 0
  bad = None
  for c in ast.walk(fi.node):
    if isinstance(c, ast.Call) and unparse(c.func).split('.')[-1] == 'deque':
      n += 1
      if kwarg(c, 'maxlen') is not None or len(c.args) >= 2:
        bad = bad or c
  n += 1
  what = 'rebatched_args: buffered chunks are held in unbounded containers'
  if bad is None:
    ctx.ok(rule, fi, what, fi.node)
  else:
    ctx.fail(rule, fi, what,
             f'`{unparse(bad)[:60]}` bounds a container of buffered chunks: when more chunks than the bound are pending (zero-row'
             ' batches count as chunks) the oldest are discarded silently — rows are lost and a short batch is flushed'
             ' mid-stream', node=bad)
  ctx.floor(rule, 1, n)


def _names(fi):
  """Role names inside rebatched_args, discovered from the statement shapes."""
  from mlmverif import pat
  roles = {}
  for s in walk_no_nested(fi.node):
    if isinstance(s, ast.Assign) and isinstance(s.targets[0], ast.Name):
      v = unparse(s.value)
      t = s.targets[0].id
      if pat.match('[[] for $i in range($$n)]', s.value) is not None:
        roles.setdefault('buffer', t)
      if v.startswith('np.zeros(') and 'dtype=int' in v:
        roles.setdefault('sizes', t)
      if v == 'False' and t not in roles.values():
        roles.setdefault('exhausted', t)
      if v == 'None' and t not in roles.values():
        roles.setdefault('held', t)
  missing = [k for k in ('buffer', 'sizes', 'exhausted', 'held') if k not in roles]
  if missing:
    raise AnalysisError(f'rebatched_args: cannot identify {missing}')
  return roles


def r1(ctx: Ctx):
  rule = 'R-C19-1'
  ctx.rule(rule, 'intake: each column of an input batch is appended to its own'
           ' buffer, the running sizes are updated from the same batch, a batch'
           ' with the wrong number of columns or unequal column lengths raises'
           ' ValueError, and end of input sets the exhausted flag')
  fi = ctx.repo.func(IU, 'rebatched_args')
  R = _names(fi)
  buf, sizes, exh = R['buffer'], R['sizes'], R['exhausted']
  loops = [l for l in walk_no_nested(fi.node) if isinstance(l, ast.For)
           and unparse(l.iter).startswith('enumerate(')]
  ok = False
  batch = None
  for l in loops:
    if isinstance(l.target, ast.Tuple) and len(l.target.elts) == 2:
      i, col = unparse(l.target.elts[0]), unparse(l.target.elts[1])
      batch = unparse(l.iter)[len('enumerate('):-1]
      if any(unparse(b) == f'{buf}[{i}].append({col})' for b in l.body):
        ok = True
  if ok:
    ctx.ok(rule, fi, f'every column appended: {buf}[i].append(column)', loops[0])
  else:
    ctx.fail(rule, fi, f'rebatched_args: for i, column in enumerate(batch): {buf}[i].append(column)',
             'not every column of an input batch is buffered under its own'
             ' index: rows are lost or columns are misaligned', node=fi.node)
  upd = [s for s in walk_no_nested(fi.node) if isinstance(s, ast.AugAssign)
         and unparse(s.target) == sizes and isinstance(s.op, ast.Add)]
  from mlmverif import pat
  from mlmverif.core import parent_map
  pm = parent_map(fi.node)

  def _measured(s):
    # the sizes of this batch, written in place or named just before in the same block (the batch not rebound between)
    v = s.value
    if isinstance(v, ast.Name):
      body = next((b for b in (getattr(pm.get(s), f, None) for f in ('body', 'orelse', 'finalbody'))
                   if isinstance(b, list) and s in b), None)
      if body is None:
        return None
      before = body[:body.index(s)]
      defs = [k for k, b in enumerate(before) if isinstance(b, ast.Assign) and len(b.targets) == 1
              and unparse(b.targets[0]) == v.id]
      stores = [y for y in walk_no_nested(fi.node) if isinstance(y, ast.Name) and y.id == v.id and isinstance(y.ctx, ast.Store)]
      if len(defs) != 1 or len(stores) != 1:
        return None
      if any(isinstance(y, ast.Name) and y.id == batch and isinstance(y.ctx, ast.Store)
             for b in before[defs[0] + 1:] for y in ast.walk(b)):
        return None
      v = before[defs[0]].value
    return v

  ok_upd = batch and any((_measured(s) is not None and pat.match(f'[_batch_size($c) for $c in {batch}]', _measured(s)) is not None)
                         for s in upd)
  if ok_upd:
    ctx.ok(rule, fi, f'{sizes} += sizes of the same batch', upd[0])
  else:
    ctx.fail(rule, fi, 'rebatched_args: sizes += [_batch_size(column) for column in batch]',
             'the running sizes are not updated from the batch that was just'
             ' buffered: flushes happen too early or too late', node=fi.node)
  g = cfgm.cfg_of(fi.node)
  raises = [n for n in g.nodes if isinstance(n.ast, ast.Raise) and 'ValueError' in unparse(n.ast)]
  col_cnt = [c for c in g.nodes if c.kind == 'cond' and 'len(' in unparse(c.ast) and 'num_columns' in unparse(c.ast)]
  def _is_hetero(t):
    # `not all(<..> for e in <sizes>)` (or the any(!=) dual)
    neg = isinstance(t, ast.UnaryOp) and isinstance(t.op, ast.Not)
    c_ = t.operand if neg else t
    if not (isinstance(c_, ast.Call) and unparse(c_.func) in ('all', 'any') and c_.args and isinstance(
        c_.args[0], ast.GeneratorExp)):
      return False
    if (unparse(c_.func) == 'all') != neg:
      return False
    return any(unparse(g_.iter) == sizes for g_ in c_.args[0].generators)
  hetero = [c for c in g.nodes if c.kind == 'cond' and _is_hetero(c.ast)]
  ok_r = (col_cnt and hetero and all(any(isinstance(s.ast, ast.Raise) for s, lab in c.succ if lab == 'true')
                                     for c in col_cnt + hetero))
  if ok_r:
    ctx.ok(rule, fi, 'column count / column length mismatches raise ValueError', col_cnt[0].ast)
  else:
    ctx.fail(rule, fi, 'rebatched_args: mismatched columns raise ValueError',
             'batches with a wrong column count or unequal column lengths are'
             ' accepted: row i of different columns no longer comes from the'
             ' same input row', node=fi.node)
  # the length test is made for EVERY incoming batch, before any other decision: a test that
  # only runs at a flush sees accumulated sizes, and two out-of-step batches that compensate
  # each other — (2,1) then (1,2) — pass and are emitted with rows of different input rows side by side
  if ok_r and upd:
    upd_nodes = [n_ for n_ in g.nodes if n_.ast is upd[0]]
    others = [c for c in g.nodes if c.kind == 'cond' and c not in hetero]
    late = None
    for un in upd_nodes:
      for s_, lab in un.succ:
        if lab in ('exc', 'close') or s_ in hetero:
          continue
        w_ = g.must_pass(s_, others + [g.exit_ret], lambda nd: nd in hetero, cfgm.only_normal)
        if w_ is not None or s_ in others:
          late = w_ or [s_.text()]
    if late:
      ctx.fail(rule, fi, 'rebatched_args: unequal column lengths are rejected for every incoming batch',
               'after the sizes of an incoming batch were added, another decision (' + str(late[-1]).split(':', 2)[-1][:40]
               + ') is taken before the equal-length test: the test no longer sees each batch on its own, so'
               ' out-of-step batches whose differences cancel out are accepted and row i of different columns'
               ' comes from different input rows', node=upd[0])
    else:
      ctx.ok(rule, fi, 'equal-length test follows the size update of every incoming batch', upd[0])
  end = [n for n in g.nodes if isinstance(n.ast, ast.Assign) and unparse(n.ast) == f'{exh} = True']
  nxt = [c for c in g.nodes if c.kind == 'cond' and 'next(' in unparse(c.ast) and 'is None' in unparse(c.ast)]
  if end and nxt and all(e in [s for s, lab in nxt[0].succ if lab == 'true'] for e in end):
    ctx.ok(rule, fi, 'end of input sets the exhausted flag', end[0].ast)
  else:
    ctx.fail(rule, fi, f'rebatched_args: if (batch := next(tuples, None)) is None: {exh} = True',
             'end of input is not recorded exactly when the input iterator is'
             ' exhausted', node=fi.node)
  ctx.floor(rule, 4)


def r2(ctx: Ctx):
  from mlmverif import pat
  rule = 'R-C19-2'
  ctx.rule(rule, 'flush: all buffers are concatenated and sliced with the'
           ' target size, zipped strictly; in the slice loop the held slice is'
           ' yielded before it is overwritten; buffers and sizes are reset'
           ' after the flush')
  fi = ctx.repo.func(IU, 'rebatched_args')
  R = _names(fi)
  buf, sizes, held = R['buffer'], R['sizes'], R['held']
  txt = unparse(fi.node)
  def _concat_all(v):
    # map(_concat, <buffers>), possibly materialised: list(map(...)) / tuple(map(...)) / [_concat(c) for c in <buffers>]
    while isinstance(v, ast.Call) and unparse(v.func) in ('list', 'tuple') and len(v.args) == 1:
      v = v.args[0]
    if isinstance(v, (ast.ListComp, ast.GeneratorExp)) and len(v.generators) == 1 and not v.generators[0].ifs:
      return (unparse(v.generators[0].iter) == buf and isinstance(v.elt, ast.Call) and unparse(v.elt.func) == '_concat'
              and len(v.elt.args) == 1 and unparse(v.elt.args[0]) == unparse(v.generators[0].target))
    return unparse(v) == f'map(_concat, {buf})'
  conc = [s for s in walk_no_nested(fi.node) if isinstance(s, ast.Assign) and _concat_all(s.value)]
  sl = [s for s in walk_no_nested(fi.node) if isinstance(s, ast.Assign)
        and 'mit.sliced' in unparse(s.value) and 'n=batch_size' in unparse(s.value)]
  loops = [l for l in walk_no_nested(fi.node) if isinstance(l, ast.For)
           and unparse(l.iter).startswith('zip(*map(') and 'strict=True' in unparse(l.iter)]
  if conc and sl and loops and unparse(conc[0].targets[0]) in unparse(loops[0].iter) and (
      unparse(sl[0].targets[0]) in unparse(loops[0].iter)):
    ctx.ok(rule, fi, 'zip(*map(sliced(n=batch_size), map(_concat, buffers)), strict=True)', loops[0])
  else:
    ctx.fail(rule, fi, 'rebatched_args: zip(*map(sliced_by_batch_size, map(_concat, column_buffer)), strict=True)',
             'the flush does not slice every concatenated column with the'
             ' target size in lock step', node=fi.node)
    return
  l = loops[0]
  g = cfgm.cfg_of(fi.node)
  it = [n for n in g.nodes if n.kind == 'for_iter' and n.ast is l]
  cols = unparse(l.target)
  assign = [n for n in g.nodes if isinstance(n.ast, ast.Assign) and unparse(n.ast) == f'{held} = {cols}']
  ys = [n for n in g.nodes if isinstance(n.ast, ast.Expr) and isinstance(n.ast.value, ast.Yield)
        and unparse(n.ast.value.value) == held]
  notnone = [c for c in g.nodes if c.kind == 'cond' and unparse(c.ast) == f'{held} is not None']
  ok = False
  if it and assign and notnone:
    body = g.reachable([s for s, lab in it[0].succ if lab == 'true'], avoid=lambda n: n is it[0],
                       edge_ok=cfgm.only_normal, include_src=True)
    a_in = [a for a in assign if a in body]
    c_in = [c for c in notnone if c in body]
    if len(a_in) == 1 and c_in:
      c = c_in[0]
      t = [s for s, lab in c.succ if lab == 'true']
      yields_first = bool(t) and t[0] in ys
      dom = g.dominates(lambda n: n is c, a_in[0], cfgm.only_normal) is None
      # the overwrite is not reachable from the true edge without the yield
      ok = yields_first and dom
  if ok:
    ctx.ok(rule, fi, f'slice loop: yield {held} before {held} = {cols}', l)
  else:
    ctx.fail(rule, fi, f'rebatched_args: if {held} is not None: yield {held}; {held} = {cols}',
             'a slice held from the previous iteration is overwritten without'
             ' being emitted (rows lost) or is emitted twice', node=l)
  resets = [n for n in g.nodes if isinstance(n.ast, ast.Assign) and unparse(n.ast.targets[0]) in (buf, sizes)
            and (pat.match('[[] for $i in range($$n)]', n.ast.value) is not None
                 or unparse(n.ast.value).startswith('np.zeros('))]
  after = [s for s, lab in it[0].succ if lab == 'false'] if it else []
  reach = g.reachable(after, edge_ok=cfgm.only_normal, include_src=True)
  got = {unparse(n.ast.targets[0]) for n in resets if n in reach}
  if got == {buf, sizes}:
    ctx.ok(rule, fi, 'buffers and sizes reset after the flush', after[0].ast if after and after[0].ast else l)
  else:
    ctx.fail(rule, fi, 'rebatched_args: reset buffers and sizes after a flush',
             f'after a flush only {sorted(got)} is reset: already emitted rows'
             ' are emitted again', node=l)
  ctx.floor(rule, 3)


def r3(ctx: Ctx):
  from mlmverif import pat
  rule = 'R-C19-3'
  ctx.rule(rule, 'tail: after the slice loop the held slice has exactly one'
           ' disposition on every path (yield / padded yield / carry) before it'
           ' is cleared; a slice that is not full leaves only when the input'
           ' is exhausted; _pad is only called then; the carried remainder'
           ' re-enters the buffers together with its sizes')
  fi = ctx.repo.func(IU, 'rebatched_args')
  R = _names(fi)
  buf, sizes, held, exh = R['buffer'], R['sizes'], R['held'], R['exhausted']
  g = cfgm.cfg_of(fi.node)
  loops = [n for n in g.nodes if n.kind == 'for_iter' and unparse(n.ast.iter).startswith('zip(*map(')]
  if not loops:
    raise AnalysisError(f'{rule}: slice loop not found')
  after = [s for s, lab in loops[0].succ if lab == 'false']
  clear = [n for n in g.nodes if isinstance(n.ast, ast.Assign) and unparse(n.ast) == f'{held} = None'
           and n in g.reachable(after, edge_ok=cfgm.only_normal)]
  if not clear:
    ctx.fail(rule, fi, f'rebatched_args: {held} = None after the tail',
             'the held slice is never cleared: it is emitted again by the next flush', node=fi.node)
    return

  def disp(n):
    a = n.ast
    if isinstance(a, ast.Expr) and isinstance(a.value, ast.Yield) and held in unparse(a.value.value):
      return 'pad' if '_pad(' in unparse(a) else 'yield'
    if isinstance(a, ast.Assign) and unparse(a.targets[0]) == buf and held in unparse(a.value):
      return 'carry'
    return None

  paths = []
  stack = [(after[0], [after[0]])]
  while stack:
    n, p = stack.pop()
    if n in clear:
      paths.append(p)
      continue
    for mm, lab in n.succ:
      if lab in ('exc', 'close') or mm in p:
        continue
      if isinstance(n.ast, ast.Continue):
        continue
      stack.append((mm, p + [mm]))
  bad = None
  for p in paths:
    ds = [d for d in (disp(n) for n in p) if d]
    if len(ds) != 1:
      bad = (p, ds)
  if bad or not paths:
    p, ds = bad if bad else ([], [])
    ctx.fail(rule, fi, f'rebatched_args: one disposition of {held} per path',
             f'a path through the tail handles the held slice {len(ds)} times'
             f' {ds}: rows are dropped or duplicated', node=fi.node,
             witness=[f'L{n.lineno}: {n.text()}' for n in p])
  else:
    ctx.ok(rule, fi, f'{len(paths)} tail paths, one disposition each', after[0].ast or fi.node)
  full = lambda c: c.kind == 'cond' and '== batch_size' in unparse(c.ast) and held in unparse(c.ast)
  isx = lambda c: c.kind == 'cond' and exh in {x.id for x in cfgm.node_exprs(c) if isinstance(x, ast.Name)}
  # a yield of the held slice after the loop needs: full, or exhausted
  yn = [n for n in g.nodes if disp(n) in ('yield', 'pad') and n in g.reachable(after, edge_ok=cfgm.only_normal)]
  reach = g.reachable(after, edge_ok=lambda a, b, lab: lab not in ('exc', 'close')
                      and not ((full(a) or isx(a)) and lab == 'true'), include_src=True)
  leak = [n for n in yn if n in reach]
  if leak:
    ctx.fail(rule, fi, leak[0].ast, 'a partial batch can be emitted although the'
             ' input is not exhausted: batches other than the last are short')
  else:
    ctx.ok(rule, fi, 'partial slice leaves only when exhausted', yn[0].ast if yn else fi.node)
  pads = [n for n in g.nodes if disp(n) == 'pad']
  reach2 = g.reachable(after, edge_ok=lambda a, b, lab: lab not in ('exc', 'close')
                       and not (isx(a) and lab == 'true'), include_src=True)
  if pads and all(p not in reach2 for p in pads):
    ctx.ok(rule, fi, '_pad only when exhausted', pads[0].ast)
  else:
    ctx.fail(rule, fi, 'rebatched_args: pad only the final batch',
             'padding is applied to a batch that is not the final one (or never)',
             node=fi.node)
  carry = [n for n in g.nodes if disp(n) == 'carry']
  ok_c = False
  for c in carry:
    nx = [s for s, lab in c.succ if lab == 'next']
    if nx and isinstance(nx[0].ast, ast.AugAssign) and unparse(nx[0].ast.target) == sizes and held in unparse(nx[0].ast.value):
      ok_c = True
    if pat.match(f'[[$c] for $c in {held}]', c.ast.value) is None:
      ok_c = False
  if carry and ok_c:
    ctx.ok(rule, fi, 'carry: remainder re-buffered per column with its sizes', carry[0].ast)
  else:
    ctx.fail(rule, fi, 'rebatched_args: carry: buffers = [[column] for column in held]; sizes += their sizes',
             'the remainder that does not fill a batch is not carried over'
             ' (with its sizes) into the next flush: rows are lost', node=fi.node)
  ctx.floor(rule, 4)


def r4(ctx: Ctx):
  rule = 'R-C19-4'
  ctx.rule(rule, 'helpers and wiring: _concat/_pad keep the container kind;'
           ' _batch_size is shape[0] or len; TreeFn._iterate re-batches the'
           ' function inputs with fn_batch_size/_num_inputs and the outputs'
           ' with batch_size/_num_outputs; batch_size 0 passes through')
  repo = ctx.repo
  cc = repo.func(IU, '_concat')
  t = unparse(cc.node)
  if 'np.concatenate(' in t and 'return list(mit.flatten(data))' in t and 'return tuple(mit.flatten(data))' in t and 'raise TypeError' in t:
    ctx.ok(rule, cc, '_concat keeps array/list/tuple kind', cc.node)
  else:
    ctx.fail(rule, cc, '_concat: array -> np.concatenate, list -> list(flatten), tuple -> tuple(flatten)',
             'concatenation changes the container kind of a column', node=cc.node)
  pd = repo.func(IU, '_pad')
  t = unparse(pd.node)
  if 'np.pad(' in t and 'list(mit.padded(data, pad, batch_size))' in t and 'tuple(mit.padded(data, pad, batch_size))' in t:
    ctx.ok(rule, pd, '_pad pads to batch_size keeping the kind', pd.node)
  else:
    ctx.fail(rule, pd, '_pad: pad up to batch_size keeping the container kind',
             'padding does not extend the final batch to the target size', node=pd.node)
  bs = repo.func(IU, '_batch_size')
  t = unparse(bs.node)
  if 'return data.shape[0]' in t and 'return len(data)' in t:
    ctx.ok(rule, bs, '_batch_size = shape[0] or len', bs.node)
  else:
    ctx.fail(rule, bs, '_batch_size: data.shape[0] or len(data)', 'row count of a column is wrong', node=bs.node)
  it = repo.func(TF, 'TreeFn._iterate')
  calls = [c for c in walk_no_nested(it.node) if isinstance(c, ast.Call) and unparse(c.func) == 'iter_utils.rebatched_args']
  want = [('self.fn_batch_size', 'self._num_inputs'), ('self.batch_size', 'self._num_outputs')]
  got = sorted((unparse(kwarg(c, 'batch_size')), unparse(kwarg(c, 'num_columns'))) for c in calls)
  if got == sorted(want):
    ctx.ok(rule, it, 'inputs: fn_batch_size/_num_inputs; outputs: batch_size/_num_outputs', calls[0])
  else:
    ctx.fail(rule, it, 'TreeFn._iterate: rebatched_args(inputs, fn_batch_size, _num_inputs) / (outputs, batch_size, _num_outputs)',
             f'the operator re-batches with {got}: input and output batch sizes'
             ' or column counts are crossed', node=it.node)
  # each re-batch is applied exactly when its own batch size is set
  from mlmverif.core import parent_map
  pm_ = parent_map(it.node)
  for c in calls:
    bs_ = unparse(kwarg(c, 'batch_size'))
    q_ = c
    guard = None
    while q_ is not it.node and q_ is not None:
      par_ = pm_.get(q_)
      if isinstance(par_, ast.If) and any(q_ is b_ or q_ in ast.walk(b_) for b_ in par_.body):
        guard = par_
        break
      q_ = par_
    if guard is None or unparse(guard.test) == bs_ or unparse(guard.test) in (f'{bs_} > 0', f'{bs_} != 0', f'bool({bs_})'):
      ctx.ok(rule, it, f're-batch with {bs_} applied whenever {bs_} is set', c)
    else:
      ctx.fail(rule, it, f'TreeFn._iterate: re-batch applied whenever {bs_} is set',
               f'the re-batch to `{bs_}` only happens under `{unparse(guard.test)}`:'
               ' for some settings the stream leaves the operator in the'
               ' batches the function happened to return (wrong sizes, empty'
               ' batches) although a batch size was requested', node=guard)
  ra = repo.func(IU, 'rebatched_args')
  first = [s for s in ra.node.body if isinstance(s, ast.If)]
  if first and unparse(first[0].test) == 'not batch_size' and 'yield from tuples' in unparse(first[0]):
    ctx.ok(rule, ra, 'batch_size == 0 passes the stream through', first[0])
  else:
    ctx.fail(rule, ra, 'rebatched_args: if not batch_size: yield from tuples; return',
             'a zero target size no longer means "do not re-batch"', node=ra.node)
  ctx.floor(rule, 5)


def r5(ctx: Ctx):
  rule = 'R-C19-5'
  ctx.rule(rule, 'nothing overtakes the buffer: inside the re-batching loop a'
           ' `yield` never emits values taken directly from the current input'
           ' batch (or names derived from it) — every row leaves through the'
           ' column buffers, behind the rows already waiting there; a direct'
           ' forward is only admissible under a test that the buffers are'
           ' empty')
  from mlmverif.core import parent_map
  fi = ctx.repo.func(IU, 'rebatched_args')
  R = _names(fi)
  loops = [x for x in walk_no_nested(fi.node) if isinstance(x, ast.While)]
  if not loops:
    raise AnalysisError(f'{rule}: main loop of rebatched_args not found')
  loop = loops[0]
  intake = None
  for x in ast.walk(loop):
    if isinstance(x, ast.NamedExpr) and isinstance(x.value, ast.Call) and unparse(x.value.func) == 'next':
      intake = x.target.id
    if isinstance(x, ast.Assign) and isinstance(x.value, ast.Call) and unparse(
        x.value.func) == 'next' and isinstance(x.targets[0], ast.Name):
      intake = x.targets[0].id
  if intake is None:
    raise AnalysisError(f'{rule}: the input batch variable was not found')
  tainted = {intake}
  sinks = {R['buffer'], R['sizes']}
  for _ in range(4):
    for x in ast.walk(loop):
      if isinstance(x, (ast.For, ast.comprehension)) and any(
          isinstance(y, ast.Name) and y.id in tainted for y in ast.walk(x.iter)):
        tainted |= {y.id for y in ast.walk(x.target) if isinstance(y, ast.Name)}
      if isinstance(x, ast.Assign) and any(isinstance(y, ast.Name) and y.id in tainted
                                           for y in ast.walk(x.value)):
        for t in x.targets:
          if isinstance(t, ast.Name) and t.id not in sinks:
            tainted.add(t.id)
  tainted -= sinks
  pm = parent_map(fi.node)
  n = 0
  for y in ast.walk(loop):
    if not isinstance(y, (ast.Yield, ast.YieldFrom)) or y.value is None:
      continue
    n += 1
    direct = [z.id for z in ast.walk(y.value) if isinstance(z, ast.Name) and z.id in tainted]
    if not direct:
      ctx.ok(rule, fi, f'yield {unparse(y.value)[:40]} comes from the buffers', y)
      continue
    guarded = False
    q = y
    while q is not loop:
      par = pm.get(q)
      if isinstance(par, ast.If) and any(q is b or q in ast.walk(b) for b in par.body):
        cs = par.test.values if isinstance(par.test, ast.BoolOp) and isinstance(
            par.test.op, ast.And) else [par.test]
        for c in cs:
          if isinstance(c, ast.UnaryOp) and isinstance(c.op, ast.Not) and any(
              isinstance(z, ast.Name) and z.id in sinks for z in ast.walk(c.operand)):
            guarded = True
      q = par
    if guarded:
      ctx.ok(rule, fi, f'direct forward of {direct} only with empty buffers', y)
    else:
      ctx.fail(rule, fi, f'rebatched_args: yield of the input batch ({", ".join(sorted(set(direct)))}) bypasses the buffers',
               f'`yield {unparse(y.value)[:50]}` forwards the current input batch'
               ' directly while earlier rows may still wait in the column'
               ' buffers: rows are emitted out of order (the waiting remainder'
               ' comes after rows that arrived later)', node=y)
  ctx.floor(rule, 3, n)


def _per_axis_width(w: ast.AST, arr: str) -> bool:
  """Is `w` a pad width that names axis 0 only: [(0, k)] + [(0, 0)] * (arr.ndim - 1)?"""
  def pair_seq(e):
    return isinstance(e, (ast.List, ast.Tuple)) and len(e.elts) == 1 and isinstance(
        e.elts[0], (ast.Tuple, ast.List)) and len(e.elts[0].elts) == 2
  if isinstance(w, ast.BinOp) and isinstance(w.op, ast.Add) and pair_seq(w.left):
    r = w.right
    if isinstance(r, ast.BinOp) and isinstance(r.op, ast.Mult):
      rep, cnt = (r.left, r.right) if pair_seq(r.left) else (r.right, r.left)
      if pair_seq(rep) and all(isinstance(z, ast.Constant) and z.value == 0 for z in rep.elts[0].elts):
        c = unparse(cnt).replace(' ', '')
        return c in (f'({arr}.ndim-1)', f'{arr}.ndim-1', f'(len({arr}.shape)-1)', f'len({arr}.shape)-1',
                     f'(np.ndim({arr})-1)', f'np.ndim({arr})-1')
  return False


def r6(ctx: Ctx):
  rule = 'R-C19-6'
  ctx.rule(rule, '"padding only appends [rows] to the final batch": np.pad'
           ' broadcasts a flat (before, after) width to EVERY axis, so the'
           ' array branch of _pad must pass a per-axis width that pads axis 0'
           ' only ([(0, k)] + [(0, 0)] * (ndim - 1)) — otherwise every row of a'
           ' 2-D column grows as well')
  fi = ctx.repo.func(IU, '_pad')
  arr = fi.params()[0]
  calls = [c for c in ast.walk(fi.node) if isinstance(c, ast.Call) and unparse(c.func) in ('np.pad', 'numpy.pad')]
  if not calls:
    raise AnalysisError(f'{rule}: np.pad not found in _pad')
  n = 0
  for c in calls:
    n += 1
    w = c.args[1] if len(c.args) > 1 else kwarg(c, 'pad_width')
    if w is None:
      raise AnalysisError(f'{rule}: pad width of {unparse(c)[:50]} not found')
    if isinstance(w, ast.Name):
      vals = [x.value for x in walk_no_nested(fi.node) if isinstance(x, ast.Assign)
              and any(isinstance(t, ast.Name) and t.id == w.id for t in x.targets)]
      if len(vals) == 1:
        w = vals[0]
    if _per_axis_width(w, arr):
      ctx.ok(rule, fi, f'np.pad width `{unparse(w)[:50]}` pads axis 0 only', c)
    elif isinstance(w, (ast.Tuple, ast.List)) and len(w.elts) == 2 and not any(
        isinstance(e, (ast.Tuple, ast.List)) for e in w.elts) or isinstance(w, ast.Constant):
      ctx.fail(rule, fi, '_pad: np.pad(data, [(0, k)] + [(0, 0)] * (data.ndim - 1))',
               f'np.pad is called with the flat width `{unparse(w)[:40]}`, which numpy'
               ' applies to every axis: padding a 2-D column to the batch size'
               ' also appends pad values to every row (shape (n, d) becomes'
               ' (batch, d + k))', node=c)
    else:
      raise AnalysisError(f'{rule}: unrecognised pad width `{unparse(w)[:60]}`')
  ctx.floor(rule, 1, n)


def r7(ctx: Ctx):
  rule = 'R-C19-7'
  ctx.rule(rule, '"exactly the concatenation of the input rows": merging the buffered chunks'
           ' of a column never converts the rows — np.concatenate / np.stack / np.asarray in'
           ' the re-batching helpers (_concat, _pad, rebatched_args) are called without a'
           ' forced `dtype=` / `casting=`: numpy\'s own promotion keeps every value, a forced'
           ' dtype (e.g. the first chunk\'s) silently truncates later rows (3.5 -> 3,'
           ' \'hello\' -> \'h\')')
  repo = ctx.repo
  n = 0
  for qn in ('_concat', '_pad', 'rebatched_args', '_batch_size'):
    fi = repo.module(IU).functions.get(qn)
    if fi is None:
      continue
    for c in ast.walk(fi.node):
      if isinstance(c, ast.Call) and unparse(c.func) in ('np.concatenate', 'np.stack', 'np.hstack', 'np.vstack',
                                                         'np.asarray', 'np.array'):
        forced = [k.arg for k in c.keywords if k.arg in ('dtype', 'casting')]
        if unparse(c.func) in ('np.asarray', 'np.array') and len(c.args) > 1:
          forced.append('dtype')
        if unparse(c.func) in ('np.concatenate', 'np.stack', 'np.hstack', 'np.vstack'):
          n += 1
        if forced:
          ctx.fail(rule, fi, f'{qn}: chunks are merged with numpy\'s own type promotion',
                   f'`{unparse(c)[:70]}` forces {forced}: rows of later chunks are cast to that type when the'
                   ' chunks are merged — the emitted batch is no longer the concatenation of the input rows',
                   node=c)
        elif unparse(c.func) in ('np.concatenate', 'np.stack', 'np.hstack', 'np.vstack'):
          ctx.ok(rule, fi, f'{qn}: {unparse(c.func)} without forced dtype', c)
  ctx.floor(rule, 1, n)


def r10(ctx: Ctx, scope=('utils.iter_utils', 'chainables.tree_fns', 'chainables.transform'), rule='R-C19-10', floor=4):
  ctx.rule(rule, '"emits, column by column, exactly the concatenation of the input rows": a one-shot iterator held in a local'
           ' (a map/zip/filter object, a generator) — such as the lazily concatenated columns of a flush — is traversed by at'
           ' most ONE full consumer on any path (for-loop, comprehension, yield from, or a call that walks all of it). A'
           ' second traversal sees nothing: a diagnostic line that iterates the columns first leaves the flush with no'
           ' columns, and the batches are dropped — but only while that diagnostic is enabled (two-traversal analysis of'
           ' mlmverif.onepass over single-definition one-shot locals; branch arms that exclude each other are told apart)')
  from mlmverif.onepass import OnePass
  op = OnePass(ctx.repo)
  n = 0
  for mod in scope:
    mi = ctx.repo.module(mod)
    fns = list(mi.functions.values()) + [m for c in mi.classes.values() for m in c.methods.values()]
    for fi in fns:
      k, res = op.analyse_twice(fi)
      if not k:
        continue
      n += k
      if not res:
        ctx.ok(rule, fi, f'{fi.qualname}: {k} one-shot local(s), each traversed once per path', fi.node)
      for node, msg in res:
        ctx.fail(rule, fi, f'{fi.qualname}: one-shot local traversed once per path', msg, node=node)
  ctx.floor(rule, floor, n)


def r11(ctx: Ctx):
  rule = 'R-C19-11'
  ctx.rule(rule, '"all columns of a batch have equal length (row i of every column comes from the same input row)": the operator'
           ' tells the output re-batcher how many columns to expect (`num_columns=self._num_outputs`), and the function'
           ' returns one column per OUTPUT KEY — also for a key that is skipped when the record is written. `_num_outputs`'
           ' is the plain number of output keys (`len(self.output_keys)`, or a constant for the single-key forms): it'
           ' contains no filter over the keys. Counting only the written keys makes the re-batcher reject the first output'
           ' ("Mismatched columns") as soon as Key.SKIP is combined with batch_size')
  fi = ctx.repo.func('chainables.tree_fns', 'TreeFn._num_outputs')
  n = 0
  for r_ in walk_no_nested(fi.node):
    if not (isinstance(r_, ast.Return) and r_.value is not None):
      continue
    n += 1
    filtered = [x for x in ast.walk(r_.value) if isinstance(x, (ast.GeneratorExp, ast.ListComp, ast.SetComp)) and any(g.ifs for g in x.generators)]
    filtered += [x for x in ast.walk(r_.value) if isinstance(x, ast.Call) and unparse(x.func) in ('filter', 'sum') and x is not r_.value and False]
    calls_filter = [x for x in ast.walk(r_.value) if isinstance(x, ast.Call) and unparse(x.func) == 'filter']
    what = f'TreeFn._num_outputs: `{unparse(r_)[:50]}` counts every output key'
    if filtered or calls_filter:
      ctx.fail(rule, fi, what,
               f'`{unparse(r_)[:80]}` counts a filtered subset of the output keys: the function still returns a column for every'
               ' key, so the re-batcher is configured with too few columns and rejects the outputs', node=r_)
    else:
      ctx.ok(rule, fi, what, r_)
  ctx.floor(rule, 2, n)


def r12(ctx: Ctx):
  rule = 'R-C19-12'
  ctx.rule(rule, '"every emitted batch except possibly the last has exactly the target size": the target size `rebatched_args`'
           ' works with is the one it was CALLED with — the function never re-binds its `batch_size` parameter (a silent cap'
           ' such as `batch_size = min(batch_size, <queue constant>)` makes every batch of a larger target the cap\'s size,'
           ' and pads the last one to the cap)')
  fi = ctx.repo.func(IU, 'rebatched_args')
  ps = [p_ for p_ in fi.params() if 'batch_size' in p_ or p_ in ('pad', 'num_columns')]
  n = 0
  for p_ in ps:
    if 'batch_size' not in p_:
      continue
    n += 1
    rebinds = [x for x in walk_no_nested(fi.node) if isinstance(x, (ast.Assign, ast.AugAssign, ast.AnnAssign)) and any(
        isinstance(t, ast.Name) and t.id == p_ for t in (x.targets if isinstance(x, ast.Assign) else [x.target]))]
    what = f'rebatched_args: `{p_}` keeps the value it was called with'
    if rebinds:
      ctx.fail(rule, fi, what, f'`{unparse(rebinds[0])[:60]}` changes the target size inside the re-batcher: the emitted batches no longer have'
               ' the size the caller asked for', node=rebinds[0])
    else:
      ctx.ok(rule, fi, what, fi.node)
  ctx.floor(rule, 1, n)


def r13(ctx: Ctx):
  rule = 'R-C19-13'
  ctx.rule(rule, '"emits ... exactly the concatenation of the input rows": the per-column counter of pending rows cannot wrap. The'
           ' numpy array that `rebatched_args` counts rows in is created with Python\'s `int` (or a 64-bit / pointer-sized'
           ' integer type) — never a narrower dtype (int8/16/32, unsigned): `+=` on a narrow array wraps silently, a pending'
           ' total of exactly 65536 rows reads as 0 and both the flush and the final flush are skipped (rows dropped)')
  fi = ctx.repo.func(IU, 'rebatched_args')
  n = 0
  wide = ('int', 'np.int64', 'np.intp', 'np.int_', "'int64'", 'np.longlong')
  for c in ast.walk(fi.node):
    if isinstance(c, ast.Call) and unparse(c.func) in ('np.zeros', 'np.array', 'np.asarray', 'np.empty', 'np.full', 'np.zeros_like'):
      dt = kwarg(c, 'dtype')
      if dt is None:
        continue
      n += 1
      what = f'rebatched_args: `{unparse(c)[:50]}` counts in a 64-bit integer'
      if unparse(dt) in wide:
        ctx.ok(rule, fi, what, c)
      else:
        ctx.fail(rule, fi, what,
                 f'`{unparse(c)[:60]}` counts pending rows in `{unparse(dt)}`: the in-place additions wrap around, pending totals'
                 ' that are multiples of the type\'s range read as 0 and the rows are never flushed', node=c)
  ctx.floor(rule, 1, n)


from mlmverif.selfcheck import B, OK  # noqa: E402

_F = 'utils/iter_utils.py'
VARIANTS = [
    B('pending-sizes-named-from-the-previous-batch', 'utils/iter_utils.py',
      "      batch_sizes += [_batch_size(column) for column in batch]",
      "      batch_sizes += sizes_of_last_batch\n      sizes_of_last_batch = [_batch_size(column) for column in batch]", 'R-C19-1'),
    OK('pending-sizes-through-a-local', 'utils/iter_utils.py',
       "      batch_sizes += [_batch_size(column) for column in batch]", "      sizes_of_this_batch = [_batch_size(column) for column in batch]\n      batch_sizes += sizes_of_this_batch"),
    OK('pending-row-counter-int64', 'utils/iter_utils.py',
       "  batch_sizes = np.zeros(num_columns, dtype=int)\n  exhausted = False", "  batch_sizes = np.zeros(num_columns, dtype=np.int64)\n  exhausted = False"),
    B('pending-row-counter-sixteen-bits', 'utils/iter_utils.py',
      "  batch_sizes = np.zeros(num_columns, dtype=int)\n  exhausted = False", "  batch_sizes = np.zeros(num_columns, dtype=np.int16)\n  exhausted = False", 'R-C19-13'),
    B('target-size-capped-at-a-queue-constant', 'utils/iter_utils.py',
      "  if not batch_size:\n    yield from tuples\n    return\n", "  if not batch_size:\n    yield from tuples\n    return\n  batch_size = min(batch_size, _MAX_BATCH_SIZE)\n", 'R-C19-12'),
    OK('num-outputs-through-a-local', 'chainables/tree_fns.py',
       "    if isinstance(self.output_keys, tuple):\n      return len(self.output_keys)\n", "    keys = self.output_keys\n    if isinstance(keys, tuple):\n      return len(keys)\n"),
    B('num-outputs-without-skipped-keys', 'chainables/tree_fns.py',
      "    if isinstance(self.output_keys, tuple):\n      return len(self.output_keys)\n", "    if isinstance(self.output_keys, tuple):\n      return sum(1 for key in self.output_keys if key != tree.Key.SKIP)\n", 'R-C19-11'),
    B('debug-line-walks-the-concatenated-columns', 'utils/iter_utils.py',
      "      concated = map(_concat, column_buffer)\n", "      concated = map(_concat, column_buffer)\n      if logging.level_debug():\n        logging.debug('chainable: %s', f'flushing {[_batch_size(c) for c in concated]} rows')\n", 'R-C19-10'),
    OK('debug-line-walks-the-buffer-not-the-map', 'utils/iter_utils.py',
       "      concated = map(_concat, column_buffer)\n", "      concated = map(_concat, column_buffer)\n      if logging.level_debug():\n        logging.debug('chainable: %s', f'flushing {[len(c) for c in column_buffer]} chunks')\n"),
    OK('columns-materialised-before-two-uses', 'utils/iter_utils.py',
       "      concated = map(_concat, column_buffer)\n", "      concated = list(map(_concat, column_buffer))\n      if logging.level_debug():\n        logging.debug('chainable: %s', f'flushing {[_batch_size(c) for c in concated]} rows')\n"),
    B('column-buffers-bounded', 'utils/iter_utils.py',
      '  column_buffer = [[] for _ in range(num_columns)]\n  batch_sizes = np.zeros(num_columns, dtype=int)\n  exhausted = False',
      '  column_buffer = [collections.deque(maxlen=batch_size) for _ in range(num_columns)]\n  batch_sizes = np.zeros(num_columns, dtype=int)\n  exhausted = False', 'R-C19-9'),
    B('revert-column-count-from-first-without-default', 'utils/iter_utils.py',
      "    if (first_batch := mit.first(tuples, None)) is None:\n      return\n", "    first_batch = mit.first(tuples)\n", 'R-C19-8'),
    B('length-test-only-at-flush', 'utils/iter_utils.py',
      '      if not all(batch_sizes[0] == each_size for each_size in batch_sizes):\n        raise ValueError(\n            f\'Hetroegeneous columns number, got {batch_sizes=} does not equal\'\n            f\' {batch_size=}.\'\n        )\n    # Flush the buffer when the batch size is reached.\n    has_batch_sizes = batch_sizes.size and batch_sizes[0]\n    if has_batch_sizes and (batch_sizes[0] >= batch_size or exhausted):\n',
      '    # Flush the buffer when the batch size is reached.\n    has_batch_sizes = batch_sizes.size and batch_sizes[0]\n    if has_batch_sizes and (batch_sizes[0] >= batch_size or exhausted):\n      if not all(batch_sizes[0] == each_size for each_size in batch_sizes):\n        raise ValueError(\n            f\'Hetroegeneous columns number, got {batch_sizes=} does not equal\'\n            f\' {batch_size=}.\'\n        )\n',
      'R-C19-1'),
    B('concat-forces-first-chunk-dtype', 'utils/iter_utils.py',
      '    return np.concatenate(list(data))', "    return np.concatenate(list(data), dtype=np.asarray(batch).dtype, casting='unsafe')", 'R-C19-7'),
    OK('concat-from-tuple', 'utils/iter_utils.py',
       '    return np.concatenate(list(data))', '    return np.concatenate(tuple(data))'),
    B('output-rebatch-skipped-when-sizes-equal', 'chainables/tree_fns.py',
      '    if self.batch_size:\n      fn_outputs = iter_utils.rebatched_args(',
      '    if self.batch_size and self.batch_size != self.fn_batch_size:\n      fn_outputs = iter_utils.rebatched_args(',
      'R-C19-4'),
    B('revert-pad-axis0-only', _F,
      '    pad_width = [(0, batch_size - data.shape[0])] + [(0, 0)] * (data.ndim - 1)\n    return np.pad(data, pad_width, constant_values=pad)',
      '    return np.pad(data, (0, batch_size - data.shape[0]), constant_values=pad)', 'R-C19-6'),
    OK('pad-width-inline', _F,
       '    pad_width = [(0, batch_size - data.shape[0])] + [(0, 0)] * (data.ndim - 1)\n    return np.pad(data, pad_width, constant_values=pad)',
       '    return np.pad(data, [(0, batch_size - data.shape[0])] + [(0, 0)] * (data.ndim - 1), constant_values=pad)'),
    B('array-fast-path-overtakes-remainder', _F,
      "        raise ValueError(f'Mismatched columns: {len(batch)} != {num_columns=}')\n",
      "        raise ValueError(f'Mismatched columns: {len(batch)} != {num_columns=}')\n      if batch and all(hasattr(column, '__array__') and _batch_size(column) == batch_size for column in batch):\n        yield tuple(batch)\n        continue\n",
      'R-C19-5'),
    OK('array-fast-path-with-empty-buffers', _F,
       "        raise ValueError(f'Mismatched columns: {len(batch)} != {num_columns=}')\n",
       "        raise ValueError(f'Mismatched columns: {len(batch)} != {num_columns=}')\n      if not batch_sizes[0] and batch and all(_batch_size(column) == batch_size for column in batch):\n        yield tuple(batch)\n        continue\n"),
    B('carry-dropped', _F,
      '        column_buffer = [[column] for column in last_columns]\n        batch_sizes += [_batch_size(column) for column in last_columns]\n',
      '        pass\n', 'R-C19-3'),
    B('carry-without-sizes', _F,
      '        column_buffer = [[column] for column in last_columns]\n        batch_sizes += [_batch_size(column) for column in last_columns]\n',
      '        column_buffer = [[column] for column in last_columns]\n', 'R-C19-3'),
    B('partial-emitted-early', _F,
      '      if _batch_size(last_columns[0]) == batch_size:\n        yield last_columns',
      '      if _batch_size(last_columns[0]) <= batch_size:\n        yield last_columns', None),
    B('held-slice-overwritten', _F,
      '        if last_columns is not None:\n          yield last_columns\n        last_columns = columns',
      '        last_columns = columns', 'R-C19-2'),
    B('no-reset-after-flush', _F,
      '      column_buffer = [[] for _ in range(num_columns)]\n      batch_sizes = np.zeros(num_columns, dtype=int)\n      if last_columns is None:',
      '      batch_sizes = np.zeros(num_columns, dtype=int)\n      if last_columns is None:', 'R-C19-2'),
    B('pad-any-batch', _F, '      elif exhausted and pad is not None:', '      elif pad is not None:', 'R-C19-3'),
    B('last-batch-dropped', _F, '      elif exhausted:\n        yield last_columns\n      else:',
      '      elif exhausted:\n        pass\n      else:', 'R-C19-3'),
    B('sizes-from-wrong-batch', _F,
      '      batch_sizes += [_batch_size(column) for column in batch]\n      if not all(',
      '      batch_sizes += [_batch_size(batch[0]) for column in batch]\n      if not all(', None),
    B('crossed-batch-sizes', 'chainables/tree_fns.py',
      '          batch_size=self.fn_batch_size,\n          num_columns=self._num_inputs,',
      '          batch_size=self.batch_size,\n          num_columns=self._num_inputs,', 'R-C19-4'),
    OK('tail-reordered', _F,
       '      elif exhausted and pad is not None:\n        yield tuple(_pad(col, pad, batch_size) for col in last_columns)\n      elif exhausted:\n        yield last_columns',
       '      elif exhausted and pad is None:\n        yield last_columns\n      elif exhausted:\n        yield tuple(_pad(col, pad, batch_size) for col in last_columns)'),
]
