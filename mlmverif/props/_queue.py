"""Shared model of IteratorQueue for C04 / C05 / C13 / C15."""
from __future__ import annotations

import ast

from mlmverif import cfg as cfgm
from mlmverif.core import AnalysisError, ClassInfo, Ctx, FuncInfo, Repo
from mlmverif.locks import LockEngine
from mlmverif.sync import Sync

QMOD = 'utils.iter_utils'
QCLS = 'IteratorQueue'
DEQ = 'IteratorQueue._dequeue_lock'
ENQ = 'IteratorQueue._enqueue_lock'
STATES = 'IteratorQueue._states_lock'


class QueueModel:

  def __init__(self, repo: Repo):
    self.repo = repo
    self.eng = LockEngine(repo)
    self.sync = Sync(repo, self.eng)
    self.qcls = repo.cls(QMOD, QCLS)
    table = self.eng.lock_table(self.qcls)
    for attr in ('_dequeue_lock', '_enqueue_lock', '_states_lock'):
      if attr not in table:
        raise AnalysisError(f'IteratorQueue lock {attr} not found in __init__')
    if table['_dequeue_lock'][1] != 'condition' or table['_enqueue_lock'][1] != 'condition':
      raise AnalysisError('IteratorQueue dequeue/enqueue locks are no longer'
                          ' threading.Condition objects')
    self.classes = [self.qcls] + repo.subclasses(self.qcls)
    self.roots: list[tuple[FuncInfo, ClassInfo]] = []
    for ci in self.classes:
      seen = set()
      for c in repo.mro(ci):
        for name, m in c.methods.items():
          if name in seen:
            continue
          seen.add(name)
          if m.is_property or name == '__init__':
            continue
          if name.startswith('_') and not name.startswith('__'):
            continue
          if c not in self.classes and c is not ci:
            # inherited from abstract bases outside the queue family
            if not any(c is q for q in repo.mro(self.qcls)):
              pass
          self.roots.append((m, ci))
    for m, ci in self.roots:
      self.eng.analyze(m, (), {}, (), ci)
    # cross-class roots: classes holding an IteratorQueue attribute
    self.client_roots: list[FuncInfo] = []
    for ci in repo.all_classes():
      if ci in self.classes:
        continue
      uses = False
      for m in ci.methods.values():
        for n in ast.walk(m.node):
          if isinstance(n, ast.Attribute) and isinstance(n.value, ast.Attribute):
            if (isinstance(n.value.value, ast.Name) and n.value.value.id == 'self'
                and self.eng.attr_class(ci, n.value.attr) in self.classes):
              uses = True
      if uses:
        for m in ci.methods.values():
          if m.is_property:
            continue
          self.client_roots.append(m)
          self.eng.analyze(m, (), {}, (), ci)

  def methods(self) -> list[FuncInfo]:
    out = []
    seen = set()
    for ci in self.classes:
      for m in ci.methods.values():
        if (m.module.name, m.qualname) not in seen:
          seen.add((m.module.name, m.qualname))
          out.append(m)
    return out

  def method(self, name: str) -> FuncInfo:
    return self.repo.func(QMOD, f'{QCLS}.{name}')


_MODEL_ATTR = '_mlm_queue_model'


def model(ctx: Ctx) -> QueueModel:
  m = getattr(ctx.repo, _MODEL_ATTR, None)
  if m is None:
    m = QueueModel(ctx.repo)
    setattr(ctx.repo, _MODEL_ATTR, m)
  return m
