"""C11 — merge is non-destructive; result() is pure; empty operand accepted.

Structural clauses: merge only ever modifies its receiver (effect/alias
analysis of every merge-like method), a field that aliases the operand is
never mutated in place later, result() has no side effect on the accumulator
(including stale `functools.cached_property` caches), an empty operand is
accepted wherever an empty receiver is, and merge_states only mutates the
first state.  Associativity/commutativity up to rounding is not decided.
"""
from __future__ import annotations

import ast

from mlmverif import cfg as cfgm
from mlmverif.core import (kwarg, AnalysisError, Ctx, FuncInfo, is_self_attr, norm,
                           unparse, walk_no_nested)
from mlmverif.effects import DIRECT, ELEM, NONE
from mlmverif.props._agg import MERGE_NAMES, model

EXPLANATION = (
    'Effect/alias analysis (flow-insensitive taint per function,'
    ' interprocedural through self methods) of every merge-like method of the'
    ' shipped accumulators. Decides: no mutation event targets an object owned'
    ' by the operand; self fields that alias the operand after merge are never'
    ' mutated in place by any method of the class; result() and what it'
    ' reaches do not mutate the accumulator and no functools.cached_property'
    ' caches a value derived from fields that merge/add update; a merge that'
    ' special-cases an empty receiver and then zips strictly also accepts an'
    ' empty operand; merge_states mutates only the first state. NOT decided:'
    ' associativity/commutativity/numerical equality of merged results.'
)
ASSUMPTIONS = [
    'Frozen mutator-name table (append/extend/pop/update/merge/add/...);'
    ' list()/tuple()/copy.copy() produce fresh containers sharing elements;'
    ' arithmetic and constructor calls return fresh objects.',
    'A *load* of a missing key on a collections.defaultdict is treated as'
    ' observationally neutral (not a mutation of the operand).',
]


def run(ctx: Ctx):
  m = model(ctx)
  for r in (r1, r2, r3, r4, r5, r6, r8, r9, r10, r11, r12, r13, r15, r16, r17, r18, r19, r20):
    ctx.guard(r, m)
  from mlmverif.props import c01
  ctx.include('R-C11-14', '"merging gives the same result for every grouping and order ... neutral element": the NaN convention of an'
              ' accumulator is the same in add and in merge (R-C01-17) — a statistic that skips NaN while accumulating and'
              ' lets it through while merging (or the reverse) makes the result depend on where the shard boundaries fall',
              c01.r17, m, min_instances=2)
  ctx.include('R-C11-7', '"a freshly created (empty) state is a neutral element'
              ' on either side": merge combines every accumulated statistic on'
              ' every path, driven by the configuration and not by what the'
              ' receiver happens to hold (R-C01-1 coverage, R-C01-7 paths), each with the'
              ' same-named statistic of the operand (R-C01-5 pairing)',
              _c01_shared, m, min_instances=30)


def _c01_shared(sub, m):
  from mlmverif.props import c01
  sub.guard(c01.r1, m)
  sub.guard(c01.r7, m)
  sub.guard(c01.r5, m)


def r1(ctx: Ctx, m):
  rule = 'R-C11-1'
  ctx.rule(rule, 'operand immutability: in every merge-like method no store,'
           ' augmented store, delete or mutator call targets an object owned by'
           ' the operand (through properties, local aliases, loop targets over'
           ' the operand\'s containers, and self-methods receiving it)')
  for ci, meth in m.merge_methods:
    op = m.operand(meth)
    muts = m.eff.mutations(meth, {op: DIRECT})
    # mutations of `self` are expected; keep only operand-owned targets
    muts = [x for x in muts if not x.target.startswith('self')]
    if muts:
      for mu in muts:
        ctx.fail(rule, mu.fi, mu.node,
                 f'{ci.name}.{meth.name}: {mu.how} on `{mu.target}`, an object'
                 f' owned by the operand `{op}` (via {" > ".join(mu.chain)}):'
                 ' the merged-in state is damaged and no longer reports its'
                 ' own result', node=mu.node)
    else:
      ctx.ok(rule, meth, f'{ci.name}.{meth.name}({op}) leaves {op} untouched',
             meth.node)
  ctx.floor(rule, 15)


def _merge_alias_fields(m, ci, meth):
  """self fields that hold operand-owned objects after this merge."""
  op = m.operand(meth)
  eff = m.eff
  out = {}
  seen = set()

  def visit(fi, tainted, depth):
    k = (fi.qualname, tuple(sorted(tainted.items())))
    if k in seen or depth > 3:
      return
    seen.add(k)
    env = eff.env(fi, tainted)
    for n in walk_no_nested(fi.node):
      if isinstance(n, ast.Assign):
        pairs = []
        for t in n.targets:
          if isinstance(t, (ast.Tuple, ast.List)):
            if isinstance(n.value, (ast.Tuple, ast.List)) and len(n.value.elts) == len(t.elts):
              pairs += list(zip(t.elts, n.value.elts))
            else:
              pairs += [(te, n.value) for te in t.elts]
          else:
            pairs.append((t, n.value))
        for t, v in pairs:
          if is_self_attr(t):
            lv = eff.level(v, env)
            if lv != NONE:
              out[eff.canon_field(ci, t.attr)] = max(
                  lv, out.get(eff.canon_field(ci, t.attr), NONE))
      if isinstance(n, ast.Call):
        callee = eff.resolve(n, fi)
        if callee is not None:
          sub = eff._bind_call(n, callee, env)
          sub.pop('self', None)
          if sub:
            visit(callee, sub, depth + 1)

  visit(meth, {op: DIRECT}, 0)
  return out


def r2(ctx: Ctx, m):
  rule = 'R-C11-2'
  ctx.rule(rule, 'alias leak: a self field assigned an operand-owned object'
           ' (or a shallow copy sharing its elements) in merge is never'
           ' mutated in place by any method of the class — later updates to'
           ' one side must not leak into the other')
  n = 0
  for ci, meth in m.merge_methods:
    aliased = _merge_alias_fields(m, ci, meth)
    if not aliased:
      continue
    # in-place mutation sites on those fields anywhere in the class family
    family = [c for c in m.classes if ci in m.repo.mro(c)]
    for fld, lvl in aliased.items():
      n += 1
      bad = None
      for c in family:
        for mm in c.methods.values():
          if mm.name == '__init__' or mm.name == '__post_init__':
            continue
          eff_m = FuncInfo(mm.module, mm.qualname, mm.node, c)
          w = m.eff.field_writes(eff_m)
          for how, node in w.get(fld, []):
            inplace = how in ('mutator', 'item', 'aug', 'delegate')
            if how == 'aug' and isinstance(node, ast.AugAssign) and not (
                is_self_attr(node.target)):
              inplace = True
            if not inplace:
              continue
            # `self.f += x` on an immutable (number/tuple) rebinds; arrays and
            # lists mutate in place: only DIRECT aliases are at risk
            if how == 'aug' and lvl != DIRECT:
              continue
            if how in ('mutator', 'item', 'delegate') or lvl == DIRECT:
              bad = (mm, node, how)
      if bad:
        mm, node, how = bad
        ctx.fail(rule, mm, node,
                 f'{ci.name}.{fld} aliases the operand after'
                 f' {meth.name}() (level {"alias" if lvl == DIRECT else "shared elements"})'
                 f' and is mutated in place here ({how}): a later update leaks'
                 ' into the merged-in state', node=node)
      else:
        ctx.ok(rule, meth, f'{ci.name}.{fld} aliases operand after merge but is'
               ' only ever rebound', meth.node,
               detail='alias' if lvl == DIRECT else 'shared elements')
  ctx.floor(rule, 2, n)


def r3(ctx: Ctx, m):
  rule = 'R-C11-3'
  ctx.rule(rule, 'pure result: result() and everything it reaches on self'
           ' perform no mutation of the accumulator; no'
           ' functools.cached_property of an accumulator (or of a state object'
           ' it merges into) depends on fields that merge/add update')
  eff = m.eff
  n = 0
  for ci in m.accumulators:
    res = m.method_of(ci, 'result')
    if res is None or m._is_abstract(res):
      continue
    n += 1
    muts = [x for x in eff.mutations(res, {'self': DIRECT})]
    if muts:
      for mu in muts:
        ctx.fail(rule, mu.fi, mu.node,
                 f'{ci.name}.result() mutates the accumulator: {mu.how} on'
                 f' `{mu.target}` (via {" > ".join(mu.chain)}) — reading a'
                 ' result must not disturb subsequent updates', node=mu.node)
    else:
      ctx.ok(rule, res, f'{ci.name}.result() has no side effect on self', res.node)
  # cached_property on mutable accumulators / state objects
  n_cp = 0
  for ci in m.classes:
    updaters = [m.method_of(ci, nm) for nm in ('merge', 'add', '__iadd__', '_merge')]
    updaters = [u for u in updaters if u is not None and not m._is_abstract(u)]
    if not updaters:
      continue
    written = set()
    for u in updaters:
      written |= set(eff.field_writes(u))
    for name, meth in ci.methods.items():
      if not meth.is_cached_property:
        continue
      n_cp += 1
      reads = eff.field_reads(meth)
      dep = {r.lstrip('@') for r in reads}
      hit = sorted(dep & written)
      if hit:
        ctx.fail(rule, meth, f'@functools.cached_property {ci.name}.{name}',
                 f'{ci.name}.{name} is cached on first read but is derived from'
                 f' {hit}, which merge/add keep updating: a result() between two'
                 ' updates freezes the value (later results are stale)',
                 node=meth.node)
      else:
        ctx.ok(rule, meth, f'cached_property {ci.name}.{name} independent of'
               ' updated fields', meth.node)
  ctx.floor(rule, 12, n)


def r4(ctx: Ctx, m):
  rule = 'R-C11-4'
  ctx.rule(rule, 'two-sided emptiness: a merge that special-cases an empty'
           ' receiver field and then consumes zip(self.F, other.F,'
           ' strict=True) must test the operand\'s emptiness before the zip')
  n = 0
  for ci, meth in m.merge_methods:
    op = m.operand(meth)
    zips = []
    for x in walk_no_nested(meth.node):
      if isinstance(x, ast.Call) and unparse(x.func) == 'zip' and any(
          k.arg == 'strict' and isinstance(k.value, ast.Constant) and k.value.value
          for k in x.keywords):
        zips.append(x)
    if not zips:
      continue
    g = cfgm.cfg_of(meth.node)
    for z in zips:
      self_fields = [a for a in z.args if is_self_attr(a)]
      op_fields = [a for a in z.args if isinstance(a, ast.Attribute)
                   and isinstance(a.value, ast.Name) and a.value.id == op]
      if not self_fields or not op_fields:
        continue
      sf = self_fields[0].attr
      # receiver special case: a cond testing `not self.F` / `self.F`
      recv_tests = [nd for nd in g.nodes if nd.kind == 'cond' and any(
          is_self_attr(y, sf) for y in cfgm.node_exprs(nd))]
      if not recv_tests:
        continue
      n += 1
      opf = op_fields[0].attr
      zn = [nd for nd in g.nodes if any(y is z for y in cfgm.node_exprs(nd))]
      op_tests = lambda nd: nd.kind == 'cond' and any(
          isinstance(y, ast.Attribute) and isinstance(y.value, ast.Name)
          and y.value.id == op and y.attr.lstrip('_') == opf.lstrip('_')
          for y in cfgm.node_exprs(nd))
      bad = None
      for nd in zn:
        # paths that take the receiver-is-empty branch are fine (lengths are
        # made equal there); the other branch needs an operand test
        w = g.dominates(lambda x: op_tests(x) or x in recv_tests and False, nd,
                        cfgm.only_normal)
        if w is not None:
          bad = w
      if bad:
        ctx.fail(rule, meth, z,
                 f'{ci.name}.merge accepts an empty receiver (tests self.{sf})'
                 f' but not an empty operand: zip(..., strict=True) raises'
                 f' ValueError for x.merge(fresh) although fresh.merge(x)'
                 ' works — a fresh state is not a neutral element on the right',
                 witness=bad)
      else:
        ctx.ok(rule, meth, f'{ci.name}.merge tests operand emptiness before'
               ' strict zip', z)
  ctx.floor(rule, 2, n)


def r5(ctx: Ctx, m):
  rule = 'R-C11-5'
  ctx.rule(rule, 'fold discipline: merge_states takes the first state as the'
           ' only receiver of merge/+=, feeds every later state as an operand'
           ' exactly once, and returns the receiver')
  repo = ctx.repo
  targets = [('aggregates.base', 'MergeableMetricAggFn.merge_states', ('merge',)),
             ('aggregates.classification', 'ConfusionMatrixAggFn.merge_states', ('+=',)),
             ('aggregates.keras_metric_wrapper', 'KerasAggregateFn.merge_states', ('merge_state',))]
  for mod, qn, ops in targets:
    fi = repo.func(mod, qn)
    states = fi.params()[1]
    first = None
    itname = None
    for x in walk_no_nested(fi.node):
      # the one-pass stream of states: iter(states), or the states minus the empty marker None
      # (`(s for s in states if s is not None)`: dropping None states loses nothing)
      if isinstance(x, ast.Assign) and isinstance(x.targets[0], ast.Name):
        ge = x.value
        if isinstance(ge, ast.Call) and unparse(ge.func) == 'iter' and len(ge.args) == 1 and isinstance(ge.args[0], ast.GeneratorExp):
          ge = ge.args[0]
        if isinstance(ge, ast.GeneratorExp) and len(ge.generators) == 1 and unparse(ge.generators[0].iter) == states and (
            unparse(ge.elt) == unparse(ge.generators[0].target)) and all(
                isinstance(c, ast.Compare) and len(c.ops) == 1 and isinstance(c.ops[0], ast.IsNot) and unparse(c.left) == unparse(ge.elt)
                and isinstance(c.comparators[0], ast.Constant) and c.comparators[0].value is None
                for c in ge.generators[0].ifs):
          itname = x.targets[0].id
      if isinstance(x, ast.Assign) and isinstance(x.value, ast.Call):
        fn = unparse(x.value.func)
        if fn == 'iter' and x.value.args and unparse(x.value.args[0]) == states:
          itname = x.targets[0].id if isinstance(x.targets[0], ast.Name) else None
        if fn == 'next' and x.value.args and isinstance(x.targets[0], ast.Name):
          if unparse(x.value.args[0]) in (itname, states):
            first = x.targets[0].id
    problem = None
    if first is None or itname is None:
      problem = 'the first state is not taken with next(iter(states))'
    else:
      receivers = set()
      operands = []
      for x in walk_no_nested(fi.node):
        if isinstance(x, ast.Call) and isinstance(x.func, ast.Attribute) and (
            x.func.attr in ops):
          receivers.add(unparse(x.func.value))
          operands.append(x)
        if isinstance(x, ast.AugAssign) and '+=' in ops:
          receivers.add(unparse(x.target))
          operands.append(x)
      if not operands:
        problem = 'no merge operation found in merge_states'
      elif receivers != {first}:
        problem = (f'merge receivers are {sorted(receivers)}; only the first'
                   f' state `{first}` may be modified')
      else:
        # operands come from the same iterator, once per loop iteration
        loops = [x for x in walk_no_nested(fi.node) if isinstance(x, ast.For)
                 and unparse(x.iter) == itname]
        for o in operands:
          in_loop = any(any(y is o for y in ast.walk(l)) for l in loops)
          arg = (unparse(o.args[0]) if isinstance(o, ast.Call) and o.args
                 else unparse(o.value) if isinstance(o, ast.AugAssign) else '')
          if in_loop:
            lv = [unparse(l.target) for l in loops if any(y is o for y in ast.walk(l))]
            if arg not in lv:
              problem = f'the merged operand `{arg}` is not the loop element'
          elif itname not in arg:
            problem = 'later states are not all merged into the first'
      rets = [x for x in walk_no_nested(fi.node) if isinstance(x, ast.Return)]
      if not rets or any(unparse(r.value) != first for r in rets):
        problem = problem or 'merge_states does not return the receiver'
    if problem:
      ctx.fail(rule, fi, f'{qn}: fold', problem + ' (states would be lost,'
               ' double-counted, or a non-first state modified)', node=fi.node)
    else:
      ctx.ok(rule, fi, f'{qn}: first.{ops[0]} over the rest, returns first', fi.node)
  ctx.floor(rule, 3)


LOSSY_EXEMPT = {
    'FixedSizeSample': 'bounded random reservoir by specification: only size,'
                       ' membership and reviewed-count are fixed (property C01)',
}


def _truncating(e: ast.AST) -> str | None:
  for x in ast.walk(e):
    if isinstance(x, ast.Subscript) and isinstance(x.slice, ast.Slice) and x.slice.upper is not None:
      return f'slice {unparse(x)[:40]}'
    if isinstance(x, ast.Call):
      fn = unparse(x.func)
      if fn.split('.')[-1] in ('most_common',) and (x.args or x.keywords):
        return f'{fn}(n)'
      if fn in ('heapq.nlargest', 'heapq.nsmallest', 'itertools.islice', 'itt.islice',
                'mit.take', 'more_itertools.take'):
        return fn
      # value-narrowing coercions: the stored statistic loses the fractional /
      # high part of what was combined
      if fn.split('.')[-1] == 'astype' and isinstance(x.func, ast.Attribute):
        tgt = unparse(x.args[0]) if x.args else unparse(kwarg(x, 'dtype')) if kwarg(x, 'dtype') is not None else ''
        if tgt.strip('\'"').split('.')[-1] not in ('float64', 'float', 'float_', 'double',
                                                   'longdouble', 'float128', 'complex128', 'object'):
          return f'cast {fn}({tgt})'
      if fn in ('int', 'round', 'np.floor', 'np.trunc', 'np.rint', 'np.round', 'np.around',
                'np.ceil', 'math.floor', 'math.trunc', 'math.ceil', 'np.int32', 'np.int64',
                'np.float32', 'np.float16'):
        return f'narrowing {fn}()'
  return None


def r6(ctx: Ctx, m):
  rule = 'R-C11-6'
  ctx.rule(rule, 'lossless merge: merge (and the self helpers it calls) never'
           ' stores a truncated view (bounded slice, most_common(n),'
           ' nlargest/islice) or a narrowed value (astype to a non-float64'
           ' type, int(), floor/round) of the combined state into the accumulator and'
           ' never deletes accumulated entries — a partial merge must remain a'
           ' sufficient statistic, truncation belongs in result()')
  n = 0
  for ci, meth in m.merge_methods:
    if ci.name in LOSSY_EXEMPT:
      ctx.info(rule, meth, f'{ci.name} exempt: {LOSSY_EXEMPT[ci.name]}')
      continue
    n += 1
    todo = [meth]
    seen = set()
    problem = None
    while todo and problem is None:
      fi = todo.pop()
      if fi.qualname in seen:
        continue
      seen.add(fi.qualname)
      trunc_names: dict[str, str] = {}
      for _ in range(2):
        for x in walk_no_nested(fi.node):
          if isinstance(x, ast.Assign) and isinstance(x.targets[0], ast.Name):
            why = _truncating(x.value) or next(
                (trunc_names[y.id] for y in ast.walk(x.value)
                 if isinstance(y, ast.Name) and y.id in trunc_names), None)
            if why:
              trunc_names[x.targets[0].id] = why
      for x in walk_no_nested(fi.node):
        tgt = None
        val = None
        if isinstance(x, ast.Assign):
          tgt, val = x.targets[0], x.value
        elif isinstance(x, ast.AugAssign):
          tgt, val = x.target, x.value
        if tgt is not None:
          base = tgt
          while isinstance(base, (ast.Attribute, ast.Subscript)):
            base = base.value
          if isinstance(base, ast.Name) and base.id == 'self' and not isinstance(tgt, ast.Name):
            why = _truncating(val) or next(
                (trunc_names[y.id] for y in ast.walk(val)
                 if isinstance(y, ast.Name) and y.id in trunc_names), None)
            if why:
              problem = (x, f'stores a truncated value ({why}) into `{unparse(tgt)}`')
        if isinstance(x, ast.Delete):
          for t in x.targets:
            b = t
            while isinstance(b, (ast.Attribute, ast.Subscript)):
              b = b.value
            if isinstance(b, ast.Name) and b.id == 'self':
              problem = (x, f'deletes accumulated entries (`{unparse(x)}`)')
        if isinstance(x, ast.Call) and isinstance(x.func, ast.Attribute) and x.func.attr in (
            'pop', 'popitem', 'clear', 'remove', 'discard', 'popleft'):
          b = x.func.value
          while isinstance(b, (ast.Attribute, ast.Subscript)):
            b = b.value
          if isinstance(b, ast.Name) and b.id == 'self':
            problem = (x, f'removes accumulated entries (`{unparse(x)[:50]}`)')
        # ... nor hands a truncated view of the operand to the state object that
        # does the combining (self.<state>.merge(<truncated>), update, extend, ...)
        if isinstance(x, ast.Call) and isinstance(x.func, ast.Attribute) and x.func.attr in (
            'merge', 'update', 'extend', 'append', 'add', 'insert', 'push'):
          b = x.func.value
          while isinstance(b, (ast.Attribute, ast.Subscript)):
            b = b.value
          if isinstance(b, ast.Name) and b.id == 'self' and not isinstance(x.func.value, ast.Name):
            for a_ in list(x.args) + [k.value for k in x.keywords]:
              why = _truncating(a_) or next(
                  (trunc_names[y.id] for y in ast.walk(a_)
                   if isinstance(y, ast.Name) and y.id in trunc_names), None)
              if why:
                problem = (x, f'combines only a truncated view of the operand ({why}) via'
                           f' `{unparse(x.func)}`')
        if isinstance(x, ast.Call):
          callee = m.eff.resolve(x, fi)
          if callee is not None and callee.cls is not None:
            todo.append(callee)
    if problem:
      node, msg = problem
      ctx.fail(rule, meth, node,
               f'{ci.name}.{meth.name} {msg}: what a merge keeps is no longer a'
               ' sufficient statistic, so the result depends on the grouping'
               ' and order of merges', node=node)
    else:
      ctx.ok(rule, meth, f'{ci.name}.{meth.name} keeps everything it combined', meth.node)
  ctx.floor(rule, 15, n)


def r8(ctx: Ctx, m):
  rule = 'R-C11-8'
  ctx.rule(rule, '"a freshly created (empty) state is a neutral element" on the'
           ' right: when merge has an early return for an empty operand (a test'
           ' of the operand alone), no field of the receiver is written on the'
           ' path from the entry to that return — configuration adopted from an'
           ' empty operand (e.g. its default `_multi_input`) would change what'
           ' the receiver reports')
  n = 0
  for ci, meth in m.merge_methods:
    op = m.operand(meth)
    g = cfgm.cfg_of(meth.node)
    early = []
    for c in g.nodes:
      if c.kind != 'cond':
        continue
      names = {y.id for y in ast.walk(c.ast) if isinstance(y, ast.Name)}
      if op in names and 'self' not in names:
        for s_, lab in c.succ:
          if lab == 'true' and s_.kind == 'stmt' and isinstance(s_.ast, ast.Return):
            early.append((c, s_))
    for c, ret in early:
      n += 1
      before = g.reachable([g.entry], avoid=lambda nd, c=c: nd is c, edge_ok=cfgm.only_normal, include_src=True)
      # nodes that can still reach the guard
      writes = None
      for nd in before:
        if nd.kind != 'stmt' or nd.ast is None:
          continue
        if c not in g.reachable([nd], edge_ok=cfgm.only_normal):
          continue
        for x in ast.walk(nd.ast):
          if isinstance(x, (ast.Assign, ast.AugAssign)):
            tg = x.targets if isinstance(x, ast.Assign) else [x.target]
            if any(is_self_attr(t) or (isinstance(t, ast.Subscript) and is_self_attr(t.value)) for t in tg):
              writes = nd
          if isinstance(x, ast.Call) and unparse(x.func) in ('object.__setattr__', 'setattr') and x.args and (
              unparse(x.args[0]) == 'self'):
            writes = nd
      if writes is not None:
        ctx.fail(rule, meth, f'{ci.name}.{meth.name}: nothing written before the empty-operand return',
                 f'{ci.name}.{meth.name} executes `{writes.text()[:60]}` before it returns for an'
                 f' empty operand (`if {unparse(c.ast)[:40]}: return`): merging a fresh state'
                 ' on the right changes the receiver, so the result depends on where'
                 ' the empty shard sits in the merge order', node=writes.ast)
      else:
        ctx.ok(rule, meth, f'{ci.name}.{meth.name}: empty operand leaves the receiver untouched', c.ast)
  ctx.floor(rule, 3, n)


def r9(ctx: Ctx, m):
  rule = 'R-C11-9'
  ctx.rule(rule, '"a freshly created (empty) state is a neutral element on either side": add and merge'
           ' agree on what an EMPTY state is. When add() treats the initial value of a statistic as a'
           ' mere placeholder — it overwrites the field (instead of combining with it) under a test that'
           ' the accumulator has seen nothing yet (`not self._count`, `self._count == 0`, a flag computed'
           ' from it) — then merge() must know the same: it contains an emptiness test (of the'
           ' receiver\'s or the operand\'s count) that guards how that field is combined. Otherwise the'
           ' placeholder of an empty state (e.g. max = 0) takes part in merge as if it were data:'
           ' x.merge(fresh) reports 0 for all-negative x')
  n = 0

  def empt_names(fn):
    """Locals that hold an emptiness test of a count field."""
    out = set()
    for x in walk_no_nested(fn):
      if isinstance(x, ast.Assign) and _is_emptiness(x.value, set()):
        out |= {t.id for t in x.targets if isinstance(t, ast.Name)}
    return out

  for ci in m.accumulators:
    add = ci.methods.get('add')
    merge = ci.methods.get('merge')
    if add is None or merge is None:
      continue
    flags = empt_names(add.node)
    placeholder_fields = set()
    for x in walk_no_nested(add.node):
      if isinstance(x, ast.If) and _is_emptiness(x.test, flags):
        for b in x.body:
          for y in ast.walk(b):
            if isinstance(y, ast.Assign):
              for t in y.targets:
                for tt in (t.elts if isinstance(t, (ast.Tuple, ast.List)) else [t]):
                  if is_self_attr(tt) and not any(is_self_attr(z, tt.attr) for z in ast.walk(y.value)):
                    placeholder_fields.add(tt.attr)
    if not placeholder_fields:
      continue
    n += 1
    mflags = empt_names(merge.node)
    handled = any(isinstance(x, ast.If) and _is_emptiness(x.test, mflags) for x in walk_no_nested(merge.node))
    if handled:
      ctx.ok(rule, merge, f'{ci.name}: add and merge both special-case the empty state for {sorted(placeholder_fields)}', merge.node)
    else:
      ctx.fail(rule, merge, f'{ci.name}.merge treats an empty state like {ci.name}.add does',
               f'{ci.name}.add overwrites {sorted(placeholder_fields)} when nothing was added yet (the initial values are'
               f' placeholders), but {ci.name}.merge combines those fields unconditionally: the placeholder of an empty'
               ' receiver or operand enters the result as if it were data, so a fresh state is not neutral',
               node=merge.node)
  ctx.floor(rule, 0, n)


def r10(ctx: Ctx, m):
  rule = 'R-C11-10'
  ctx.rule(rule, '"merging gives the same result for every grouping and order": an accumulator that keeps one sub-state per'
           ' KEY (`self.<state>[key]`) merges key by key over the keys of the OPERAND\'s state (other.state.items() / keys())'
           ' or over the very collection add() iterates to fill it (the normalised `self._metrics`). Iterating anything else'
           ' — e.g. the raw configuration value, which may be a single name (a str iterates as characters) — touches keys'
           ' that are not in the state and never the real ones: merge silently becomes a no-op for that configuration')
  n = 0
  for ci in m.accumulators:
    merge = ci.methods.get('merge')
    if merge is None:
      continue
    op = m.operand(merge)
    for lp in walk_no_nested(merge.node):
      if not isinstance(lp, ast.For):
        continue
      lvars = {y.id for y in ast.walk(lp.target) if isinstance(y, ast.Name)}
      keyed = [sub for x in ast.walk(lp) for sub in ([x] if isinstance(x, ast.Subscript) else [])
               if is_self_attr(sub.value) and isinstance(sub.slice, ast.Name) and sub.slice.id in lvars]
      if not keyed:
        continue
      fld = keyed[0].value.attr
      n += 1
      it_names = {y.id for y in ast.walk(lp.iter) if isinstance(y, ast.Name)}
      from_operand = op in it_names
      same_as_add = False
      for other_m in ('add', 'new', '_metric_states', 'result'):
        om = m.method_of(ci, other_m)
        if om is None or other_m == 'result':
          continue
        for l2 in ast.walk(om.node):
          if isinstance(l2, ast.For) and norm(unparse(l2.iter)) == norm(unparse(lp.iter)):
            v2 = {y.id for y in ast.walk(l2.target) if isinstance(y, ast.Name)}
            if any(isinstance(x, ast.Subscript) and is_self_attr(x.value, fld) and isinstance(x.slice, ast.Name)
                   and x.slice.id in v2 for x in ast.walk(l2)):
              same_as_add = True
          # ... or add gates each fill by membership in that collection: `if 'x' in <coll>: self.<state>['x'].add(...)`
          if isinstance(l2, ast.If) and isinstance(l2.test, ast.Compare) and len(l2.test.ops) == 1 and isinstance(
              l2.test.ops[0], ast.In) and norm(unparse(l2.test.comparators[0])) == norm(unparse(lp.iter)) and any(
                  isinstance(x, ast.Subscript) and is_self_attr(x.value, fld) for b in l2.body for x in ast.walk(b)):
            same_as_add = True
      what = f'{ci.name}.merge: the keyed state `{fld}` is merged over the operand\'s keys (or add\'s key collection)'
      if from_operand or same_as_add:
        ctx.ok(rule, merge, what, lp)
      else:
        ctx.fail(rule, merge, what,
                 f'{ci.name}.merge loops `for {unparse(lp.target)} in {unparse(lp.iter)}` and merges self.{fld}[...] per key,'
                 f' but `{unparse(lp.iter)}` is neither the operand\'s state nor the collection add() fills self.{fld} from:'
                 ' when it yields other keys (a single metric name iterates as characters) the real sub-states are never'
                 ' merged and bogus ones are created — merge(a, b) reports a alone', node=lp)
  ctx.floor(rule, 1, n)


_INPLACE_METHODS = {'append', 'extend', 'update', 'add', 'insert', 'pop', 'popleft', 'remove', 'clear', 'sort', 'fill', 'put',
                    'resize', 'itemset', 'setdefault'}


def r11(ctx: Ctx, m):
  rule = 'R-C11-11'
  ctx.rule(rule, '"merge only ever modifies its receiver" / every grouping gives the same result: two accumulator FIELDS that'
           ' are bound to one and the same mutable object (a chained assignment `self._a = self._b = <array>` in the'
           ' constructor) are never updated in place (`self._a += ...`, `self._a[...] = ...`, a mutating method): the update'
           ' would hit every alias — each histogram would receive the sum of all of them. As long as every update rebinds'
           ' the field the sharing is harmless')
  n = 0
  for ci in m.classes:
    aliases: list[set[str]] = []
    for name in ('__init__', '__post_init__'):
      fi = ci.methods.get(name)
      if fi is None:
        continue
      for x in walk_no_nested(fi.node):
        if isinstance(x, ast.Assign):
          flds = {t.attr for t in x.targets if is_self_attr(t)}
          if len(flds) >= 2 and not isinstance(x.value, ast.Constant):
            aliases.append(flds)
    for grp in aliases:
      n += 1
      bad = None
      for fi in ci.methods.values():
        for x in ast.walk(fi.node):
          if isinstance(x, ast.AugAssign):
            t = x.target
            base = t.value if isinstance(t, ast.Subscript) else t
            if is_self_attr(base) and base.attr in grp:
              bad = (fi, x)
          elif isinstance(x, ast.Assign):
            for t in x.targets:
              if isinstance(t, ast.Subscript) and is_self_attr(t.value) and t.value.attr in grp:
                bad = (fi, x)
          elif isinstance(x, ast.Call) and isinstance(x.func, ast.Attribute) and x.func.attr in _INPLACE_METHODS and is_self_attr(
              x.func.value) and x.func.value.attr in grp:
            bad = (fi, x)
      what = f'{ci.name}: the fields {sorted(grp)} share their initial object and are only ever rebound'
      if bad is None:
        ctx.ok(rule, ci.methods.get('__post_init__') or ci.methods.get('__init__'), what, ci.node)
      else:
        fi, x = bad
        ctx.fail(rule, fi, what,
                 f'{ci.name} binds {sorted(grp)} to ONE object when it is created, and {fi.qualname} updates one of them in place'
                 f' (`{unparse(x)[:70]}`): on a state that was never rebound (a fresh receiver) the update lands in all'
                 f' {len(grp)} fields — fresh.merge(a) puts the sum of a\'s statistics into each of them', node=x)
  ctx.floor(rule, 1, n)


def r12(ctx: Ctx, m):
  rule = 'R-C11-12'
  ctx.rule(rule, '"a freshly created (empty) state is a neutral element on either side": an AggregateFn whose empty state is the'
           ' marker None (it keeps the base create_state(), and its update_state tests the state for None / truth before'
           ' combining) applies the same convention in merge_states: the states it folds are filtered or tested for None'
           ' before they are combined. A shard that saw no batch contributes None; `result += None` / `None += state`'
           ' raises TypeError, so the merge of sharded runs fails whenever one shard is empty')
  n = 0
  for ci in m.classes:
    upd = ci.methods.get('update_state')
    mrg = ci.methods.get('merge_states')
    if upd is None or mrg is None or m._is_abstract(mrg):
      continue
    cs = m.method_of(ci, 'create_state')
    none_marker = cs is None or cs.cls is not ci and all(
        isinstance(r, ast.Return) and (r.value is None or (isinstance(r.value, ast.Constant) and r.value.value is None))
        for r in ast.walk(cs.node) if isinstance(r, ast.Return))
    if cs is not None and cs.cls is ci:
      none_marker = all((r.value is None or (isinstance(r.value, ast.Constant) and r.value.value is None))
                        for r in ast.walk(cs.node) if isinstance(r, ast.Return))
    if not none_marker:
      continue
    sp = upd.params()[1] if len(upd.params()) > 1 else None
    if sp is None:
      continue
    from mlmverif.props.c17 import _truth_positions
    tests_state = any((isinstance(t, ast.Name) and t.id == sp) for t in _truth_positions(upd.node)) or any(
        isinstance(c, ast.Compare) and isinstance(c.left, ast.Name) and c.left.id == sp and isinstance(c.ops[0], (ast.Is, ast.IsNot))
        for c in ast.walk(upd.node))
    if not tests_state:
      continue
    n += 1
    none_tests = [c for c in ast.walk(mrg.node) if (isinstance(c, ast.Compare) and isinstance(c.ops[0], (ast.Is, ast.IsNot))
                                                    and isinstance(c.left, ast.Name)
                                                    and isinstance(c.comparators[0], ast.Constant) and c.comparators[0].value is None)
                  or (isinstance(c, ast.Call) and unparse(c.func) == 'filter' and c.args and unparse(c.args[0]) == 'None')]
    what = f'{ci.name}.merge_states treats the empty state (None) like {ci.name}.update_state does'
    if none_tests:
      ctx.ok(rule, mrg, what, none_tests[0])
    else:
      ctx.fail(rule, mrg, what,
               f'{ci.name}.update_state tests its state for None / truth (the empty state of this aggregate IS None: create_state'
               f' is the base one), but {ci.name}.merge_states combines the states it is given without such a test: merging'
               ' the state of a shard that saw no batch raises TypeError instead of leaving the other states unchanged',
               node=mrg.node)
  ctx.floor(rule, 1, n)


def r13(ctx: Ctx, m):
  rule = 'R-C11-13'
  ctx.rule(rule, '"a freshly created (empty) state is a neutral element ... the same result for every grouping": the sub-states of'
           ' a composite accumulator are DISTINCT objects. No accumulator module builds a container by repeating one freshly'
           ' constructed object (`(State(),) * n`, `[State()] * n`): repetition copies the reference, every position is the'
           ' same accumulator, and a column-wise merge pours all columns into it')
  n = 0
  hits = 0
  for ci in m.classes:
    for name, fi in ci.methods.items():
      for x in ast.walk(fi.node):
        if isinstance(x, ast.BinOp) and isinstance(x.op, ast.Mult):
          for side in (x.left, x.right):
            if isinstance(side, (ast.Tuple, ast.List)) and len(side.elts) == 1 and isinstance(side.elts[0], ast.Call) and (
                unparse(side.elts[0].func).split('.')[-1][:1].isupper()):
              hits += 1
              ctx.fail(rule, fi, f'{ci.name}.{name}: sub-states are distinct objects',
                       f'`{unparse(x)[:60]}` in {ci.name}.{name} repeats ONE `{unparse(side.elts[0])}` object: every position of the'
                       ' container is the same accumulator, so per-column merges / adds all land in it (fresh.merge(s) reports the'
                       ' mean over all columns in every position)', node=x)
    n += 1
  if not hits:
    anyc = next((c for c in m.classes if c.methods), None)
    ctx.ok(rule, next(iter(anyc.methods.values())), f'{n} accumulator classes: no container built by repeating one state object', anyc.node)
  ctx.floor(rule, 10, n)


def _is_emptiness(t: ast.AST, flags: set) -> bool:
  while isinstance(t, ast.UnaryOp) and isinstance(t.op, ast.Not):
    t = t.operand
    if isinstance(t, ast.Attribute) and 'count' in t.attr:
      return True
  if isinstance(t, ast.Name) and t.id in flags:
    return True
  if isinstance(t, ast.Compare) and len(t.ops) == 1 and isinstance(t.comparators[0], ast.Constant) and t.comparators[0].value == 0:
    return isinstance(t.left, ast.Attribute) and 'count' in t.left.attr
  if isinstance(t, ast.BoolOp):
    return any(_is_emptiness(v, flags) for v in t.values)
  return False


def r15(ctx: Ctx, m):
  rule = 'R-C11-15'
  ctx.rule(rule, '"merging gives the same result for every grouping and order": merge/add never combine numeric state with the'
           ' BUILTIN min()/max() of two or more operands. The builtins compare with `<`, which is false for NaN on either'
           ' side: min(nan, 1) is nan, min(1, nan) is 1 — the outcome depends on which shard is the receiver; they also'
           ' raise for arrays. The numpy reductions the accumulators use (np.min/np.minimum/np.fmin and their max twins)'
           ' are symmetric in their operands')
  n = 0
  for ci in m.accumulators:
    for name in ('merge', 'add', 'merge_states'):
      fi = ci.methods.get(name)
      if fi is None:
        continue
      op = m.operand(fi) if name == 'merge' else None
      n += 1
      bad = None
      for c in walk_no_nested(fi.node):
        if isinstance(c, ast.Call) and isinstance(c.func, ast.Name) and c.func.id in ('min', 'max') and len(c.args) >= 2:
          touches_state = any(is_self_attr(y) or (isinstance(y, ast.Name) and y.id == op) for a in c.args for y in ast.walk(a))
          if touches_state:
            bad = c
            break
      what = f'{ci.name}.{name}: no builtin min()/max() over accumulated state'
      if bad is not None:
        ctx.fail(rule, fi, what,
                 f'`{unparse(bad)[:60]}` in {ci.name}.{name}: the builtin compares with `<`, so a NaN is kept or dropped depending'
                 ' on its POSITION among the operands — a.merge(b) and b.merge(a) differ, and so do different groupings of'
                 ' the same shards', node=bad)
      else:
        ctx.ok(rule, fi, what, fi.node)
  ctx.floor(rule, 10, n)


def r16(ctx: Ctx, m):
  rule = 'R-C11-16'
  ctx.rule(rule, '"merging gives the same result for every grouping and order": a statistic that is an ARRAY with the dtype of the'
           ' user\'s data — a field some method of the accumulator updates with an axis reduction of its inputs'
           ' (`np.sum(x, axis=0)`: one entry per feature) — is never updated in place (`self.f += ...`) in add / merge. An'
           ' in-place update keeps the RECEIVER\'s dtype: an integer array cannot take a float operand (UFuncTypeError,'
           ' "same_kind" casting), so a state that first saw integer features fails on the first float batch or shard while'
           ' the other order works; re-binding (`self.f = self.f + ...`) promotes. (In-place updates also write into an'
           ' array the state may share with the operand it was first assigned from.)')
  n = 0
  for ci in m.accumulators:
    arrayish = set()
    for fi in ci.methods.values():
      for x in walk_no_nested(fi.node):
        tgt = None
        if isinstance(x, ast.AugAssign) and is_self_attr(x.target):
          tgt, val = x.target.attr, x.value
        elif isinstance(x, ast.Assign) and len(x.targets) == 1 and is_self_attr(x.targets[0]):
          tgt, val = x.targets[0].attr, x.value
        if tgt is None:
          continue
        if any(isinstance(c, ast.Call) and unparse(c.func) in ('np.sum', 'np.nansum', 'np.mean', 'np.nanmean', 'np.prod')
               and kwarg(c, 'axis') is not None and not (isinstance(kwarg(c, 'axis'), ast.Constant) and kwarg(c, 'axis').value is None)
               for c in ast.walk(val)):
          arrayish.add(tgt)
    if not arrayish:
      continue
    for name in ('add', 'merge'):
      fi = ci.methods.get(name)
      if fi is None:
        continue
      for fld in sorted(arrayish):
        ups = [x for x in walk_no_nested(fi.node)
               if (isinstance(x, ast.AugAssign) and is_self_attr(x.target) and x.target.attr == fld)
               or (isinstance(x, ast.Assign) and any(is_self_attr(t) and t.attr == fld for t in x.targets))]
        for u in ups:
          n += 1
          what = f'{ci.name}.{name}: per-feature statistic `self.{fld}` is re-bound, not updated in place'
          if isinstance(u, ast.AugAssign):
            ctx.fail(rule, fi, what,
                     f'`{unparse(u)[:70]}` updates the per-feature array `self.{fld}` in place: with integer features first and'
                     ' float features later (another batch, another shard) numpy refuses the cast and the update raises, while'
                     ' float-then-integer works — the result depends on the order of the operands', node=u)
          else:
            ctx.ok(rule, fi, what, u)
  ctx.floor(rule, 4, n)


def r17(ctx: Ctx, m):
  rule = 'R-C11-17'
  ctx.rule(rule, '"merge only modifies its receiver ... the merged-in state still reports its own result": a state container that is'
           ' a defaultdict is POPULATED by mere lookups — merge() reads `other.state[metric]`, result() reads'
           ' `self._state[metric]` — so whether it is empty says nothing about whether anything was accumulated. result() /'
           ' merge() of such an accumulator never test the container by truth or len(): an untouched state would report one'
           ' thing before and another after it has been the OPERAND of somebody else\'s merge')
  from mlmverif.props.c17 import _truth_positions
  n = 0
  for ci in m.accumulators:
    dd = set()
    for st in ci.node.body:
      if isinstance(st, ast.AnnAssign) and isinstance(st.target, ast.Name) and st.value is not None and 'defaultdict' in unparse(st.value):
        dd.add(st.target.id)
    init = ci.methods.get('__post_init__') or ci.methods.get('__init__')
    if init is not None:
      for x in ast.walk(init.node):
        if isinstance(x, ast.Assign) and 'defaultdict' in unparse(x.value):
          dd |= {t.attr for t in x.targets if is_self_attr(t)}
    if not dd:
      continue
    for name in ('result', 'merge'):
      fi = ci.methods.get(name)
      if fi is None:
        continue
      n += 1
      bad = None
      for t in _truth_positions(fi.node):
        if is_self_attr(t) and t.attr in dd:
          bad = t
      for c in ast.walk(fi.node):
        if isinstance(c, ast.Call) and unparse(c.func) == 'len' and c.args and is_self_attr(c.args[0]) and c.args[0].attr in dd:
          bad = c
      what = f'{ci.name}.{name}: the defaultdict state {sorted(dd)} is not tested for emptiness'
      if bad is not None:
        ctx.fail(rule, fi, what,
                 f'`{unparse(bad)}` is used as an emptiness test in {ci.name}.{name}, but `{unparse(bad) if not isinstance(bad, ast.Call) else unparse(bad.args[0])}` is a'
                 ' defaultdict that a lookup fills: a fresh state reports differently once another state\'s merge has read it', node=bad)
      else:
        ctx.ok(rule, fi, what, fi.node)
  ctx.floor(rule, 1, n)


def r18(ctx: Ctx, m):
  rule = 'R-C11-18'
  ctx.rule(rule, '"a freshly created (empty) state is a neutral element on either side": a statistic that add/merge combine with a'
           ' MINIMUM starts at +inf, one they combine with a MAXIMUM starts at -inf — the neutral element of its own'
           ' combining operation. The class-level default of every field that is re-bound to `np.minimum/np.min/np.fmin(self.f,'
           ' ...)` (resp. the max family) is that identity: a running maximum that starts at 0 reports 0 for all-negative'
           ' data, and merging a state into a fresh one changes its maximum')
  n = 0
  MINF = {'np.minimum', 'np.min', 'np.fmin', 'np.nanmin', 'np.amin', 'min'}
  MAXF = {'np.maximum', 'np.max', 'np.fmax', 'np.nanmax', 'np.amax', 'max'}
  def is_inf(e, sign):
    if isinstance(e, ast.UnaryOp) and isinstance(e.op, ast.USub):
      return is_inf(e.operand, -sign)
    txt = unparse(e)
    if txt in ('np.inf', 'math.inf', 'numpy.inf', "float('inf')", 'np.Inf', 'np.PINF'):
      return sign > 0
    if txt in ("float('-inf')", 'np.NINF'):
      return sign < 0
    return False
  for ci in m.accumulators:
    defaults = {st.target.id: st.value for st in ci.node.body
                if isinstance(st, ast.AnnAssign) and isinstance(st.target, ast.Name) and st.value is not None}
    kinds = {}
    for name in ('add', 'merge'):
      fi = ci.methods.get(name)
      if fi is None:
        continue
      for x in walk_no_nested(fi.node):
        if isinstance(x, ast.Assign) and len(x.targets) == 1 and is_self_attr(x.targets[0]) and isinstance(x.value, ast.Call):
          fn = unparse(x.value.func)
          fld = x.targets[0].attr
          reads_self = any(is_self_attr(y) and y.attr == fld for y in ast.walk(x.value))
          if reads_self and fn in MINF:
            kinds.setdefault(fld, set()).add('min')
          if reads_self and fn in MAXF:
            kinds.setdefault(fld, set()).add('max')
    for fld, ks in sorted(kinds.items()):
      if len(ks) != 1 or fld not in defaults:
        continue
      k = next(iter(ks))
      n += 1
      anchor = ci.methods.get('merge') or ci.methods.get('add')
      what = f'{ci.name}.{fld}: the running {k}imum starts at its neutral element'
      if is_inf(defaults[fld], +1 if k == 'min' else -1):
        ctx.ok(rule, anchor, what, ci.node)
      else:
        ctx.fail(rule, anchor, what,
                 f'`{fld}` of {ci.name} is combined with a {k}imum but starts at `{unparse(defaults[fld])}`, not at'
                 f' {"+inf" if k == "min" else "-inf"}: data on the other side of that start value is reported as the start value, and a'
                 ' fresh state changes the result of the state merged into it', node=ci.node)
  ctx.floor(rule, 2, n)


def r19(ctx: Ctx, m):
  rule = 'R-C11-19'
  ctx.rule(rule, '"a freshly created (empty) state is a neutral element on either side": merge() may return early for an operand'
           ' that HAS NO STATE — tested by the truth of the operand\'s state container itself (`if not other.samples`). A test'
           ' over its ELEMENTS (`any(...)`, `all(...)`, `sum(...)`, `len(x[0])`) is not that: an operand built from empty'
           ' batches has a shape (number of columns, multi-input flag) but only empty columns, and skipping it leaves a'
           ' fresh receiver without that shape — fresh.merge(s) then reports `()` where s reports `[]`')
  n = 0
  for ci in m.accumulators:
    fi = ci.methods.get('merge')
    if fi is None:
      continue
    op = m.operand(fi)
    for st in fi.node.body[:4]:
      if not (isinstance(st, ast.If) and st.body and isinstance(st.body[-1], ast.Return)):
        continue
      if not any(isinstance(y, ast.Name) and y.id == op for y in ast.walk(st.test)):
        continue
      n += 1
      # builtin any()/all()/sum() DIRECTLY over a container attribute of the operand (`any(other.samples)`); numeric tests such
      # as np.all(np.isnan(other.mean)) are "no data" tests of an array statistic, not of a container of columns
      elementwise = [c for c in ast.walk(st.test) if isinstance(c, ast.Call) and unparse(c.func) in ('any', 'all', 'sum')
                     and len(c.args) == 1 and isinstance(c.args[0], ast.Attribute) and isinstance(c.args[0].value, ast.Name)
                     and c.args[0].value.id == op]
      what = f'{ci.name}.merge: the early return tests the operand\'s state container itself'
      if elementwise:
        ctx.fail(rule, fi, what,
                 f'`{unparse(st.test)[:60]}` looks at the ELEMENTS of the operand\'s state: an operand with empty columns is skipped'
                 ' although it carries the shape a fresh receiver has to take over', node=st)
      else:
        ctx.ok(rule, fi, what, st)
  ctx.floor(rule, 1, n)


def r20(ctx: Ctx, m):
  rule = 'R-C11-20'
  ctx.rule(rule, '"a freshly created (empty) state ... later updates do not leak": every call of create_state() hands out a state'
           ' that no other caller holds — its return value is a constructor / factory call, a delegate\'s create_state(), or'
           ' an immutable constant; never an object kept on `self` (`return self._initial_state`): two shards created from'
           ' one aggregate function would be ONE accumulator, the second shard starts from the first one\'s data and'
           ' merge_states merges a state into itself')
  n = 0
  for ci in ctx.repo.all_classes():
    if not ('.aggregates.' in ci.module.name or '.metrics.' in ci.module.name) or ci.module.name.endswith('_test'):
      continue
    fi = ci.methods.get('create_state')
    if fi is None:
      continue
    for r_ in walk_no_nested(fi.node):
      if not (isinstance(r_, ast.Return) and r_.value is not None):
        continue
      n += 1
      v = r_.value
      shared = is_self_attr(v) or (isinstance(v, ast.Name) and any(
          isinstance(x, ast.Assign) and any(isinstance(t, ast.Name) and t.id == v.id for t in x.targets) and is_self_attr(x.value)
          for x in walk_no_nested(fi.node)))
      what = f'{ci.name}.create_state: every call returns a state of its own'
      if shared:
        ctx.fail(rule, fi, what,
                 f'`{unparse(r_)}` hands out an object stored on the aggregate function: all "fresh" states of this function are'
                 ' the same object — updating one shard changes the others, a fresh receiver is not neutral', node=r_)
      else:
        ctx.ok(rule, fi, what, r_)
  ctx.floor(rule, 4, n)


from mlmverif.selfcheck import B, OK  # noqa: E402

_R = 'aggregates/rolling_stats.py'
_U = 'aggregates/utils.py'
_T = 'aggregates/retrieval.py'
VARIANTS = [
    OK('mean-update-through-locals', 'aggregates/rolling_stats.py',
       "    update = mean_diff * math_utils.safe_divide(other.count, self._count)\n    self._mean = math_utils.nanadd(self._mean, update)", "    weight = math_utils.safe_divide(other.count, self._count)\n    update = mean_diff * weight\n    self._mean = math_utils.nanadd(self._mean, update)"),
    B('sampler-skips-an-operand-with-empty-columns', 'aggregates/rolling_stats.py',
      "    if not other.samples:\n      return self", "    if not any(other.samples):\n      return self", 'R-C11-19'),
    B('classification-agg-fn-hands-out-one-initial-state', 'metrics/classification.py',
      "  def create_state(self) -> Any:\n    return self.agg_fn.create_state()", "  def create_state(self) -> Any:\n    if not hasattr(self, '_initial_state'):\n      self._initial_state = self.agg_fn.create_state()\n    return self._initial_state", 'R-C11-20'),
    B('revert-running-maximum-starts-at-zero', 'aggregates/rolling_stats.py',
      "  _max: int = -np.inf\n", "  _max: int = 0\n", 'R-C11-18'),
    B('running-minimum-starts-at-zero', 'aggregates/rolling_stats.py',
      "  _min: int = np.inf\n", "  _min: int = 0\n", 'R-C11-18'),
    OK('running-maximum-starts-at-float-minus-inf', 'aggregates/rolling_stats.py',
       "  _max: int = -np.inf\n", "  _max: int = float('-inf')\n"),
    OK('topk-result-through-a-local-state', 'aggregates/retrieval.py',
       "  def result(self):\n    result = [self._state[metric].result() for metric in self._metrics]", "  def result(self):\n    state = self._state\n    result = [state[metric].result() for metric in self._metrics]"),
    B('topk-result-short-cuts-an-untouched-state', 'aggregates/retrieval.py',
      "  def result(self):\n    result = [self._state[metric].result() for metric in self._metrics]", "  def result(self):\n    if not self._state:\n      return {}\n    result = [self._state[metric].result() for metric in self._metrics]", 'R-C11-17'),
    B('revert-regression-sums-updated-in-place', 'aggregates/rolling_stats.py',
      "    self.sum_xy = self.sum_xy + other.sum_xy", "    self.sum_xy += other.sum_xy", 'R-C11-16'),
    B('regression-add-updates-in-place', 'aggregates/rolling_stats.py',
      "    self.sum_xx = self.sum_xx + np.sum(x**2, axis=0)", "    self.sum_xx += np.sum(x**2, axis=0)", 'R-C11-16'),
    OK('regression-sum-through-np-add', 'aggregates/rolling_stats.py',
       "    self.sum_xy = self.sum_xy + other.sum_xy", "    self.sum_xy = np.add(self.sum_xy, other.sum_xy)"),
    B('scalar-minmax-merged-with-builtins', 'aggregates/rolling_stats.py',
      "    self._min = np.min((self._min, other.min), axis=self.axis)\n    self._max = np.max((self._max, other.max), axis=self.axis)",
      "    if self.axis is None:\n      self._min = min(self._min, other.min)\n      self._max = max(self._max, other.max)\n    else:\n      self._min = np.minimum(self._min, other.min)\n      self._max = np.maximum(self._max, other.max)", 'R-C11-15'),
    OK('minmax-merged-over-a-stack', 'aggregates/rolling_stats.py',
       "    self._min = np.min((self._min, other.min), axis=self.axis)\n    self._max = np.max((self._max, other.max), axis=self.axis)",
       "    lo = np.stack((self._min, other.min))\n    hi = np.stack((self._max, other.max))\n    self._min = np.min(lo, axis=self.axis)\n    self._max = np.max(hi, axis=self.axis)"),
    B('variance-merged-through-second-moments', 'aggregates/rolling_stats.py',
      "    delta_mean = math_utils.nanadd(self._mean, -prev_mean)\n    mean_diff = math_utils.nanadd(other.mean, -self._mean)\n",
      "    delta_mean = self._mean - prev_mean\n    mean_diff = other.mean - self._mean\n", 'R-C11-14'),
    B('tuple-state-grown-by-repeating-one-object', 'aggregates/utils.py',
      '      self.states = tuple(MeanState() for _ in other.states)', '      self.states = (MeanState(),) * len(other.states)', 'R-C11-13'),
    B('revert-merge-states-without-none-filter', 'aggregates/classification.py',
      "    iter_acc = (state for state in states if state is not None)\n    result = next(iter_acc, None)",
      "    iter_acc = iter(states)\n    result = next(iter_acc)", 'R-C11-12'),
    OK('merge-states-filters-none-with-a-loop-test', 'aggregates/classification.py',
       "    iter_acc = (state for state in states if state is not None)\n    result = next(iter_acc, None)\n    for accumulator in iter_acc:\n      result += accumulator",
       "    iter_acc = iter(states)\n    result = next(iter_acc, None)\n    for accumulator in iter_acc:\n      if accumulator is None:\n        continue\n      if result is None:\n        result = accumulator\n        continue\n      result += accumulator"),
    B('samplewise-merge-iterates-raw-config', 'aggregates/classification.py',
      '    for key, value in other.state.items():\n      self._state[key].merge(value)',
      '    for metric in self.metrics:\n      self._state[metric].merge(other.state[metric])', 'R-C11-10'),
    OK('samplewise-merge-iterates-normalised-metrics', 'aggregates/classification.py',
       '    for key, value in other.state.items():\n      self._state[key].merge(value)',
       '    for metric in self._metrics:\n      self._state[metric].merge(other.state[metric])'),
    B('calibration-merge-in-place-on-aliased-fields', 'metrics/classification.py',
      '    return self._merge(\n        other.num_examples_hist,\n        other.labels_hist,\n        other.predictions_hist,\n        other.bin_edges,\n    )',
      '    self._num_examples_hist += other.num_examples_hist\n    self._labels_hist += other.labels_hist\n    self._predictions_hist += other.predictions_hist\n    return self',
      'R-C11-11'),
    B('add-replaces-placeholders-merge-does-not', 'aggregates/rolling_stats.py',
      '    self._min = np.minimum(self._min, np.min(inputs, axis=self.axis))\n    self._max = np.maximum(self._max, np.max(inputs, axis=self.axis))\n',
      '    batch_min = np.min(inputs, axis=self.axis)\n    batch_max = np.max(inputs, axis=self.axis)\n    if is_first_batch:\n      self._min, self._max = batch_min, batch_max\n    else:\n      self._min = np.minimum(self._min, batch_min)\n      self._max = np.maximum(self._max, batch_max)\n',
      'R-C11-9',
      extra=[('aggregates/rolling_stats.py', '    self._count += np.asarray(inputs).size\n\n    if self.batch_score_fn is not None:', '    is_first_batch = not self._count\n    self._count += np.asarray(inputs).size\n\n    if self.batch_score_fn is not None:')]),
    B('merge-carries-only-operand-top-k', 'aggregates/text.py',
      '    # TODO(b/331796958): Optimize storage consumption\n    self._state.merge(other.state)',
      '    top_k = sorted(other.state.counter.items(), key=lambda x: (-x[1], x[0]))\n    other_state = FrequencyState(counter=collections.Counter(dict(top_k[: self.k])), count=other.state.count)\n    self._state.merge(other_state)',
      'R-C11-6'),
    OK('merge-through-local-alias-of-operand-state', 'aggregates/text.py',
       '    # TODO(b/331796958): Optimize storage consumption\n    self._state.merge(other.state)', '    other_state = other.state\n    self._state.merge(other_state)'),
    B('flag-adopted-from-empty-operand', _R,
      '  def merge(self, other: Self) -> Self:\n    if not other.samples:\n      return self',
      '  def merge(self, other: Self) -> Self:\n    self._multi_input = other.multi_input\n    if not other.samples:\n      return self',
      'R-C11-8'),
    B('result-normalises-in-place', _R,
      '    return numerator / denominator\n', '    numerator /= denominator\n    return numerator\n', 'R-C11-3'),
    OK('result-divides-into-fresh-local', _R,
       '    return numerator / denominator\n', '    ratio = numerator / denominator\n    return ratio\n'),
    B('histogram-merge-casts-to-receiver-dtype', _R, '    self._hist = self._hist + hist\n',
      '    self._hist = (self._hist + hist).astype(self._hist.dtype, copy=False)\n', 'R-C11-6'),
    OK('histogram-merge-widens', _R, '    self._hist = self._hist + hist\n',
       '    self._hist = (self._hist + hist).astype(np.float64)\n'),
    B('topk-merge-iterates-receiver-states', _T,
      '    for metric in self._metrics:\n      self._state[metric].merge(other.state[metric])',
      '    for metric, state in self._state.items():\n      state.merge(other.state[metric])',
      'R-C11-7'),
    B('meanstate-merge-adopts-operand-arrays', _U,
      '  def merge(self, other: MeanState):\n    self.total += other.total',
      '  def merge(self, other: MeanState):\n    if not self.count:\n      self.total, self.count = other.total, other.count\n      return\n    self.total += other.total',
      'R-C11-2'),
    B('merge-prunes-to-top-k', 'aggregates/text.py',
      "    # TODO(b/331796958): Optimize storage consumption\n    self._state.merge(other.state)\n",
      "    self._state.merge(other.state)\n    top_k = sorted(self._state.counter.items(), key=lambda x: (-x[1], x[0]))[: self.k]\n    self._state.counter = collections.Counter(dict(top_k))\n",
      'R-C11-6'),
    B('counter-merge-drops-zero-entries', _R,
      '    self._counter.update(other.counter)\n    return self',
      '    self._counter.update(other.counter)\n    for key in [k for k, v in self._counter.items() if not v]:\n      del self._counter[key]\n    return self',
      'R-C11-6'),
    B('counter-merge-into-operand', _R,
      '    self._counter.update(other.counter)\n    return self',
      '    other.counter.update(self._counter)\n    self._counter = other.counter\n    return self',
      'R-C11-1'),
    B('meanstate-swap-direction', _U,
      '    self.total += other.total\n    self.count += other.count\n\n  def result(self):\n    return math_utils.safe_divide(self.total, self.count)',
      '    other.total += self.total\n    self.total = other.total\n    self.count += other.count\n\n  def result(self):\n    return math_utils.safe_divide(self.total, self.count)',
      'R-C11-1'),
    B('sampler-extend-operand-lists', _R,
      '    for samples, others in zip(self._samples, other.samples, strict=True):\n      samples.extend(others)',
      '    for samples, others in zip(self._samples, other.samples, strict=True):\n      others.extend(samples)',
      'R-C11-1'),
    B('sampler-alias-then-extend', _R,
      '      self._samples = tuple([] for _ in other.samples)\n',
      '      self._samples = tuple(other.samples)\n', 'R-C11-2'),
    B('histogram-inplace-add-on-alias', _R,
      '    self._hist = self._hist + hist\n    return self',
      '    if not self._hist.any():\n      self._hist = hist\n      return self\n    self._hist += hist\n    return self',
      'R-C11-2'),
    B('result-pops', _R,
      '  def result(self) -> types.NumbersT:\n    return self._reservoir\n',
      '  def result(self) -> types.NumbersT:\n    self._reservoir.sort()\n    return self._reservoir\n',
      'R-C11-3'),
    B('topk-result-clears-state', _T,
      '    result = [self._state[metric].result() for metric in self._metrics]\n',
      '    result = [self._state.pop(metric).result() for metric in self._metrics]\n',
      'R-C11-3'),
    B('fold-merges-into-each', 'aggregates/base.py',
      '    for state in iter_states:\n      result.merge(state)\n    return result',
      '    for state in iter_states:\n      state.merge(result)\n      result = state\n    return result',
      'R-C11-5'),
    B('fold-drops-return', 'aggregates/classification.py',
      '    for accumulator in iter_acc:\n      result += accumulator\n    return result',
      '    for accumulator in iter_acc:\n      accumulator += result\n    return result',
      'R-C11-5'),
    B('revert-reservoir-copy', _R,
      '    reservoir_new = list(other.reservoir)\n',
      '    reservoir_new = other.reservoir\n', 'R-C11-1'),
    B('revert-cached-property', _T,
      '  @property\n  def precision(self):',
      '  @functools.cached_property\n  def precision(self):', 'R-C11-3',
      extra=((_T, 'import enum\n', 'import enum\nimport functools\n'),)),
    B('revert-empty-operand-guard', _U,
      '    if not other.states:\n      return\n', '', 'R-C11-4'),
    B('revert-empty-operand-guard-sampler', _R,
      '    if not other.samples:\n      return self\n', '', 'R-C11-4'),
    OK('merge-with-copy', _R,
       '    self._counter.update(other.counter)\n    return self',
       '    incoming = dict(other.counter)\n    self._counter.update(incoming)\n    return self'),
    OK('rebinding-sum', _U,
       '    self.total += other.total\n    self.count += other.count\n\n  def result(self):\n    return math_utils.safe_divide(self.total, self.count)',
       '    self.total = self.total + other.total\n    self.count = self.count + other.count\n\n  def result(self):\n    return math_utils.safe_divide(self.total, self.count)'),
    OK('result-sorted-copy', _R,
       '  def result(self) -> types.NumbersT:\n    return self._reservoir\n',
       '  def result(self) -> types.NumbersT:\n    return list(self._reservoir)\n'),
]
