"""C12 — error skipping drops only failing elements; otherwise the first error
surfaces (structural part).

Every operator forwards the skip flag, skip wrappers only wrap iterators that
can resume after an exception, the skip marker keeps outputs aligned with
inputs, the failing index is advanced before re-raising, causes are chained,
sinks are closed.
"""
from __future__ import annotations

import ast

from mlmverif import cfg as cfgm
from mlmverif.core import (AnalysisError, Ctx, FuncInfo, Repo, is_self_attr, parent_map,
                           kwarg, unparse, walk_no_nested)
from mlmverif.props import c08

EXPLANATION = (
    'AST/CFG + return-kind inference over tree_fns.py, iter_utils.py, io.py,'
    ' transform.py. Decides: every TreeFn.iterate override forwards'
    ' ignore_error=self.ignore_error to processed_with_inputs/_iterate and'
    ' the runner copies its flag into every operator and the data source;'
    ' every argument of iter_ignore_error is an iterator that survives an'
    ' exception (builtin map/zip/chain objects, classes with __next__) and'
    ' never a generator object (a generator is finished once an exception'
    ' leaves it, so `continue` turns the error into a silent end of stream);'
    ' the skip path yields the same sentinel it filters on, so the input tee'
    ' stays aligned; _RangeIterator advances its index before re-raising a'
    ' single-element failure; every `raise X(...)` inside an `except ... as e`'
    ' on the operator path chains `from e`; sinks are closed (R-C08-3). NOT'
    ' decided: the exact multiset of delivered elements.'
)
ASSUMPTIONS = ['builtin map/zip/itertools objects and classes implementing'
               ' __next__ can be advanced again after an exception; generator'
               ' objects cannot.']

TF = 'chainables.tree_fns'
IU = 'utils.iter_utils'
IO = 'chainables.io'
TR = 'chainables.transform'


def run(ctx: Ctx):
  for r in (r23, r24, r21, r22, r1, r2, r3, r4, r5, r6, r9, r11, r12, r13, r14, r15, r16, r17, r19, r20):
    ctx.guard(r)
  from mlmverif.props import c09
  ctx.include('R-C12-10', 'error skipping configured on a data source survives a'
              ' state round trip (make(shard=...), restore): the rebuilt root'
              ' carries ignore_error (R-C09-2)', c09.r2, min_instances=3)
  ctx.include('R-C12-18', '"error skipping drops only failing elements": the random-access reader steps over a record only'
              ' after a SINGLE-element read of it failed — the read window it retries with shrinks to one element before'
              ' the index advances past a failure (R-C09-6 read window of _RangeIterator): a failed multi-element or slice'
              ' read says nothing about the individual records', c09.r6, min_instances=1)
  from mlmverif.props import c05
  from mlmverif.props._queue import model as qmodel
  ctx.include('R-C12-7', '"the first error reaches the caller, iteration stops'
              ' and helper threads end" with threads: the failure is stored'
              ' before the stop is announced and both queue sides are woken'
              ' (R-C05-1, R-C05-2)', _c05_shared, qmodel(ctx), min_instances=6)
  ctx.include('R-C12-8', '"still aligned ... elements after a failing one are'
              ' never lost": the recorded position advances only with a'
              ' consumed element (R-C09-4); the in-process operator chain is a'
              ' generator whose failure ends the pipeline (R-C03-2)',
              _pos_shared, min_instances=6)


def _pos_shared(sub):
  from mlmverif.props import c03, c09
  sub.guard(c09.r4)
  sub.guard(c03.r2)


def _c05_shared(sub, m):
  from mlmverif.props import c05
  sub.guard(c05.r1, m)
  sub.guard(c05.r2, m)


def r1(ctx: Ctx):
  rule = 'R-C12-1'
  ctx.rule(rule, 'flag forwarding: every TreeFn.iterate override passes'
           ' ignore_error=self.ignore_error to processed_with_inputs (or to'
           ' _iterate); the runner sets ignore_error on every operator; the'
           ' sequence data source honours its ignore_error')
  repo = ctx.repo
  base = repo.cls(TF, 'TreeFn')
  fam = [base] + repo.subclasses(base)
  n = 0
  for ci in fam:
    it = ci.methods.get('iterate')
    if it is None:
      continue
    calls = [c for c in walk_no_nested(it.node) if isinstance(c, ast.Call) and unparse(c.func) in (
        'iter_utils.processed_with_inputs', 'self._iterate')]
    pw = [c for c in calls if unparse(c.func) == 'iter_utils.processed_with_inputs']
    direct = [c for c in calls if unparse(c.func) == 'self._iterate']
    if not calls:
      continue  # e.g. TreeAggregateFn.iterate raises NotImplementedError
    n += 1
    target = pw or direct
    bad = [c for c in target if unparse(kwarg(c, 'ignore_error')) != 'self.ignore_error']
    if bad:
      ctx.fail(rule, it, bad[0],
               f'{ci.name}.iterate does not forward ignore_error=self.ignore_error:'
               f' with error skipping enabled a failing element in a'
               f' {ci.name} operator still aborts the pipeline', node=bad[0])
    else:
      ctx.ok(rule, it, f'{ci.name}.iterate forwards ignore_error', target[0])
  ri = repo.func(TR, '_RunnerIterator.__init__')
  ok = any(isinstance(c, ast.Call) and unparse(c.func) == 'dataclasses.replace'
           and unparse(kwarg(c, 'ignore_error')) == 'self._ignore_error'
           for c in ast.walk(ri.node))
  loop = any(isinstance(l, ast.For) and unparse(l.iter) == 'self._runner.fns' for l in ast.walk(ri.node))
  if ok and loop:
    ctx.ok(rule, ri, 'runner copies its ignore_error into every operator', ri.node)
  else:
    ctx.fail(rule, ri, '_RunnerIterator: dataclasses.replace(fn, ignore_error=self._ignore_error) for every fn',
             'the runner does not propagate error skipping to every operator',
             node=ri.node)
  ch = repo.func(TR, 'ChainedRunner.iterate')
  fwd = [c for l in walk_no_nested(ch.node) if isinstance(l, ast.For) and unparse(l.iter) == 'self._runners'
         for c in ast.walk(l) if isinstance(c, ast.Call) and isinstance(c.func, ast.Attribute)
         and c.func.attr == 'iterate' and unparse(c.func.value) == unparse(l.target)]
  if fwd and all(unparse(kwarg(c, 'ignore_error')) == 'ignore_error' for c in fwd):
    ctx.ok(rule, ch, 'ChainedRunner.iterate forwards ignore_error to every stage', fwd[0])
  else:
    ctx.fail(rule, ch, 'ChainedRunner.iterate: r.iterate(..., ignore_error=ignore_error)',
             'a chained stage runs without the requested error skipping', node=ch.node)
  si = repo.func(IO, 'SequenceIterator.__init__')
  from mlmverif.core import parent_map
  pm = parent_map(si.node)
  refs = [x for x in ast.walk(si.node) if isinstance(x, ast.Attribute) and x.attr == 'iter_ignore_error'
          or isinstance(x, ast.Name) and x.id == 'iter_ignore_error']
  def _flag_guarded(x):
    q = x
    while q is not si.node and q is not None:
      par = pm.get(q)
      if isinstance(par, (ast.If, ast.IfExp)):
        t_ = par.test
        if isinstance(t_, ast.Attribute) and t_.attr == 'ignore_error':
          in_true = (q is par.body) if isinstance(par, ast.IfExp) else any(q is b_ for b_ in par.body)
          return in_true
      q = par
    return False
  if refs and all(_flag_guarded(x) for x in refs):
    ctx.ok(rule, si, 'data source wraps with iter_ignore_error iff ignore_error', si.node)
  else:
    ctx.fail(rule, si, 'SequenceIterator: iter_ignore_error applied exactly under config.ignore_error',
             'the data source ignores (or always applies) its ignore_error flag',
             node=si.node)
  ctx.floor(rule, 6, n + 3)


def r9(ctx: Ctx):
  rule = 'R-C12-9'
  ctx.rule(rule, '"the first error reaches the caller with the original'
           ' exception as cause": `raise X from None` is only applied to a'
           ' freshly constructed exception — applied to a STORED exception'
           ' object (a field, a local, `a or b`) it overwrites that object\'s'
           ' __cause__ with None, i.e. erases the user\'s original error')
  n = 0
  mods = [m for name, m in sorted(ctx.repo.modules.items())
          if '._src.utils.' in name or '._src.chainables.' in name]
  for mi in mods:
    fns = list(mi.functions.values()) + [m for c in mi.classes.values() for m in c.methods.values()]
    for fi in fns:
      for x in ast.walk(fi.node):
        if not (isinstance(x, ast.Raise) and x.exc is not None and x.cause is not None):
          continue
        if not (isinstance(x.cause, ast.Constant) and x.cause.value is None):
          continue
        n += 1
        fresh = isinstance(x.exc, ast.Call) and not (
            isinstance(x.exc.func, ast.Attribute) and x.exc.func.attr in ('with_traceback',))
        if fresh:
          ctx.ok(rule, fi, f'{fi.qualname}: `{unparse(x)[:60]}` raises a new exception', x)
        else:
          ctx.fail(rule, fi, f'{fi.qualname}: raise <stored exception> from None',
                   f'`{unparse(x)[:70]}` re-raises an existing exception object'
                   ' with `from None`: its __cause__ (the original exception of'
                   ' the failing operator) is reset to None before it reaches the'
                   ' caller', node=x)
  # positive control for the zero-expected shape
  probe = ast.parse('raise (self.exception or StopIteration()) from None').body[0]
  if isinstance(probe.exc, ast.Call):
    raise AnalysisError(f'{rule}: positive control not recognised')
  ctx.ok(rule, None, 'positive control `raise (stored or new) from None` recognised',
         where='mlmverif/props/c12.py')
  ctx.floor(rule, 1, n + 1)


def r11(ctx: Ctx):
  rule = 'R-C12-11'
  ctx.rule(rule, '"still aligned with its own inputs ... regardless of operator'
           ' kind": processed_with_inputs pairs every output slot — a value or'
           ' the skip marker — with one recited input, so the recording'
           ' iterator must buffer exactly one entry for EVERY next() that does'
           ' not end the stream, also when reading the input itself raises:'
           ' otherwise a failing input yields a skip marker with nothing to'
           ' pair it with and assign/filter/sink die with IndexError("No'
           ' element left.") where apply skips the record')
  fi = ctx.repo.func(IU, '_TeeIterator.__next__')
  g = cfgm.cfg_of(fi.node)
  reads = [n for n in g.nodes if any(isinstance(c, ast.Call) and unparse(c.func) == 'next'
                                     and c.args and unparse(c.args[0]) == 'self._iterator'
                                     for x in cfgm.node_exprs(n) for c in ast.walk(x))]
  if len(reads) != 1:
    raise AnalysisError(f'{rule}: expected one next(self._iterator) in _TeeIterator.__next__')
  rd = reads[0]
  app = lambda n: any(isinstance(c, ast.Call) and unparse(c.func) == 'self._buffer.append'
                      for x in cfgm.node_exprs(n) for c in ast.walk(x))
  n = 0
  # normal continuation: one append before the value is returned
  for s_, lab in rd.succ:
    if lab in ('exc', 'close'):
      continue
    n += 1
    if app(s_) or g.must_pass(s_, [g.exit_ret], app, cfgm.only_normal) is None:
      ctx.ok(rule, fi, 'a value read is buffered before it is returned', rd.ast)
    else:
      ctx.fail(rule, fi, '_TeeIterator.__next__: buffer every value read', 'a value is returned without being recorded for the recital', node=rd.ast)
  # failing read: a placeholder entry keeps the recital aligned
  n += 1
  bad = None
  for s_, lab in rd.succ:
    if lab != 'exc':
      continue
    if s_.kind == 'handler' and s_.ast is not None and 'StopIteration' in unparse(getattr(s_.ast, 'type', None) or ast.Constant(None)):
      continue  # end of stream: nothing to pair
    if s_ is g.exit_exc:
      bad = ['the exception leaves __next__ directly']
      continue
    w = g.must_pass(s_, [g.exit_exc, g.exit_ret], app, cfgm.no_close)
    if w is not None:
      bad = w
  if bad is None:
    ctx.ok(rule, fi, 'a failing read still buffers one (placeholder) entry', rd.ast)
  else:
    ctx.fail(rule, fi, '_TeeIterator.__next__: one buffer entry also when the read raises',
             'when next(self._iterator) raises (a failing record of the data'
             ' source) nothing is buffered, but with error skipping the'
             ' operator chain turns that failure into a skip marker in the'
             ' output stream: the marker is paired with the NEXT recital, which'
             ' does not exist yet — IndexError("No element left.") ends the'
             ' pipeline for assign/filter/sink although skipping is enabled',
             node=rd.ast, witness=bad[-6:])
  ctx.floor(rule, 2, n)


def r12(ctx: Ctx):
  rule = 'R-C12-12'
  ctx.rule(rule, '"the first error reaches the caller ..., iteration stops, sinks'
           ' are closed": a sink closes in the `finally` of its own generator,'
           ' which only runs when that generator is exhausted or CLOSED; when a'
           ' later operator of the chain raises, the sink generator is merely'
           ' suspended. The generator that drives the chain (_RunnerIterator\'s'
           ' iter_fn) therefore collects the iterator of every stage and closes'
           ' them in a `finally` around its `yield from`')
  fi = ctx.repo.func(TR, '_RunnerIterator.__init__')
  inner = None
  for x in ast.walk(fi.node):
    if isinstance(x, (ast.FunctionDef,)) and x is not fi.node and any(
        isinstance(y, ast.YieldFrom) for y in ast.walk(x)):
      inner = x
  if inner is None:
    raise AnalysisError(f'{rule}: the chain-driving generator was not found')
  loops = [l for l in ast.walk(inner) if isinstance(l, ast.For) and 'fns' in unparse(l.iter)]
  if not loops:
    raise AnalysisError(f'{rule}: the loop over the operators was not found')
  lp = loops[0]
  # the list that receives every stage iterator
  coll = None
  for x in ast.walk(lp):
    if isinstance(x, ast.Call) and isinstance(x.func, ast.Attribute) and x.func.attr == 'append' and isinstance(
        x.func.value, ast.Name):
      coll = x.func.value.id
  yf = [x for x in ast.walk(inner) if isinstance(x, ast.YieldFrom)]
  tries = [t for t in ast.walk(inner) if isinstance(t, ast.Try) and t.finalbody
           and any(y in list(ast.walk(t)) for y in yf)]
  closes = False
  for t in tries:
    for x in t.finalbody:
      for y in ast.walk(x):
        if isinstance(y, ast.For) and coll is not None and coll in unparse(y.iter) and any(
            isinstance(c, ast.Call) and isinstance(c.func, ast.Attribute) and c.func.attr == 'close'
            for c in ast.walk(y)):
          closes = True
  if coll is not None and closes:
    ctx.ok(rule, FuncInfo(fi.module, f'{fi.qualname}.{inner.name}', inner, fi.cls),
           f'every stage iterator is collected in `{coll}` and closed in a finally', inner)
  else:
    ctx.fail(rule, FuncInfo(fi.module, f'{fi.qualname}.{inner.name}', inner, fi.cls),
             '_RunnerIterator iter_fn: close every stage iterator in a finally around `yield from`',
             'when an operator behind a sink raises, nothing closes the suspended'
             ' sink generator: Sink.iterate never reaches its `finally`, the sink'
             ' stays open after the pipeline has failed (sink wrote [0..3],'
             ' close() calls: 0)', node=yf[0] if yf else inner)
  ctx.floor(rule, 1)


# -- return-kind inference ----------------------------------------------------

BUILTIN_ITERS = {'map', 'zip', 'filter', 'iter', 'itt.chain', 'itertools.chain',
                 'it.starmap', 'itertools.starmap', 'itt.chain.from_iterable',
                 'itertools.chain.from_iterable', 'enumerate', 'reversed'}


class Kinds:

  def __init__(self, repo: Repo):
    self.repo = repo
    self.trace: list[str] = []

  def is_generator(self, fi: FuncInfo) -> bool:
    return any(isinstance(x, (ast.Yield, ast.YieldFrom)) for x in walk_no_nested(fi.node))

  def resolve(self, e: ast.AST, fi: FuncInfo) -> FuncInfo | None:
    if isinstance(e, ast.Name):
      if e.id in fi.module.functions:
        return fi.module.functions[e.id]
      return None
    if isinstance(e, ast.Attribute) and isinstance(e.value, ast.Name):
      if e.value.id == 'self' and fi.cls is not None:
        m = self.repo.find_method(fi.cls, e.attr)
        return m
      mod = self.repo.resolve_module_alias(fi.module, e.value.id)
      if mod is not None and e.attr in mod.functions:
        return mod.functions[e.attr]
    return None

  def of_call_result(self, callee: FuncInfo, depth: int) -> set[str]:
    if self.is_generator(callee):
      self.trace.append(f'{callee.qualname} is a generator function')
      return {'generator'}
    out: set[str] = set()
    for r in walk_no_nested(callee.node):
      if isinstance(r, ast.Return) and r.value is not None:
        out |= self.of_expr(r.value, callee, depth + 1)
    return out

  def of_expr(self, e: ast.AST, fi: FuncInfo, depth: int = 0,
              bindings: dict[str, set[str]] | None = None) -> set[str]:
    bindings = bindings or {}
    if depth > 6:
      return {'unknown'}
    if isinstance(e, ast.IfExp):
      return self.of_expr(e.body, fi, depth, bindings) | self.of_expr(e.orelse, fi, depth, bindings)
    if isinstance(e, ast.GeneratorExp):
      self.trace.append(f'generator expression at line {e.lineno}')
      return {'generator'}
    if isinstance(e, ast.Subscript):
      return {'resumable'}
    if isinstance(e, ast.Name):
      if e.id in bindings:
        return bindings[e.id]
      out: set[str] = set()
      for s in walk_no_nested(fi.node):
        if isinstance(s, ast.Assign) and any(isinstance(t, ast.Name) and t.id == e.id for t in s.targets):
          out |= self.of_expr(s.value, fi, depth + 1, bindings)
      return out or {'param'}
    if isinstance(e, ast.Call):
      fn = unparse(e.func)
      if fn in BUILTIN_ITERS:
        return {'resumable'}
      # a local alias of a callable: map_ = a if c else b
      if isinstance(e.func, ast.Name):
        cands = []
        for s in walk_no_nested(fi.node):
          if isinstance(s, ast.Assign) and any(isinstance(t, ast.Name) and t.id == e.func.id for t in s.targets):
            v = s.value
            cands.extend([v.body, v.orelse] if isinstance(v, ast.IfExp) else [v])
        if cands:
          out = set()
          for c in cands:
            if unparse(c) in BUILTIN_ITERS:
              out.add('resumable')
            else:
              callee = self.resolve(c, fi)
              out |= self._guarded_or(callee, depth) if callee else {'unknown'}
          return out
        if e.func.id in bindings:
          return bindings[e.func.id]
        if e.func.id in fi.params():
          return {'param'}
      callee = self.resolve(e.func, fi)
      if callee is not None:
        return self._guarded_or(callee, depth)
      # classes with __next__
      ci = self.repo.resolve_class(fi.module, fn)
      if ci is not None and self.repo.find_method(ci, '__next__') is not None:
        return {'resumable'}
      return {'unknown'}
    return {'unknown'}

  def _guarded_or(self, callee: FuncInfo, depth: int) -> set[str]:
    # iter_ignore_error / map_ignore_error swallow the skippable errors
    # themselves: their result never propagates one, so it is safe to wrap
    if callee.name in ('iter_ignore_error', 'map_ignore_error'):
      return {'resumable'}
    return self.of_call_result(callee, depth + 1)


def r2(ctx: Ctx):
  rule = 'R-C12-2'
  ctx.rule(rule, 'resumability: the iterator handed to iter_ignore_error can'
           ' be advanced again after an exception (builtin map/zip/chain,'
           ' slices of random-access sources, classes with __next__); it is'
           ' never a generator object')
  repo = ctx.repo
  kinds = Kinds(repo)
  n = 0
  for fi in repo.all_functions():
    if not fi.module.name.endswith(('iter_utils', 'tree_fns', 'io', 'transform')):
      continue
    for c in walk_no_nested(fi.node):
      if not (isinstance(c, ast.Call) and unparse(c.func).split('.')[-1] == 'iter_ignore_error' and c.args):
        continue
      n += 1
      kinds.trace = []
      arg = c.args[0]
      ks = kinds.of_expr(arg, fi)
      if 'param' in ks and isinstance(arg, ast.Name):
        # the iterator comes from calling a parameter: follow the call sites
        ks = (ks - {'param'}) | _from_callers(repo, kinds, fi, arg.id)
      if 'generator' in ks:
        ctx.fail(rule, fi, f'{fi.qualname}: iter_ignore_error(<operator output>)',
                 f'iter_ignore_error wraps `{unparse(arg)}`, which can be a'
                 f' generator object ({"; ".join(kinds.trace[-2:])}): after the'
                 ' first skipped error the generator is finished, so every'
                 ' later element is silently lost', node=c)
      else:
        ctx.ok(rule, fi, f'{unparse(c)[:70]}: kinds {sorted(ks)}', c)
  # the mapping skip wrapper: its INPUT iterator must survive an error as well
  for fi in repo.all_functions():
    if not fi.module.name.endswith(('iter_utils', 'tree_fns', 'io', 'transform')):
      continue
    for c in walk_no_nested(fi.node):
      callee = unparse(c.func).split('.')[-1] if isinstance(c, ast.Call) else ''
      target = None
      if callee == 'map_ignore_error' and len(c.args) >= 2:
        target = c.args[1]
      elif isinstance(c, ast.Call) and isinstance(c.func, ast.Name) and len(c.args) >= 2:
        # alias: map_ = map_ignore_error if flag else map
        defs = [x.value for x in walk_no_nested(fi.node) if isinstance(x, ast.Assign) and any(
            isinstance(t, ast.Name) and t.id == c.func.id for t in x.targets)]
        if any('map_ignore_error' in unparse(d) for d in defs):
          target = c.args[1]
      if target is None:
        continue
      n += 1
      kinds.trace = []
      ks = kinds.of_expr(target, fi)
      if 'generator' in ks:
        how = 'always' if ks <= {'generator'} else 'with some batching options'
        ctx.fail(rule, fi, f'{fi.qualname}: map_ignore_error(fn, <input iterator that is {how} a generator>)',
                 f'the error-skipping map draws from `{unparse(target)}`, which is {how} a'
                 f' generator object ({"; ".join(kinds.trace[-2:])}): an error raised while'
                 ' producing an INPUT (a failing data-source record) travels through'
                 ' that generator and finishes it, so every later element is'
                 ' silently lost although skipping is enabled', node=c)
      else:
        ctx.ok(rule, fi, f'{fi.qualname}: skip-map input kinds {sorted(ks)}', c)
  # callable aliases: iter_ = iter_ignore_error if flag else iter ; iter_(X)
  si = repo.func(IO, 'SequenceIterator.__init__')
  for c in walk_no_nested(si.node):
    if isinstance(c, ast.Call) and unparse(c.func) == 'iter_' and c.args:
      n += 1
      ks = kinds.of_expr(c.args[0], si)
      if 'generator' in ks:
        ctx.fail(rule, si, c, 'the data source wraps a generator with the skip wrapper')
      else:
        ctx.ok(rule, si, f'{unparse(c)}: kinds {sorted(ks)}', c)
  ms = repo.func(IU, 'MergedSequences.slice')
  ksl = set()
  for r in walk_no_nested(ms.node):
    if isinstance(r, ast.Return) and r.value is not None:
      ksl |= kinds.of_expr(r.value, ms)
  if 'generator' in ksl:
    ctx.fail(rule, ms, 'MergedSequences.slice returns a resumable iterator',
             'slicing a merged sequence yields a generator: a skipped read'
             ' error ends the data source', node=ms.node)
  else:
    ctx.ok(rule, ms, f'MergedSequences.slice kinds {sorted(ksl)}', ms.node)
  ctx.floor(rule, 3, n + 1)


def _from_callers(repo, kinds: Kinds, fi: FuncInfo, name: str) -> set[str]:
  """`name = param(...)` in fi: kinds returned by the functions passed as param."""
  out: set[str] = set()
  calls = []
  for s in walk_no_nested(fi.node):
    if isinstance(s, ast.Assign) and any(isinstance(t, ast.Name) and t.id == name for t in s.targets):
      if isinstance(s.value, ast.Call) and isinstance(s.value.func, ast.Name) and s.value.func.id in fi.params():
        calls.append(s.value.func.id)
  if not calls:
    return {'unknown'}
  pidx = fi.params().index(calls[0])
  for caller in repo.all_functions():
    for c in walk_no_nested(caller.node):
      if isinstance(c, ast.Call) and unparse(c.func).split('.')[-1] == fi.name:
        arg = c.args[pidx] if len(c.args) > pidx else kwarg(c, calls[0])
        if arg is None:
          continue
        callee = kinds.resolve(arg, caller)
        if callee is not None:
          out |= kinds.of_call_result(callee, 0)
        else:
          out.add('unknown')
  return out or {'unknown'}


def r3(ctx: Ctx):
  rule = 'R-C12-3'
  ctx.rule(rule, 'alignment marker: iter_ignore_error yields error_return and'
           ' continues on a skippable error; processed_with_inputs passes the'
           ' same sentinel it filters on (identity) and zips outputs with the'
           ' input tee')
  repo = ctx.repo
  ie = repo.func(IU, 'iter_ignore_error')
  g = cfgm.cfg_of(ie.node)
  hs = [h for h in g.nodes if h.kind == 'handler' and h.exc_types and '_IGNORE_ERROR_TYPES' in h.exc_types]
  ok = False
  for h in hs:
    body = g.reachable([h], edge_ok=cfgm.only_normal)
    ys = [n for n in body if isinstance(n.ast, ast.Expr) and isinstance(n.ast.value, ast.Yield)
          and unparse(n.ast.value.value) == 'error_return']
    cont = [n for n in body if isinstance(n.ast, ast.Continue)]
    rs = [n for n in body if isinstance(n.ast, (ast.Return, ast.Raise))]
    if ys and cont and not rs:
      ok = True
  stop = [h for h in g.nodes if h.kind == 'handler' and h.exc_types and 'StopIteration' in h.exc_types]
  if ok and stop:
    ctx.ok(rule, ie, 'skip: yield error_return; continue — stop only on StopIteration', ie.node)
  else:
    ctx.fail(rule, ie, 'iter_ignore_error: except _IGNORE_ERROR_TYPES: yield error_return; continue',
             'a skipped element does not leave a marker (inputs and outputs'
             ' drift apart) or ends the iteration', node=ie.node)
  pw = repo.func(IU, 'processed_with_inputs')
  wrap = [c for c in walk_no_nested(pw.node) if isinstance(c, ast.Call) and unparse(c.func) == 'iter_ignore_error']
  sent = unparse(kwarg(wrap[0], 'error_return')) if wrap else None
  filt = [x for x in ast.walk(pw.node) if isinstance(x, ast.Compare) and isinstance(x.ops[0], ast.IsNot)]
  same = bool(sent) and sent != 'None' and any(unparse(x.comparators[0]) == sent for x in filt)
  zips = [c for c in ast.walk(pw.node) if isinstance(c, ast.Call) and unparse(c.func) == 'zip']
  tee = zips and all(len(c.args) == 2 and unparse(c.args[1]).endswith('.tee()') for c in zips)
  if same and tee and len(zips) == 2:
    ctx.ok(rule, pw, f'sentinel {sent}: passed as error_return and filtered by identity; zip with tee()', pw.node)
  else:
    ctx.fail(rule, pw, 'processed_with_inputs: iter_ignore_error(out, error_return=_SKIP) ... if output is not _SKIP',
             f'the skip marker passed ({sent}) is not the one filtered on, or'
             ' outputs are not zipped with the recorded inputs: elements after'
             ' a skipped one are paired with the wrong inputs', node=pw.node)
  tee_fn = repo.func(IU, '_TeeIterator.__next__')
  from mlmverif import pat
  got = pat.search(tee_fn.node, '$v = next(self._iterator)')
  if got and pat.has(tee_fn.node, f'self._buffer.append({got[0][1]["v"]})') and any(
      isinstance(r_, ast.Return) and unparse(r_.value) == got[0][1]['v'] for r_ in walk_no_nested(tee_fn.node)):
    ctx.ok(rule, tee_fn, 'tee records each consumed input once', tee_fn.node)
  else:
    ctx.fail(rule, tee_fn, '_TeeIterator.__next__: value = next(it); buffer.append(value)',
             'inputs are not recorded exactly once for re-pairing', node=tee_fn.node)
  ctx.floor(rule, 3)


def r4(ctx: Ctx):
  rule = 'R-C12-4'
  ctx.rule(rule, 'skip advances: in _RangeIterator.__next__ the re-raise of a'
           ' single-element read failure is preceded by an increment of the'
           ' index, and the fallback path shrinks the batch size')
  fi = ctx.repo.func(IU, '_RangeIterator.__next__')
  g = cfgm.cfg_of(fi.node)
  hs = [h for h in g.nodes if h.kind == 'handler']
  if not hs:
    raise AnalysisError(f'{rule}: _RangeIterator.__next__ has no handler')
  h = hs[0]
  body = g.reachable([h], edge_ok=cfgm.only_normal)
  rer = [n for n in body if isinstance(n.ast, ast.Raise) and n.ast.exc is None]
  inc = lambda n: isinstance(n.ast, ast.AugAssign) and is_self_attr(n.ast.target, 'i') and isinstance(n.ast.op, ast.Add)
  if rer and all(g.must_pass(h, [r_], inc, cfgm.only_normal) is None for r_ in rer):
    ctx.ok(rule, fi, 'self.i advanced before the re-raise', rer[0].ast)
  else:
    ctx.fail(rule, fi, '_RangeIterator.__next__: self.i += 1 before raise',
             'a failing element is re-raised without advancing the index: with'
             ' error skipping the same element is retried forever', node=fi.node)
  shr = [n for n in body if isinstance(n.ast, ast.Assign) and is_self_attr(n.ast.targets[0], '_batch_size')]
  if shr and '// 4' in unparse(shr[0].ast) or shr and 'max(' in unparse(shr[0].ast):
    ctx.ok(rule, fi, 'fallback shrinks the read-ahead batch', shr[0].ast)
  else:
    ctx.fail(rule, fi, '_RangeIterator.__next__: self._batch_size = max(int(self._batch_size // 4), 1)',
             'a failed read-ahead batch is not retried with a smaller batch',
             node=fi.node)
  # successful reads advance by exactly what was cached
  # the amount read: the local used as slice width / set from self._batch_size
  amount = {x.targets[0].id for x in walk_no_nested(fi.node) if isinstance(x, ast.Assign)
            and isinstance(x.targets[0], ast.Name) and 'self._batch_size' in unparse(x.value)}
  ok = any(isinstance(x, ast.AugAssign) and is_self_attr(x.target, 'i') and isinstance(x.value, ast.Name)
           and x.value.id in amount for x in walk_no_nested(fi.node))
  if ok:
    ctx.ok(rule, fi, 'successful read advances by the batch read', fi.node)
  else:
    ctx.fail(rule, fi, '_RangeIterator.__next__: self.i += batch_size',
             'the index does not advance by the number of elements read', node=fi.node)
  ctx.floor(rule, 3)


_MATERIALISED_CALLS = {'list', 'tuple', 'sorted', 'set', 'frozenset', 'dict', 'np.asarray', 'np.array',
                       'collections.deque', 'copy.copy', 'copy.deepcopy'}
_BULK = {'extend', 'extendleft', 'update'}


def _materialised(e: ast.AST, fn: ast.AST, depth: int = 0) -> bool:
  """Is the value of `e` certainly a finished collection (cannot raise while being read)?"""
  if isinstance(e, (ast.List, ast.Tuple, ast.Set, ast.Dict, ast.ListComp, ast.SetComp, ast.DictComp,
                    ast.Constant)):
    return True
  if isinstance(e, ast.Call) and unparse(e.func) in _MATERIALISED_CALLS:
    return True
  if isinstance(e, ast.Name) and depth < 3:
    defs = [x.value for x in walk_no_nested(fn) if isinstance(x, ast.Assign) and any(
        isinstance(t, ast.Name) and t.id == e.id for t in x.targets)]
    return bool(defs) and all(_materialised(d, fn, depth + 1) for d in defs)
  return False


def r13(ctx: Ctx):
  rule = 'R-C12-13'
  ctx.rule(rule, 'retry atomicity: inside a loop, a `try` whose handler can complete'
           ' normally (the loop retries, typically with a smaller window) must not'
           ' leave a half-done bulk update behind: a persistent container (attribute'
           ' or a local defined outside the try) is extended only from a value that'
           ' is already materialised (list(...)/tuple(...)/literal) — extending it'
           ' straight from a slice of caller-supplied data or from an iterator lets'
           ' the failure surface half-way through extend(): the elements read before'
           ' it stay, the position is not advanced, and the retry reads them again'
           ' (duplicates) — unless the handler rolls the container back')
  repo = ctx.repo
  n = 0
  for fi in repo.all_functions():
    if fi.module.name.endswith('_test'):
      continue
    pm = None
    for t in walk_no_nested(fi.node):
      if not isinstance(t, ast.Try):
        continue
      retrying = [h for h in t.handlers if not _always_leaves(h.body)]
      if not retrying:
        continue
      if pm is None:
        pm = parent_map(fi.node)
      q, in_loop = pm.get(t), False
      while q is not None and q is not fi.node:
        if isinstance(q, (ast.While, ast.For)):
          in_loop = True
          break
        q = pm.get(q)
      if not in_loop:
        continue
      local_in_try = {tt.id for x in t.body for y in ast.walk(x) if isinstance(y, ast.Assign)
                      for tt in y.targets if isinstance(tt, ast.Name)}
      for x in (y for b in t.body for y in ast.walk(b)):
        tgt = arg = None
        if isinstance(x, ast.Call) and isinstance(x.func, ast.Attribute) and x.func.attr in _BULK and len(x.args) == 1:
          tgt, arg = x.func.value, x.args[0]
        elif isinstance(x, ast.AugAssign) and isinstance(x.op, ast.Add) and isinstance(
            x.value, (ast.Subscript, ast.Call, ast.GeneratorExp)) and not isinstance(x.target, ast.Subscript):
          # numeric += is not a bulk update: only sequences built from slices/calls
          continue
        if tgt is None:
          continue
        persistent = is_self_attr(tgt) or (isinstance(tgt, ast.Name) and tgt.id not in local_in_try)
        if not persistent:
          continue
        n += 1
        rolled = any(isinstance(c, ast.Call) and isinstance(c.func, ast.Attribute) and c.func.attr == 'clear'
                     and unparse(c.func.value) == unparse(tgt) for h in retrying for c in ast.walk(h))
        if _materialised(arg, fi.node) or rolled:
          ctx.ok(rule, fi, f'{unparse(tgt)}.{x.func.attr}(<materialised>)', x)
        else:
          ctx.fail(rule, fi, f'{fi.qualname}: bulk update of {unparse(tgt)} inside a retried try reads a materialised value',
                   f'`{unparse(x)[:70]}` extends {unparse(tgt)} directly from `{unparse(arg)[:40]}`, which'
                   ' may be lazy (a slice of a caller-supplied random-access source can be an iterator,'
                   ' as MergedSequences slices are): when reading fails half-way the elements already'
                   ' appended stay, the handler retries from the same position and they are delivered'
                   ' again', node=x)
  ctx.floor(rule, 1, n)


def _always_leaves(body) -> bool:
  if not body:
    return False
  last = body[-1]
  if isinstance(last, (ast.Raise, ast.Return)):
    return True
  if isinstance(last, ast.If) and last.orelse:
    return _always_leaves(last.body) and _always_leaves(last.orelse)
  return False


def r14(ctx: Ctx):
  rule = 'R-C12-14'
  ctx.rule(rule, '"regardless of ... operator kind": in TreeFn._iterate EVERY path from'
           ' entry to the return routes the inputs through the error-skipping map —'
           ' a call of the name bound to `map_ignore_error if <ignore_error> else map`'
           ' (or of map_ignore_error itself) — no shortcut (e.g. for the identity'
           ' function of select) hands the input iterator on unwrapped: a skippable'
           ' failure arriving from the inputs would escape the operator and abort the'
           ' run although error skipping is on')
  fi = ctx.repo.func(TF, 'TreeFn._iterate')
  ps = fi.params()
  flag = next((p_ for p_ in ps if 'ignore' in p_), None)
  if flag is None:
    raise AnalysisError(f'{rule}: TreeFn._iterate has no ignore_error parameter')
  sel = set()
  for x in walk_no_nested(fi.node):
    if isinstance(x, ast.Assign) and len(x.targets) == 1 and isinstance(x.targets[0], ast.Name) and isinstance(
        x.value, ast.IfExp):
      v = x.value
      names = {unparse(v.body).split('.')[-1], unparse(v.orelse).split('.')[-1]}
      if names == {'map_ignore_error', 'map'} and flag in unparse(v.test):
        # polarity: the skipping map is chosen when the flag is true
        pos = unparse(v.body).split('.')[-1] == 'map_ignore_error'
        negated = isinstance(v.test, ast.UnaryOp) and isinstance(v.test.op, ast.Not)
        if pos != negated:
          sel.add(x.targets[0].id)
  g = cfgm.cfg_of(fi.node)

  def routes(nd):
    for x in cfgm.node_exprs(nd):
      if isinstance(x, ast.Call) and (
          (isinstance(x.func, ast.Name) and x.func.id in sel) or unparse(x.func).split('.')[-1] == 'map_ignore_error'):
        return True
    return False

  if not any(routes(nd) for nd in g.nodes):
    ctx.fail(rule, fi, 'TreeFn._iterate: inputs are mapped with the error-skipping map',
             'TreeFn._iterate no longer selects map_ignore_error under its ignore_error flag', node=fi.node)
  else:
    def skipping_on(a, b, lab):
      # paths on which the flag is known to be off owe nothing
      if not cfgm.only_normal(a, b, lab):
        return False
      if a.kind == 'cond':
        t, neg = a.ast, False
        while isinstance(t, ast.UnaryOp) and isinstance(t.op, ast.Not):
          t, neg = t.operand, not neg
        if isinstance(t, ast.Name) and t.id == flag and lab == ('true' if neg else 'false'):
          return False
      return True

    w = g.must_pass(g.entry, [g.exit_ret], routes, skipping_on)
    if w is None:
      ctx.ok(rule, fi, 'every path of _iterate passes the error-skipping map', fi.node)
    else:
      ctx.fail(rule, fi, 'TreeFn._iterate: every path routes the inputs through the error-skipping map',
               'a path through _iterate returns without the error-skipping map ('
               + ' -> '.join(x_.split(':', 2)[-1][:40] for x_ in w[-5:]) + '): for that operator kind a'
               ' skippable failure arriving from the inputs escapes and aborts the run', node=fi.node,
               witness=w[-10:])
  ctx.floor(rule, 1)


def r15(ctx: Ctx):
  rule = 'R-C12-15'
  ctx.rule(rule, '"the first error reaches the caller ..., iteration stops, sinks are'
           ' closed and helper threads end": in the __next__ of the pipeline iterators'
           ' (MultiplexIterator, _RunnerIterator, _ChainedRunnerIterator) every call'
           ' that advances or feeds the pipeline — next(...), <x>.update_state(...) —'
           ' has ALL its exceptional continuations (other than a handler for'
           ' StopIteration only) pass `self.maybe_stop()` before the exception leaves'
           ' the method; `super().__next__()` is delegated to the base, which is'
           ' checked itself. And maybe_stop reaches an in-process stage as well: it'
           ' calls close() on the iterator it draws from when that is not Stoppable'
           ' (a suspended generator keeps its sink open). Otherwise a failure that'
           ' happens outside the protected call (the aggregate update, a downstream'
           ' stage) leaves the producer threads blocked in put() for ever and the'
           ' sinks open')
  repo = ctx.repo
  n = 0
  targets = [repo.func(IU, 'MultiplexIterator.__next__'), repo.func(TR, '_RunnerIterator.__next__'),
             repo.func(TR, '_ChainedRunnerIterator.__next__')]
  for fi in targets:
    g = cfgm.cfg_of(fi.node)

    def feeding_call(nd):
      for x in cfgm.node_exprs(nd):
        if isinstance(x, ast.Call):
          f = unparse(x.func)
          if f == 'next' or (isinstance(x.func, ast.Attribute) and x.func.attr == 'update_state'):
            return x
      return None

    def stops(nd):
      return any(isinstance(x, ast.Call) and unparse(x.func) == 'self.maybe_stop' for x in cfgm.node_exprs(nd))

    def explicit(a, b, lab):
      return lab != 'close' and (lab != 'exc' or isinstance(a.ast, ast.Raise))

    calls = [nd for nd in g.nodes if nd.kind in ('stmt', 'cond') and feeding_call(nd) is not None]
    delegated = any(isinstance(x, ast.Call) and unparse(x.func) == 'super().__next__' for x in ast.walk(fi.node))
    if not calls and not delegated:
      raise AnalysisError(f'{rule}: {fi.qualname} neither draws from an iterator nor delegates to its base')
    for nd in calls:
      n += 1
      c = feeding_call(nd)
      why = None
      for h, lab in nd.succ:
        if lab != 'exc':
          continue
        if h is g.exit_exc:
          why = 'no handler covers it'
          continue
        if h.exc_types and set(h.exc_types) <= {'StopIteration', 'StopAsyncIteration'}:
          continue
        if g.must_pass(h, [g.exit_exc], stops, explicit) is not None:
          why = f'the handler `{h.text()}` re-raises without stopping'
      if why:
        ctx.fail(rule, fi, f'{fi.qualname}: a failure of `{unparse(c.func)}(...)` stops the pipeline before it is raised',
                 f'`{unparse(c)[:60]}` can raise, and {why}: the error reaches the caller but'
                 ' self.maybe_stop() is not called on that way out — the producer threads of this'
                 ' (and of the upstream) stages stay blocked in put() and the sinks stay open',
                 node=nd.ast)
      else:
        ctx.ok(rule, fi, f'{fi.qualname}: failure of {unparse(c.func)}(...) passes maybe_stop()', nd.ast)
  ms = repo.func(IU, 'MultiplexIterator.maybe_stop')
  nx = repo.func(IU, 'MultiplexIterator.__next__')
  drawn = {unparse(x.args[0]) for x in ast.walk(nx.node) if isinstance(x, ast.Call) and unparse(x.func) == 'next' and x.args}
  closes = {unparse(x.func.value) for x in ast.walk(ms.node) if isinstance(x, ast.Call) and isinstance(
      x.func, ast.Attribute) and x.func.attr == 'close'}
  n += 1
  if drawn and drawn <= closes:
    ctx.ok(rule, ms, f'maybe_stop closes an in-process {sorted(drawn)[0]}', ms.node)
  else:
    ctx.fail(rule, ms, 'MultiplexIterator.maybe_stop closes an in-process (not Stoppable) iterator',
             f'maybe_stop never calls close() on {sorted(drawn) or "the iterator"}: with num_threads=0 the'
             ' stage generator stays suspended after a failure outside it and its sink is never closed',
             node=ms.node)
  ctx.floor(rule, 4, n)


def r16(ctx: Ctx):
  rule = 'R-C12-16'
  ctx.rule(rule, '"still aligned with its own inputs": on the paired path there is exactly ONE'
           ' skipping layer. processed_with_inputs re-pairs outputs with the inputs it'
           ' recorded and relies on the process function answering one output (or one'
           ' failure) per input; the skipping — with a marker that keeps the positions — is'
           ' its own. So the function handed to processed_with_inputs never skips errors'
           ' itself: it is the bare `self._iterate` (ignore_error defaults to False), not a'
           ' partial/lambda that passes ignore_error on. A process function that silently'
           ' drops the failing element shifts every later decision to the previous record')
  repo = ctx.repo
  n = 0
  # the default of TreeFn._iterate's flag must be off for the bare method to be non-skipping
  it_fn = repo.func(TF, 'TreeFn._iterate')
  a = it_fn.node.args
  pos = a.posonlyargs + a.args
  dmap = dict(zip([p_.arg for p_ in pos][len(pos) - len(a.defaults):], a.defaults))
  dmap.update({k.arg: d for k, d in zip(a.kwonlyargs, a.kw_defaults) if d is not None})
  flag = next((p_ for p_ in it_fn.params() if 'ignore' in p_), None)
  default_off = flag is not None and isinstance(dmap.get(flag), ast.Constant) and dmap[flag].value is False
  for fi in repo.all_functions():
    if fi.module.name.endswith('_test'):
      continue
    for c in walk_no_nested(fi.node):
      if not (isinstance(c, ast.Call) and unparse(c.func).split('.')[-1] == 'processed_with_inputs' and c.args):
        continue
      n += 1
      f = c.args[0]
      if isinstance(f, ast.Name):
        defs = [x.value for x in walk_no_nested(fi.node) if isinstance(x, ast.Assign) and any(
            isinstance(t, ast.Name) and t.id == f.id for t in x.targets)]
        if len(defs) == 1:
          f = defs[0]
      skips = None
      if isinstance(f, ast.Attribute) and f.attr == '_iterate':
        skips = not default_off
      elif isinstance(f, (ast.Call, ast.Lambda)):
        kws = [k for y in ast.walk(f) if isinstance(y, ast.Call) for k in y.keywords if k.arg and 'ignore' in k.arg]
        skips = any(not (isinstance(k.value, ast.Constant) and k.value.value is False) for k in kws)
        if not kws and not any(isinstance(y, ast.Attribute) and y.attr == '_iterate' for y in ast.walk(f)):
          skips = None
      if skips is None:
        raise AnalysisError(f'{rule}: cannot tell what `{unparse(c.args[0])[:40]}` in {fi.qualname} does with errors')
      if skips:
        ctx.fail(rule, fi, f'{fi.qualname}: the process function given to processed_with_inputs does not skip errors itself',
                 f'`{unparse(f)[:70]}` passes error skipping into the process function of processed_with_inputs:'
                 ' the failing element then yields NO output (instead of a failure that becomes a skip marker),'
                 ' the outputs are zipped with the recorded inputs one position off from there on — records'
                 ' are kept or dropped by their neighbour\'s predicate and the last one is lost', node=c)
      else:
        ctx.ok(rule, fi, f'{fi.qualname}: bare process function, one skipping layer', c)
  ctx.floor(rule, 3, n)


def r17(ctx: Ctx):
  rule = 'R-C12-17'
  ctx.rule(rule, '"elements after a failing one are never silently lost" with threads: the wrapper the'
           ' worker threads share over one source (_ThreadSafeIterator) passes a failure of the source'
           ' through without changing its own state — in __next__ no attribute of the wrapper is'
           ' stored on a path that leads into the draw `next(self.<it>)` and is only restored after'
           ' the draw returned: when the draw raises a skippable error the store would stick (e.g. an'
           ' "ended" flag set before and cleared after), and every later read ends the stream although'
           ' the source has more records')
  ci = ctx.repo.cls(IU, '_ThreadSafeIterator')
  fi = ci.methods.get('__next__')
  if fi is None:
    raise AnalysisError(f'{rule}: _ThreadSafeIterator.__next__ missing')
  g = cfgm.cfg_of(fi.node)
  draws = [nd for nd in g.nodes if nd.kind in ('stmt', 'cond') and any(
      isinstance(c, ast.Call) and unparse(c.func) == 'next' and c.args and is_self_attr(c.args[0])
      for c in cfgm.node_exprs(nd))]
  if not draws:
    raise AnalysisError(f'{rule}: _ThreadSafeIterator.__next__ no longer draws with next(self.<it>)')
  def store_of(nd):
    if isinstance(nd.ast, (ast.Assign, ast.AugAssign)):
      for t in (nd.ast.targets if isinstance(nd.ast, ast.Assign) else [nd.ast.target]):
        if is_self_attr(t):
          return t.attr
    return None
  n = 0
  for d in draws:
    n += 1
    before = {store_of(nd) for nd in g.nodes if store_of(nd) and d in g.reachable([nd], edge_ok=cfgm.only_normal)}
    after = {store_of(nd) for nd in g.reachable([s_ for s_, lab in d.succ if lab not in ('exc', 'close')],
                                                edge_ok=cfgm.only_normal, include_src=True) if store_of(nd)}
    # on the exceptional way out of the draw: is a pre-draw store undone in a handler?
    toggled = sorted(before & after)
    undone = set()
    for h, lab in d.succ:
      if lab == 'exc' and h is not g.exit_exc:
        undone |= {store_of(nd) for nd in g.reachable([h], edge_ok=lambda a, b, l: l != 'close', include_src=True) if store_of(nd)}
    bad = [f for f in toggled if f not in undone]
    if bad:
      ctx.fail(rule, fi, '_ThreadSafeIterator.__next__: a failing draw leaves the wrapper unchanged',
               f'self.{bad[0]} is stored before `{d.text()[:40]}` and restored only after it returned: when the shared'
               ' source raises for one record (a skippable error), the store sticks — with a flag that short-cuts'
               ' to StopIteration every thread sees the end of the stream and all records behind the failing one are'
               ' silently lost', node=d.ast)
    else:
      ctx.ok(rule, fi, 'the draw is not bracketed by stores to the wrapper', d.ast)
  ctx.floor(rule, 1, n)


def r5(ctx: Ctx):
  rule = 'R-C12-5'
  ctx.rule(rule, 'causes: every `raise X(...)` lexically inside an `except ...'
           ' as e` handler in the operator path chains the original exception'
           ' (`from e`), explicit `from None` exempted')
  repo = ctx.repo
  n = 0
  for mod in (TF, TR, 'chainables.tree', IU):
    mi = repo.module(mod)
    for fi in list(mi.functions.values()) + [m for c in mi.classes.values() for m in c.methods.values()]:
      for h in walk_no_nested(fi.node):
        if not isinstance(h, ast.ExceptHandler) or not h.name:
          continue
        for r in ast.walk(h):
          if isinstance(r, ast.Raise) and isinstance(r.exc, ast.Call):
            n += 1
            if r.cause is None:
              ctx.fail(rule, fi, r, f'`{unparse(r)[:60]}` replaces the caught'
                       f' exception `{h.name}` without `from {h.name}`: the'
                       ' caller loses the original error as cause')
            elif isinstance(r.cause, ast.Name) and r.cause.id == h.name:
              ctx.ok(rule, fi, f'{unparse(r.exc.func)}(...) from {h.name}', r)
            elif isinstance(r.cause, ast.Constant) and r.cause.value is None:
              ctx.info(rule, fi, f'{unparse(r.exc.func)}(...) from None (explicit)')
            else:
              ctx.fail(rule, fi, r, f'raise chains `{unparse(r.cause)}` instead of'
                       f' the caught exception `{h.name}`')
  mc = repo.func(TF, 'TreeFn._maybe_call_fn')
  if any(isinstance(h, ast.ExceptHandler) and h.name for h in walk_no_nested(mc.node)):
    ctx.ok(rule, mc, '_maybe_call_fn wraps function errors with their cause', mc.node)
  else:
    ctx.fail(rule, mc, '_maybe_call_fn: except Exception as e: raise ValueError(...) from e',
             'operator call errors are no longer wrapped with their cause', node=mc.node)
  ctx.floor(rule, 8, n)


def r6(ctx: Ctx):
  rule = 'R-C12-6'
  ctx.rule(rule, 'sinks are closed on every exit (R-C08-3)')
  sub = Ctx(ctx.pid, ctx.repo, ctx.tier)
  c08.r3(sub)
  for f in sub.findings:
    fi = ctx.repo.func(f.module, f.qualname)
    ctx.fail(rule, fi, f.construct, f.message, node=fi.node, witness=f.witness)
  for i in sub.instances:
    if i.verdict == 'holds':
      ctx.instances.append(type(i)(rule, i.where, i.what, 'holds', True, i.detail))
  ctx.floor(rule, 2)


def r19(ctx: Ctx):
  rule = 'R-C12-19'
  ctx.rule(rule, '"for all ... counts of failing elements": stepping over skipped records is a LOOP — no `__next__` of the'
           ' iterator classes of the data sources, queues and runners calls itself (`next(self)`, `self.__next__()`). A'
           ' recursive step costs one Python frame per consecutive skipped record: a run of unreadable records as long as'
           ' the recursion limit (1000) raises RecursionError — an error that surfaces although skipping is on, and the'
           ' readable records behind the run are never delivered')
  repo = ctx.repo
  n = 0
  for mod in ('chainables.io', 'utils.iter_utils', 'chainables.transform', 'chainables.tree_fns'):
    mi = repo.module(mod)
    for ci in mi.classes.values():
      for name in ('__next__', '__anext__'):
        fi = ci.methods.get(name)
        if fi is None:
          continue
        n += 1
        rec = [c for c in walk_no_nested(fi.node) if isinstance(c, ast.Call) and (
            (unparse(c.func) in ('next', 'anext') and c.args and unparse(c.args[0]) == 'self')
            or unparse(c.func) in (f'self.{name}', 'self.__next__', 'self.__anext__'))]
        what = f'{ci.name}.{name}: steps without recursion'
        if rec:
          ctx.fail(rule, fi, what,
                   f'{ci.name}.{name} calls itself (`{unparse(rec[0])}`): every consecutive element it steps over (a skipped'
                   ' or failing record) adds a frame, a run of ~1000 of them ends in RecursionError instead of being skipped',
                   node=rec[0])
        else:
          ctx.ok(rule, fi, what, fi.node)
  ctx.floor(rule, 8, n)


def _eval3(t, env):
  """Three-valued evaluation of a test under known boolean flags: True / False / None (unknown)."""
  if isinstance(t, ast.Constant):
    return bool(t.value)
  if isinstance(t, ast.Name):
    return env.get(t.id)
  if isinstance(t, ast.UnaryOp) and isinstance(t.op, ast.Not):
    v = _eval3(t.operand, env)
    return None if v is None else not v
  if isinstance(t, ast.BoolOp):
    vals = [_eval3(v, env) for v in t.values]
    if isinstance(t.op, ast.And):
      return False if False in vals else (True if all(v is True for v in vals) else None)
    return True if True in vals else (False if all(v is False for v in vals) else None)
  return None


def r20(ctx: Ctx):
  rule = 'R-C12-20'
  ctx.rule(rule, '"error skipping drops only failing elements": the ignore-and-continue branch of a producer loop is for failures'
           ' of the ITERATOR. An exception raised while an already fetched element is handed over (put / async_put: a'
           ' TimeoutError when the consumer is slower than the configured timeout) never reaches a `continue`: from the'
           ' exceptional exits of the hand-over call no path (followed with the boolean flags the function sets — e.g.'
           ' `fetched = True` after next()) leads to a `continue` statement. The element would be dropped silently and the'
           ' stream would still end cleanly')
  repo = ctx.repo
  n = 0
  for qn in ('IteratorQueue.enqueue_from_iterator', 'AsyncIteratorQueue.async_enqueue_from_iterator'):
    fi = repo.func('utils.iter_utils', qn)
    g = cfgm.cfg_of(fi.node)

    def const_assign(nd):
      a = nd.ast
      if nd.kind == 'stmt' and isinstance(a, ast.Assign) and len(a.targets) == 1 and isinstance(a.targets[0], ast.Name) and isinstance(
          a.value, ast.Constant) and isinstance(a.value.value, bool):
        return a.targets[0].id, a.value.value
      return None

    def gen(nd, lab):
      ca = const_assign(nd)
      return [ca] if ca else []

    def kill(nd, fact):
      a = nd.ast
      tg = []
      if isinstance(a, ast.Assign):
        tg = a.targets
      elif isinstance(a, (ast.AugAssign, ast.AnnAssign)):
        tg = [a.target]
      return any(isinstance(y, ast.Name) and y.id == fact[0] for t in tg for y in ast.walk(t))

    facts = cfgm.must_facts(g, gen, kill)
    puts = [nd for nd in g.nodes if nd.kind in ('stmt', 'cond') and any(
        isinstance(c, ast.Call) and unparse(c.func) in ('self.put', 'self.async_put', 'self._put_nowait', 'self.put_nowait')
        for x in cfgm.node_exprs(nd) for c in ast.walk(x))]
    if not puts:
      raise AnalysisError(f'{rule}: {qn} no longer hands elements over with self.put / self.async_put')
    for nd in puts:
      n += 1
      env0 = dict(facts.get(nd, ()))
      seen = set()
      work = [(h, tuple(sorted(env0.items()))) for h, lab in nd.succ if lab == 'exc']
      hit = None
      while work and hit is None:
        cur, envt = work.pop()
        if (cur, envt) in seen:
          continue
        seen.add((cur, envt))
        env = dict(envt)
        if isinstance(cur.ast, ast.Continue) and cur.kind == 'stmt':
          hit = cur
          break
        ca = const_assign(cur)
        if ca:
          env[ca[0]] = ca[1]
        elif cur.ast is not None and kill_any(cur, env):
          env = {k: v for k, v in env.items() if not kill(cur, (k, v))}
        v = _eval3(cur.ast, env) if cur.kind == 'cond' else None
        for s_, lab in cur.succ:
          if lab in ('close',):
            continue
          if cur.kind == 'cond' and v is not None and lab in ('true', 'false') and lab != ('true' if v else 'false'):
            continue
          if s_ in (g.exit_ret, g.exit_exc):
            continue
          if lab == 'cont':
            hit = cur
            break
          work.append((s_, tuple(sorted(env.items()))))
      what = f'{qn}: a failed hand-over of a fetched element is never skipped'
      if hit is None:
        ctx.ok(rule, fi, what, nd.ast)
      else:
        ctx.fail(rule, fi, what,
                 f'an exception of `{nd.text()[:50]}` can reach `continue` (line {hit.lineno}) in {qn}: with error skipping on, a'
                 ' put() that timed out (consumer slower than the timeout) is "ignored" like a failing record — the element'
                 ' it was holding is dropped, the loop goes on and the stream ends cleanly with elements missing', node=hit.ast or nd.ast)
  ctx.floor(rule, 2, n)


def kill_any(nd, env) -> bool:
  a = nd.ast
  tg = a.targets if isinstance(a, ast.Assign) else [a.target] if isinstance(a, (ast.AugAssign, ast.AnnAssign)) else []
  return any(isinstance(y, ast.Name) and y.id in env for t in tg for y in ast.walk(t))


def r21(ctx: Ctx):
  rule = 'R-C12-21'
  ctx.rule(rule, '"error skipping drops only failing elements": the skipping layers catch the SKIPPABLE types only (ValueError,'
           ' TypeError) and rely on the operator wrapping whatever its function raised into one of them. In'
           ' TreeFn._maybe_call_fn every way out of the broad handler is `raise <ValueError|TypeError>(...) from e` — no bare'
           ' `raise` / `raise e`, with or without a flag: a function that fails with StopIteration would otherwise END the'
           ' `map` it runs under (every later element is lost, silently), one that fails with KeyError / ZeroDivisionError'
           ' is not skipped at all')
  fi = ctx.repo.func(TF, 'TreeFn._maybe_call_fn')
  n = 0
  for h in ast.walk(fi.node):
    if not (isinstance(h, ast.ExceptHandler) and (h.type is None or unparse(h.type) in ('Exception', 'BaseException'))):
      continue
    for r_ in ast.walk(h):
      if not isinstance(r_, ast.Raise):
        continue
      n += 1
      exc = r_.exc
      if isinstance(exc, ast.Name):
        # `error = ValueError(...); raise error from e`
        defs = [x.value for x in ast.walk(h) if isinstance(x, ast.Assign) and any(isinstance(t, ast.Name) and t.id == exc.id for t in x.targets)]
        if len(defs) == 1:
          exc = defs[0]
      wraps = (isinstance(exc, ast.Call) and unparse(exc.func) in ('ValueError', 'TypeError') and r_.cause is not None)
      what = 'TreeFn._maybe_call_fn: a failure of the function leaves as a skippable error chained to its cause'
      if wraps:
        ctx.ok(rule, fi, what, r_)
      else:
        ctx.fail(rule, fi, what,
                 f'`{unparse(r_)}` lets the function\'s own exception type through: the skipping layers only catch ValueError /'
                 ' TypeError — a StopIteration from the function ends the stream silently, any other type aborts it although'
                 ' skipping is on', node=r_)
  ctx.floor(rule, 1, n)


def r22(ctx: Ctx):
  rule = 'R-C12-22'
  ctx.rule(rule, '"keeps every remaining element ... aligned with its own inputs": the pass-through operators (filter, sink) hand'
           ' on their INPUT elements, so they need each input next to the outcome of processing it — they get both from'
           ' the shared helper `processed_with_inputs`, which draws the input itself and turns an unreadable record into a'
           ' skip marker. The `iterate` method of an operator never loops over its `input_iterator` parameter directly: an'
           ' error of the upstream would be raised inside the operator\'s own generator and terminate it — the next'
           ' operator skips that error and then meets a finished stream: everything behind the failing record is lost')
  mi = ctx.repo.module(TF)
  n = 0
  for ci in mi.classes.values():
    fi = ci.methods.get('iterate')
    if fi is None:
      continue
    ps = fi.params()[1:]
    if not ps:
      continue
    src = ps[0]
    n += 1
    bad = None
    for x in ast.walk(fi.node):
      it = x.iter if isinstance(x, (ast.For, ast.AsyncFor, ast.comprehension)) else x.value if isinstance(x, ast.YieldFrom) else None
      if it is None:
        continue
      while isinstance(it, ast.Call) and unparse(it.func) in ('iter', 'enumerate') and it.args:
        it = it.args[0]
      if isinstance(it, ast.Name) and it.id == src:
        bad = x
    what = f'{ci.name}.iterate: the input is drawn by processed_with_inputs, not by a loop of the operator'
    if bad is not None:
      ctx.fail(rule, fi, what,
               f'{ci.name}.iterate iterates `{src}` itself (`{unparse(bad)[:60]}`): a skippable error of the upstream surfaces inside this'
               ' generator and finishes it; downstream skipping swallows the error and the rest of the stream is neither'
               ' processed nor delivered', node=bad)
    else:
      ctx.ok(rule, fi, what, fi.node)
  ctx.floor(rule, 2, n)


def r23(ctx: Ctx):
  rule = 'R-C12-23'
  ctx.rule(rule, '"error skipping drops only failing elements": a PER-ELEMENT flag is reset for every element. In the loops of'
           ' iter_utils.py a name that the loop body sets to True and tests (e.g. `fetched`: "the iterator produced this'
           ' element, so a failure now is a failed put") is also set to False INSIDE the loop — initialising it once before'
           ' the loop makes the first good element\'s True stick: every later iterator failure is taken for a failed put,'
           ' which is never skipped, and the stream ends with an error at the first bad element after a good one')
  mi = ctx.repo.module('utils.iter_utils')
  fns = list(mi.functions.values()) + [m_ for c in mi.classes.values() for m_ in c.methods.values()]
  n = 0
  for fi in fns:
    for lp in ast.walk(fi.node):
      if not isinstance(lp, (ast.While, ast.For)):
        continue
      def consts(val):
        return {t.id for x in ast.walk(lp) if isinstance(x, ast.Assign) and isinstance(x.value, ast.Constant) and x.value.value is val
                for t in x.targets if isinstance(t, ast.Name)}
      # a per-element flag: set to True in the BODY of a try inside the loop and tested in a HANDLER of that same try
      flags = set()
      for t in ast.walk(lp):
        if not isinstance(t, ast.Try):
          continue
        set_in_body = {tg.id for b_ in t.body for x in ast.walk(b_) if isinstance(x, ast.Assign) and isinstance(x.value, ast.Constant)
                       and x.value.value is True for tg in x.targets if isinstance(tg, ast.Name)}
        tested_in_handler = {y.id for h in t.handlers for x in ast.walk(h) if isinstance(x, (ast.If, ast.IfExp))
                             for y in ast.walk(x.test) if isinstance(y, ast.Name)}
        flags |= set_in_body & tested_in_handler
      if not flags:
        continue
      outer_false = {t.id for x in walk_no_nested(fi.node) if isinstance(x, ast.Assign) and isinstance(x.value, ast.Constant)
                     and x.value.value is False for t in x.targets if isinstance(t, ast.Name)}
      for f in sorted(flags):
        if f not in outer_false:
          continue          # never reset anywhere: a latch by design (e.g. `exhausted`)
        n += 1
        what = f'{fi.qualname}: the per-element flag `{f}` is reset inside its loop'
        if f in consts(False):
          ctx.ok(rule, fi, what, lp)
        else:
          ctx.fail(rule, fi, what,
                   f'`{f}` is set to True and tested inside the loop at line {lp.lineno}, but reset to False only outside it: after the'
                   ' first element it stays True for the rest of the stream', node=lp)
  ctx.floor(rule, 1, n)


def r24(ctx: Ctx):
  rule = 'R-C12-24'
  ctx.rule(rule, '"the first error surfaces with its cause chained": an operator\'s error handler that ends in `raise ... from e`'
           ' does not RE-RUN what just failed. Between `except Exception as e:` and the re-raise no method of self that the'
           ' guarded `try` body calls is called again (`self._get_inputs(...)` to "describe the inputs"): when the original'
           ' failure came from that very call, the handler fails too, the intended error is never raised and the original'
           ' exception is only an implicit context, not the cause')
  mi = ctx.repo.module(TF)
  n = 0
  for ci in mi.classes.values():
    for name, fi in ci.methods.items():
      for t in ast.walk(fi.node):
        if not isinstance(t, ast.Try):
          continue
        tried = {c.func.attr for b in t.body for c in ast.walk(b) if isinstance(c, ast.Call) and is_self_attr(c.func)}
        # calls made on the way INTO the try (arguments prepared just before it) belong to the guarded operation too
        for h in t.handlers:
          if not (h.name and any(isinstance(r_, ast.Raise) and r_.cause is not None for r_ in ast.walk(h))):
            continue
          n += 1
          again = [c for b in h.body for c in ast.walk(b) if isinstance(c, ast.Call) and is_self_attr(c.func) and c.func.attr in tried]
          what = f'{ci.name}.{name}: the error handler does not re-run the guarded calls'
          if again:
            ctx.fail(rule, fi, what,
                     f'`{unparse(again[0])[:60]}` in the handler repeats a call of the guarded block: if that call is what failed, the'
                     ' handler raises a second, unrelated-looking error before it reaches `raise ... from e`', node=again[0])
          else:
            ctx.ok(rule, fi, what, h)
  ctx.floor(rule, 2, n)


from mlmverif.selfcheck import B, OK  # noqa: E402

_F = 'chainables/tree_fns.py'
_U = 'utils/iter_utils.py'
VARIANTS = [
    OK('skip-wrapper-yields-through-a-local', 'utils/iter_utils.py',
       "      yield next(it)\n", "      value = next(it)\n      yield value\n"),
    OK('fetched-flag-reset-at-both-ends', 'utils/iter_utils.py',
       "    while not self.enqueue_done:\n      fetched = False\n      try:", "    fetched = False\n    while not self.enqueue_done:\n      fetched = False\n      try:"),
    B('fetched-flag-initialised-once', 'utils/iter_utils.py',
      "    while not self.enqueue_done:\n      fetched = False\n      try:", "    fetched = False\n    while not self.enqueue_done:\n      try:", 'R-C12-23'),
    OK('call-wrapper-names-its-error-first', 'chainables/tree_fns.py',
       "      raise ValueError(f'Failed to call {self.fn} with inputs {shape=}') from e", "      error = ValueError(f'Failed to call {self.fn} with inputs {shape=}')\n      raise error from e"),
    OK('sink-forwards-through-a-named-generator', 'chainables/tree_fns.py',
       "      yield from (elem for _, elem in it_)\n    finally:\n      self._actual_fn.close()", "      forwarded = (elem for _, elem in it_)\n      yield from forwarded\n    finally:\n      self._actual_fn.close()"),
    B('call-wrapper-reraises-raw-when-skipping', 'chainables/tree_fns.py',
      "    except Exception as e:\n      keys = [tree.Key().at(i) for i in range(len(fn_inputs))]", "    except Exception as e:\n      if self.ignore_error:\n        raise\n      keys = [tree.Key().at(i) for i in range(len(fn_inputs))]", 'R-C12-21'),
    B('sink-loops-over-its-input', 'chainables/tree_fns.py',
      "      it_ = iter_utils.processed_with_inputs(\n          self._iterate, iter(input_iterator), ignore_error=self.ignore_error\n      )\n      yield from (elem for _, elem in it_)\n    finally:\n      self._actual_fn.close()",
      "      for elem in input_iterator:\n        try:\n          self._maybe_call_fn(self._get_inputs(elem))\n        except (ValueError, TypeError):\n          if not self.ignore_error:\n            raise\n          continue\n        yield elem\n    finally:\n      self._actual_fn.close()", 'R-C12-22'),
    B('revert-put-inside-the-skipping-try', 'utils/iter_utils.py',
      "      fetched = False\n      try:\n        value = next(iterator)\n        fetched = True\n        self.put(value)",
      "      try:\n        self.put(next(iterator))", 'R-C12-20',
      extra=(('utils/iter_utils.py', "        if self.ignore_error and not fetched:", "        if self.ignore_error:"),)),
    B('skip-flag-set-after-the-put', 'utils/iter_utils.py',
      "        value = next(iterator)\n        fetched = True\n        self.put(value)", "        value = next(iterator)\n        self.put(value)\n        fetched = True", 'R-C12-20'),
    OK('put-outside-the-skipping-try', 'utils/iter_utils.py',
       "        value = next(iterator)\n        fetched = True\n        self.put(value)\n      except StopIteration as e:",
       "        value = next(iterator)\n        fetched = True\n        self.put(value)\n        fetched = True\n      except StopIteration as e:"),
    B('sequence-iterator-recurses-over-skipped', 'chainables/io.py',
      '      while (result := next(self._it)) is _SKIPPED:\n        self._index += 1\n',
      '      result = next(self._it)\n      if result is _SKIPPED:\n        self._index += 1\n        return next(self)\n', 'R-C12-19'),
    B('shared-iterator-remembers-end-after-any-error', 'utils/iter_utils.py',
      '      try:\n        return next(self._iterator)\n      except StopIteration:\n        # Only one of the threads sharing the iterator relays its return\n        # values, a queue raises them again at every call.\n        self._exhausted = True\n        raise',
      '      self._exhausted = True\n      value = next(self._iterator)\n      self._exhausted = False\n      return value', 'R-C12-17'),
    OK('shared-iterator-remembers-end-on-stop-only', 'utils/iter_utils.py',
       '      except StopIteration:\n        # Only one of the threads sharing the iterator relays its return\n        # values, a queue raises them again at every call.\n        self._exhausted = True\n        raise',
       '      except StopIteration as end:\n        self._exhausted = True\n        raise end'),
    B('filter-predicate-skips-twice', 'chainables/tree_fns.py',
      '    it_ = iter_utils.processed_with_inputs(\n        self._iterate, iter(input_iterator), ignore_error=self.ignore_error\n    )\n    return (elem for (value,), elem in it_ if value)',
      '    predicate = functools.partial(self._iterate, ignore_error=self.ignore_error)\n    it_ = iter_utils.processed_with_inputs(\n        predicate, iter(input_iterator), ignore_error=self.ignore_error\n    )\n    return (elem for (value,), elem in it_ if value)',
      'R-C12-16'),
    OK('filter-process-fn-through-local', 'chainables/tree_fns.py',
       '    it_ = iter_utils.processed_with_inputs(\n        self._iterate, iter(input_iterator), ignore_error=self.ignore_error\n    )\n    return (elem for (value,), elem in it_ if value)',
       '    process = self._iterate\n    it_ = iter_utils.processed_with_inputs(\n        process, iter(input_iterator), ignore_error=self.ignore_error\n    )\n    return (elem for (value,), elem in it_ if value)'),
    B('revert-aggregate-failure-stops-pipeline', 'chainables/transform.py',
      '        except Exception:\n          # The iteration cannot go on: ends the worker threads and closes the\n          # stages (e.g., a sink) as when drawing the next batch fails.\n          self.maybe_stop()\n          raise',
      '        except Exception:\n          raise', 'R-C12-15'),
    B('revert-chain-failure-stops-upstream', 'chainables/transform.py',
      '    except Exception:\n      # A failing stage only stops itself, the upstream stages have to be\n      # stopped as well.\n      self.maybe_stop()\n      raise',
      '    except Exception:\n      raise', 'R-C12-15'),
    B('revert-maybe-stop-closes-generator', 'utils/iter_utils.py',
      '    elif hasattr(self._iterator, \'close\'):\n      # An in-process generator is suspended, close it to run its clean-ups.\n      self._iterator.close()\n',
      '', 'R-C12-15'),
    B('multiplex-next-error-without-stop', 'utils/iter_utils.py',
      "      logging.exception('chainable: %s', f'error iterating \"{self.name}\".')\n      self.maybe_stop()\n      raise",
      "      logging.exception('chainable: %s', f'error iterating \"{self.name}\".')\n      raise", 'R-C12-15'),
    OK('aggregate-failure-stop-in-finally-flag', 'chainables/transform.py',
       '        except Exception:\n          # The iteration cannot go on: ends the worker threads and closes the\n          # stages (e.g., a sink) as when drawing the next batch fails.\n          self.maybe_stop()\n          raise',
       '        except Exception as agg_error:\n          self.maybe_stop()\n          raise agg_error'),
    B('identity-fn-bypasses-skipping-map', 'chainables/tree_fns.py',
      '    map_ = iter_utils.map_ignore_error if ignore_error else map\n    fn_outputs = map_(self._maybe_call_fn, fn_inputs)',
      '    if self.fn is _identity_fn:\n      fn_outputs = fn_inputs\n    else:\n      map_ = iter_utils.map_ignore_error if ignore_error else map\n      fn_outputs = map_(self._maybe_call_fn, fn_inputs)',
      'R-C12-14'),
    B('skipping-map-polarity-inverted', 'chainables/tree_fns.py',
      '    map_ = iter_utils.map_ignore_error if ignore_error else map',
      '    map_ = map if ignore_error else iter_utils.map_ignore_error', 'R-C12-14'),
    OK('skipping-map-selected-by-if', 'chainables/tree_fns.py',
       '    map_ = iter_utils.map_ignore_error if ignore_error else map\n    fn_outputs = map_(self._maybe_call_fn, fn_inputs)',
       '    if ignore_error:\n      fn_outputs = iter_utils.map_ignore_error(self._maybe_call_fn, fn_inputs)\n    else:\n      fn_outputs = map(self._maybe_call_fn, fn_inputs)'),
    B('revert-read-batch-before-caching', 'utils/iter_utils.py',
      '          batch = list(self.data[self.i : self.i + batch_size])\n          self._cache.extend(batch)',
      '          self._cache.extend(self.data[self.i : self.i + batch_size])', 'R-C12-13'),
    B('cache-extended-from-iterator', 'utils/iter_utils.py',
      '          batch = list(self.data[self.i : self.i + batch_size])\n          self._cache.extend(batch)',
      '          batch = iter(self.data[self.i : self.i + batch_size])\n          self._cache.extend(batch)', 'R-C12-13'),
    OK('read-batch-as-tuple-inline', 'utils/iter_utils.py',
       '          batch = list(self.data[self.i : self.i + batch_size])\n          self._cache.extend(batch)',
       '          self._cache.extend(tuple(self.data[self.i : self.i + batch_size]))'),
    B('revert-close-stage-iterators', 'chainables/transform.py',
      '      try:\n        yield from result\n      finally:\n        # Closes the upstream generators (e.g., a sink) when one of the\n        # functions fails or the iteration is abandoned.\n        for iterator in iterators:\n          if hasattr(iterator, \'close\'):\n            iterator.close()',
      '      yield from result', 'R-C12-12'),
    B('revert-tee-placeholder-on-failing-read', 'utils/iter_utils.py',
      '    except Exception:\n      # Keeps the recital aligned with the outputs when an input fails: the\n      # failure takes up a slot (e.g., a skipped one) in the output iterator.\n      self._buffer.append(None)\n      raise\n',
      '', 'R-C12-11'),
    B('tee-returns-unbuffered-value', 'utils/iter_utils.py',
      '    self._buffer.append(value)\n    return value', '    return value', 'R-C12-11'),
    B('queue-reraises-stored-error-from-none', 'utils/iter_utils.py',
      '          raise self.exception or StopIteration(*self.returned)\n        if self.enqueue_done:',
      '          raise (self.exception or StopIteration(*self.returned)) from None\n        if self.enqueue_done:',
      'R-C12-9'),
    B('restored-source-loses-ignore-error', 'chainables/io.py',
      '      result = SequenceDataSource(self.data, ignore_error=self.ignore_error)',
      '      result = self.__class__(self.data)', 'R-C12-10'),
    B('revert-filter-flag', _F,
      '    it_ = iter_utils.processed_with_inputs(\n        self._iterate, iter(input_iterator), ignore_error=self.ignore_error\n    )\n    return (elem for (value,), elem in it_ if value)',
      '    it_ = iter_utils.processed_with_inputs(self._iterate, iter(input_iterator))\n    return (elem for (value,), elem in it_ if value)',
      'R-C12-1'),
    B('assign-drops-flag', _F,
      '            self._iterate, iter(input_iterator), ignore_error=self.ignore_error\n        ),\n    )',
      '            self._iterate, iter(input_iterator)\n        ),\n    )', 'R-C12-1'),
    B('runner-drops-flag', 'chainables/transform.py',
      '        fn = dataclasses.replace(fn, ignore_error=self._ignore_error)\n', '', 'R-C12-1'),
    B('map-ignore-wraps-generator', _U, '  return iter_ignore_error(map(fn, it))',
      '  return iter_ignore_error(fn(x) for x in it)', 'R-C12-2'),
    B('skip-without-marker', _U,
      '      if error_return is not None:\n        yield error_return\n      continue',
      '      continue', 'R-C12-3'),
    B('different-sentinel', _U, '        if output is not _SKIP\n', '        if output is not None\n',
      'R-C12-3'),
    B('range-no-advance', _U, '        if self._batch_size == 1:\n          self.i += self._batch_size\n          raise',
      '        if self._batch_size == 1:\n          raise', 'R-C12-4'),
    B('cause-dropped', _F, "      raise ValueError(f'Failed to call {self.fn} with inputs {shape=}') from e",
      "      raise ValueError(f'Failed to call {self.fn} with inputs {shape=}')", 'R-C12-5'),
    OK('forward-via-positional-name', _F,
       '      it_ = iter_utils.processed_with_inputs(\n          self._iterate, iter(input_iterator), ignore_error=self.ignore_error\n      )',
       '      it_ = iter_utils.processed_with_inputs(\n          self._iterate, iter(input_iterator), max_buffer_size=0, ignore_error=self.ignore_error\n      )'),
]
