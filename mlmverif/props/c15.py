"""C15 — the prefetching generator protocol delivers the generator faithfully.

Structural part: generator/thread fields only change under the generator
lock, a new generator is started only after the previous one is stopped,
stopping unblocks before joining, the terminal marker is appended only when
exhausted (exception first), and the protocol is wired and bound.
"""
from __future__ import annotations

import ast

from mlmverif import cfg as cfgm
from mlmverif.core import (parent_map, AnalysisError, Ctx, FuncInfo, is_self_attr, kwarg,
                           unparse, walk_no_nested)
from mlmverif.locks import LockEngine, ls_has

EXPLANATION = (
    'Lockset + CFG dominance analysis of PrefetchedCourierServer and the'
    ' client loop. Decides: every store to _generator/_enqueue_thread outside'
    ' __init__ holds _generator_lock; in _init_iterator the stop of the'
    ' previous prefetch dominates the creation of the new queue and thread,'
    ' the thread runs enqueue_from_iterator of the NEW queue over the new'
    ' generator and is started; in _stop_prefetch maybe_stop(e) dominates'
    ' join() (joining first deadlocks on a full buffer) and both happen only'
    ' for a non-exhausted generator; in _next_batch the batch is a blocking'
    ' get_batch, the marker is appended only when the queue is exhausted, is'
    ' the recorded exception when there is one else StopIteration(*returned),'
    ' and an uninitialised generator answers [TimeoutError]; the shutdown'
    ' callback is _stop_prefetch and runs before Stop(); the three generator'
    ' RPCs are bound. Lock order incl. the queue locks is part of R-C04-4.'
    ' NOT decided: element sequence equality under interleavings.'
)
ASSUMPTIONS = ['IteratorQueue behaves as decided under C04/C05.']

CS = 'chainables.courier_server'
CLSN = 'PrefetchedCourierServer'


def run(ctx: Ctx):
  for r in (r1, r2, r3, r4, r5, r8, r12, r13, r14, r15, r16, r18, r19, r20):
    ctx.guard(r)
  from mlmverif.props._queue import model as qmodel
  from mlmverif.props import c05
  ctx.include('R-C15-17', '"initialising a new generator or shutting down stops the previous one": the prefetch thread re-reads the'
              ' stop request between two elements — every cycle of the enqueue loop through put() passes a test of'
              ' enqueue_done (R-C05-3). A loop that only relies on put() dropping the values keeps ADVANCING the stopped'
              ' generator to its end, and the stop routine, which joins that thread, returns only then (never for an'
              ' endless generator)', c05.r3, qmodel(ctx), min_instances=2)
  ctx.include('R-C15-6', '"never leaves a request blocked" / "end marker'
              ' carrying the return value": the prefetch queue\'s monitor'
              ' discipline seen from the server — CV discipline (R-C04-1), lock'
              ' order incl. _generator_lock and no blocking wait while it is'
              ' held (R-C04-4), return values recorded before consumers are'
              ' woken (R-C04-6)', _c04_shared, qmodel(ctx), min_instances=10)
  from mlmverif.props import c04
  ctx.include('R-C15-9', '"receives exactly the generator\'s elements": the prefetch'
              ' queue is not "done" before the prefetch thread has registered'
              ' as producer (R-C04-13 initial-state folding of enqueue_done)',
              c04.r13, qmodel(ctx), min_instances=2)
  ctx.include('R-C15-7', '"a generator failure is delivered as that exception'
              ' after the elements produced before it": the blocking batch read'
              ' the server uses never discards a batch in progress (R-C04-11)',
              c04.r11, qmodel(ctx), min_instances=2)
  from mlmverif.props import c05
  ctx.include('R-C15-10', '"a generator failure is delivered as that exception ... never'
              ' leaves a request blocked": the prefetch thread is started with its'
              ' outcome dropped, so the producer entry itself records every failure of'
              ' the generator object, including a failing __iter__ (R-C05-10)',
              c05.r10, qmodel(ctx), min_instances=2)
  ctx.include('R-C15-11', '"initialising a new generator or shutting down stops the previous'
              ' one ... never leaves a request blocked": the stop of the prefetch queue'
              ' is RECORDED before the blocked prefetch thread is woken, and wakes all'
              ' waiters on both conditions (R-C05-1 store-then-notify_all, R-C05-5) — a'
              ' producer woken first re-checks a flag that is not set yet, waits again and'
              ' _stop_prefetch joins it for ever', _c05_stop_shared, qmodel(ctx), min_instances=10)

def r12(ctx: Ctx):
  rule = 'R-C15-12'
  ctx.rule(rule, '"a generator failure is delivered as that exception after the elements produced'
           ' before it" — on the CLIENT too: in CourierClient.async_iterate the batch received'
           ' from the server is walked in order, every non-exception element is yielded, and an'
           ' exception taken from the batch is raised only at its own position: each `raise` of'
           ' a value that comes out of the received batch is the loop variable of the `for ...'
           ' in <batch>` loop that also yields. Looking at the tail first and raising before the'
           ' loop loses the elements that travelled in the same response as the failure')
  from mlmverif.core import parent_map
  fi = ctx.repo.func('utils.courier_utils', 'CourierClient.async_iterate')
  pm = parent_map(fi.node)
  # the batch variable: assigned from an awaited next-batch response
  awaited = {x.targets[0].id for x in walk_no_nested(fi.node) if isinstance(x, ast.Assign)
             and isinstance(x.targets[0], ast.Name) and any(isinstance(y, ast.Await) for y in ast.walk(x.value))}
  loops = [l for l in walk_no_nested(fi.node) if isinstance(l, ast.For) and isinstance(l.iter, ast.Name)
           and l.iter.id in awaited and isinstance(l.target, ast.Name)]
  batch = loops[0].iter.id if loops else None
  if batch is None or not loops:
    raise AnalysisError(f'{rule}: async_iterate no longer walks the received batch with a for loop')
  lp = loops[0]
  lv = lp.target.id
  inside = {id(y) for y in ast.walk(lp)}
  yields_in = any(isinstance(y, ast.Yield) and isinstance(y.value, ast.Name) and y.value.id == lv for y in ast.walk(lp))
  # values taken out of the batch outside the loop
  taken = {t.id for x in ast.walk(fi.node) if isinstance(x, (ast.Assign, ast.NamedExpr))
           for t in ([x.target] if isinstance(x, ast.NamedExpr) else x.targets) if isinstance(t, ast.Name)
           and any(isinstance(y, ast.Name) and y.id == batch for y in ast.walk(x.value)) and id(x) not in inside}
  n = 0
  bad = None
  for r_ in ast.walk(fi.node):
    if isinstance(r_, ast.Raise) and isinstance(r_.exc, ast.Name) and (r_.exc.id == lv or r_.exc.id in taken):
      n += 1
      if id(r_) not in inside or r_.exc.id != lv:
        bad = r_
  if not yields_in:
    ctx.fail(rule, fi, 'async_iterate: the batch loop yields its elements', 'the loop over the received batch'
             ' no longer yields the elements', node=lp)
  elif bad is not None:
    ctx.fail(rule, fi, 'async_iterate: a failure inside a batch is raised at its own position',
             f'`{unparse(bad)}` raises an exception taken from the received batch outside the loop that yields'
             ' the batch in order: the elements ahead of it in the same response are never yielded — the'
             ' client sees the failure before (instead of after) the elements produced before it', node=bad)
  else:
    ctx.ok(rule, fi, 'batch walked in order: yield elements, raise a failure where it stands', lp)
  ctx.floor(rule, 1, max(n, 1))


# RPC handlers that do NOT count as "the client is alive and working": one line of reason each
_NO_REFRESH = {
    'shutdown': 'ends the server',
    'stop_prefetch': 'ends an iteration (sent by the master while tearing a task down)',
    'clear_cache': 'maintenance call, not part of an evaluation or iteration',
    'cache_info': 'maintenance call, not part of an evaluation or iteration',
}


def r13(ctx: Ctx):
  rule = 'R-C15-13'
  ctx.rule(rule, '"a client that repeatedly asks for the next batch receives exactly the generator\'s'
           ' elements": the server stops itself (and the generator) when it has not heard from a client'
           ' for auto_shutdown_secs; an iterating client sends no explicit heartbeat — its requests ARE'
           ' the liveness signal. So every bound RPC handler through which a client drives work'
           ' (everything in set_up except the table _NO_REFRESH) stores a fresh clock reading into'
           ' self._last_heartbeat on every path. A handler that forgets it lets the auto-shutdown'
           ' timer fire under an actively polling client: the iteration ends with "Shutdown'
           ' requested" after the elements delivered so far')
  from mlmverif.props import c14
  bt = c14.bound_table(ctx.repo)
  n = 0
  for name, fi in sorted(bt.items()):
    if name in _NO_REFRESH:
      ctx.info(rule, fi if not isinstance(fi, str) else ctx.repo.func(CS, 'CourierServer.set_up'),
               f'{name}: exempt ({_NO_REFRESH[name]})')
      continue
    if isinstance(fi, str):
      raise AnalysisError(f'{rule}: handler of `{name}` not resolved ({fi})')
    n += 1
    g = cfgm.cfg_of(fi.node)
    fresh = lambda nd: isinstance(nd.ast, ast.Assign) and any(is_self_attr(t, '_last_heartbeat') for t in nd.ast.targets) and (
        'time.time()' in unparse(nd.ast.value))
    w = g.must_pass(g.entry, [g.exit_ret], fresh, cfgm.only_normal)
    if w is None:
      ctx.ok(rule, fi, f'{name}: refreshes the server heartbeat', fi.node)
    else:
      ctx.fail(rule, fi, f'{fi.qualname}: the handler of `{name}` refreshes self._last_heartbeat',
               f'the handler of the RPC `{name}` can return without `self._last_heartbeat = time.time()`: a client'
               ' that only issues this call (an iterating client polling for batches) does not keep the server'
               ' alive — run_until_shutdown declares "no ping" and stops the generator under it', node=fi.node)
  ctx.floor(rule, 4, n)


def r14(ctx: Ctx):
  rule = 'R-C15-14'
  ctx.rule(rule, '"a generator failure is delivered as that exception": on the client every exception'
           ' element of a received batch that is not the end marker is RAISED — in'
           ' CourierClient.async_iterate, from the false edge of the is_stop_iteration test every path'
           ' reaches `raise <elem>`; a condition can only stand in the way if it is constant-true (a'
           ' comparison with a freshly constructed exception object compares identities and is always'
           ' unequal). A real match that skips some failure leaves the client polling a dead generator'
           ' for ever')
  fi = ctx.repo.func('utils.courier_utils', 'CourierClient.async_iterate')
  g = cfgm.cfg_of(fi.node)
  stops = [nd for nd in g.nodes if nd.kind == 'cond' and any(
      isinstance(c, ast.Call) and unparse(c.func).split('.')[-1] == 'is_stop_iteration' for c in cfgm.node_exprs(nd))]
  if not stops:
    raise AnalysisError(f'{rule}: async_iterate no longer tests batch elements with is_stop_iteration')

  def const_true(t):
    # X != SomeException(...)  /  not (X == SomeException(...)): identity comparison with a fresh object
    if isinstance(t, ast.Compare) and len(t.ops) == 1 and isinstance(t.ops[0], ast.NotEq):
      for side in (t.left, t.comparators[0]):
        if isinstance(side, ast.Call) and isinstance(side.func, ast.Name) and side.func.id.endswith(('Error', 'Exception')):
          return True
    return False

  def edge_ok(a, b, lab):
    if lab in ('exc', 'close'):
      return False
    if a.kind == 'cond' and lab == 'false' and const_true(a.ast):
      return False
    return True

  n = 0
  for st in stops:
    n += 1
    is_raise = lambda nd: isinstance(nd.ast, ast.Raise) and nd.ast.exc is not None
    bad = None
    for s_, lab in st.succ:
      if lab != 'false':
        continue
      if is_raise(s_):
        continue
      loop_heads = [x for x in g.nodes if x.kind == 'for_iter']
      w = g.must_pass(s_, [g.exit_ret] + loop_heads, is_raise, edge_ok)
      if w is not None:
        bad = w
    if bad:
      ctx.fail(rule, fi, 'async_iterate: every failure element of a batch is raised',
               'an exception element that is not the end marker can be passed over without being raised (path: '
               + ' -> '.join(x_.split(':', 2)[-1][:40] for x_ in bad[-4:]) + '): the server repeats the recorded'
               ' failure in every later batch, so the client neither yields nor raises nor finishes', node=st.ast)
    else:
      ctx.ok(rule, fi, 'non-end-marker exceptions always reach `raise`', st.ast)
  ctx.floor(rule, 1, n)



def _c05_stop_shared(sub, m):
  from mlmverif.props import c05
  sub.guard(c05.r1, m)
  sub.guard(c05.r5, m)


def _c04_shared(sub, m):
  from mlmverif.props import c04
  # R-C04-14: the full-buffer test and the wait on the enqueue condition are one critical section (no lost wake-up of the
  # prefetch thread between `Full` and `wait()`)
  for r in (c04.r1, c04.r4, c04.r5, c04.r6, c04.r14):
    sub.guard(r, m)


def r1(ctx: Ctx):
  rule = 'R-C15-1'
  ctx.rule(rule, 'guarded state: every store to _generator / _enqueue_thread'
           ' outside __init__ executes with _generator_lock held')
  repo = ctx.repo
  ci = repo.cls(CS, CLSN)
  eng = LockEngine(repo)
  lt = eng.lock_table(ci)
  if '_generator_lock' not in lt:
    raise AnalysisError('PrefetchedCourierServer._generator_lock not found')
  lock = lt['_generator_lock'][0]
  n = 0
  for name, fi in ci.methods.items():
    if name == '__init__':
      continue
    stores = [x for x in walk_no_nested(fi.node) if isinstance(x, (ast.Assign, ast.AnnAssign))
              and any(is_self_attr(t, '_generator') or is_self_attr(t, '_enqueue_thread')
                      for t in (x.targets if isinstance(x, ast.Assign) else [x.target]))]
    if not stores:
      continue
    eng.analyze(fi)
    g = cfgm.cfg_of(fi.node)
    for st in stores:
      n += 1
      nodes = [nd for nd in g.nodes if nd.ast is st]
      held = nodes and all(all(ls_has(ls, lock) for ls in s.get(nd, ())) and s.get(nd)
                           for s in eng.states_at(fi) for nd in nodes)
      if held:
        ctx.ok(rule, fi, unparse(st).split('\n')[0], st)
      else:
        ctx.fail(rule, fi, unparse(st.targets[0] if isinstance(st, ast.Assign) else st.target) + ' = ...',
                 f'{name} replaces the generator/prefetch thread without'
                 ' holding _generator_lock: a concurrent stop or request can'
                 ' see a half-installed generator (elements of two generators'
                 ' mix)', node=st)
  ctx.floor(rule, 2, n)


def _stop_family(repo):
  """(the method that actually stops the prefetch queue, names of the methods that run it on every call).

  `_stop_prefetch` may do the work itself or delegate to a twin that expects the generator lock to be held."""
  ci = repo.cls(CS, CLSN)
  body = None
  for name, m in ci.methods.items():
    if any(isinstance(x, ast.Call) and unparse(x.func) == 'self._generator.maybe_stop' and x.args for x in ast.walk(m.node)):
      body = m
  if body is None:
    raise AnalysisError('no method of the prefetching server stops the prefetch queue with an exception')
  names = {body.name}
  changed = True
  while changed:
    changed = False
    for name, m in ci.methods.items():
      if name in names:
        continue
      if any(isinstance(x, ast.Call) and isinstance(x.func, ast.Attribute) and is_self_attr(x.func) and x.func.attr in names
             for x in ast.walk(m.node)) and 'stop' in name:
        names.add(name)
        changed = True
  return body, names


def r2(ctx: Ctx):
  rule = 'R-C15-2'
  ctx.rule(rule, 'stop then start: in _init_iterator the call to'
           ' _stop_prefetch dominates the construction of the new'
           ' IteratorQueue and the start of the new thread; the thread target'
           ' is the new queue\'s enqueue_from_iterator over the new generator')
  fi = ctx.repo.func(CS, f'{CLSN}._init_iterator')
  g = cfgm.cfg_of(fi.node)
  _, stop_names = _stop_family(ctx.repo)
  stop = lambda n: any(isinstance(x, ast.Call) and isinstance(x.func, ast.Attribute) and is_self_attr(x.func)
                       and x.func.attr in stop_names for x in cfgm.node_exprs(n))
  newq = [n for n in g.nodes if isinstance(n.ast, ast.Assign) and is_self_attr(
      n.ast.targets[0], '_generator') and isinstance(n.ast.value, ast.Call)
          and 'IteratorQueue' in unparse(n.ast.value.func)]
  starts = [n for n in g.nodes if any(isinstance(x, ast.Call) and unparse(x.func) == 'self._enqueue_thread.start'
                                     for x in cfgm.node_exprs(n))]
  if not newq or not starts:
    ctx.fail(rule, fi, '_init_iterator: new IteratorQueue + thread start',
             'the new prefetch queue is not created or its thread is never'
             ' started: requests for the next batch block forever', node=fi.node)
  else:
    bad = [n for n in newq + starts if g.dominates(stop, n, cfgm.only_normal) is not None]
    if bad:
      ctx.fail(rule, fi, '_init_iterator: self._stop_prefetch() first',
               'a new generator can be installed while the previous prefetch'
               ' thread is still running: elements of two generators are mixed'
               ' and the old thread keeps blocking', node=bad[0].ast)
    else:
      ctx.ok(rule, fi, '_stop_prefetch() dominates new queue and thread start', newq[0].ast)
    q = newq[0].ast.value
    size_ok = q.args and unparse(q.args[0]) == 'self.prefetch_size'
    if size_ok:
      ctx.ok(rule, fi, 'queue capacity = prefetch_size', q)
    else:
      ctx.fail(rule, fi, q, 'the prefetch queue is not bounded by prefetch_size')
  th = [x for x in walk_no_nested(fi.node) if isinstance(x, ast.Call)
        and unparse(x.func) == 'threading.Thread']
  gen_var = None
  for x in walk_no_nested(fi.node):
    if isinstance(x, ast.Assign) and isinstance(x.value, ast.Call) and unparse(
        x.value.func) == 'lazy_fns.maybe_make' and isinstance(x.targets[0], ast.Name):
      gen_var = x.targets[0].id
  ok = False
  if th and gen_var:
    t = th[0]
    tgt = unparse(kwarg(t, 'target'))
    args = unparse(kwarg(t, 'args'))
    ok = tgt == 'self._generator.enqueue_from_iterator' and args.replace(' ', '') == f'({gen_var},)'
  if ok:
    ctx.ok(rule, fi, 'thread feeds the new queue from the new generator', th[0])
  else:
    ctx.fail(rule, fi, '_init_iterator: Thread(target=self._generator.enqueue_from_iterator, args=(result,))',
             'the prefetch thread does not enqueue the freshly made generator'
             ' into the freshly made queue', node=fi.node)
  ctx.floor(rule, 3)


def r3(ctx: Ctx):
  rule = 'R-C15-3'
  ctx.rule(rule, 'stop then join: in _stop_prefetch, maybe_stop(e) on the'
           ' queue dominates the join of the prefetch thread, and both happen'
           ' only when the generator is not exhausted')
  fi, _ = _stop_family(ctx.repo)
  g = cfgm.cfg_of(fi.node)
  ms = lambda n: any(isinstance(x, ast.Call) and unparse(x.func) == 'self._generator.maybe_stop'
                     and x.args for x in cfgm.node_exprs(n))
  joins = [n for n in g.nodes if any(isinstance(x, ast.Call) and unparse(x.func) == 'self._enqueue_thread.join'
                                    for x in cfgm.node_exprs(n))]
  stops = [n for n in g.nodes if ms(n)]
  if not stops:
    ctx.fail(rule, fi, '_stop_prefetch: self._generator.maybe_stop(e)',
             'stopping the prefetch no longer stops the queue with an'
             ' exception: the old generator keeps producing and blocked'
             ' requests are never released', node=fi.node)
  elif joins and any(g.dominates(ms, j, cfgm.only_normal) is not None for j in joins):
    ctx.fail(rule, fi, joins[0].ast, 'the prefetch thread is joined before the'
             ' queue is stopped: with a full prefetch buffer the thread is'
             ' blocked in put() and join() never returns (deadlock)')
  else:
    ctx.ok(rule, fi, 'maybe_stop(e) dominates join()', stops[0].ast)
  exh = lambda c: c.kind == 'cond' and 'exhausted' in unparse(c.ast)
  reach = g.reachable([g.entry], edge_ok=lambda a, b, lab: lab not in ('exc', 'close') and not (
      exh(a) and lab == ('true' if 'not' in unparse(a.ast) else 'false')))
  if stops and all(s not in reach for s in stops):
    ctx.ok(rule, fi, 'only a non-exhausted generator is stopped', stops[0].ast)
  else:
    ctx.fail(rule, fi, '_stop_prefetch: if not self._generator.exhausted',
             'an already exhausted generator is stopped with an error: its'
             ' clean end-of-stream is replaced by a timeout', node=fi.node)
  # the exception type: TimeoutError unless fatal
  stop_arg = None
  for x in walk_no_nested(fi.node):
    if isinstance(x, ast.Call) and unparse(x.func) == 'self._generator.maybe_stop' and x.args and isinstance(
        x.args[0], ast.Name):
      stop_arg = x.args[0].id
  excs = [unparse(x.value.func) for x in walk_no_nested(fi.node) if isinstance(x, ast.Assign)
          and isinstance(x.value, ast.Call) and isinstance(x.targets[0], ast.Name)
          and x.targets[0].id == stop_arg]
  if 'TimeoutError' in excs:
    ctx.ok(rule, fi, 'non-fatal stop delivers a retriable TimeoutError', fi.node)
  else:
    ctx.fail(rule, fi, '_stop_prefetch: e = TimeoutError(...)',
             'a reset generator no longer answers with a retriable'
             ' TimeoutError', node=fi.node)
  ctx.floor(rule, 3)


def r4(ctx: Ctx):
  rule = 'R-C15-4'
  ctx.rule(rule, 'terminal marker: _next_batch takes a blocking batch, appends'
           ' a marker only when the queue is exhausted — the recorded'
           ' exception when there is one, otherwise'
           ' StopIteration(*returned) — and answers [TimeoutError] when no'
           ' generator is installed')
  fi = ctx.repo.func(CS, f'{CLSN}._next_batch')
  g = cfgm.cfg_of(fi.node)
  # the installed queue, also under a local name (`q = self._generator`)
  qnames = {'self._generator'} | {x.targets[0].id for x in walk_no_nested(fi.node) if isinstance(x, ast.Assign) and len(x.targets) == 1
                                 and isinstance(x.targets[0], ast.Name) and unparse(x.value) == 'self._generator'}
  is_get_batch = lambda c: isinstance(c, ast.Call) and isinstance(c.func, ast.Attribute) and c.func.attr == 'get_batch' \
      and unparse(c.func.value) in qnames
  gb = [x for x in walk_no_nested(fi.node) if is_get_batch(x)]
  if gb and unparse(kwarg(gb[0], 'block')) == 'True' and gb[0].args:
    ctx.ok(rule, fi, unparse(gb[0]), gb[0])
  else:
    ctx.fail(rule, fi, '_next_batch: self._generator.get_batch(batch_size, block=True)',
             'the batch is not a blocking get of the requested size: clients'
             ' receive short or empty batches and spin', node=fi.node)
  batchv = None
  for x in walk_no_nested(fi.node):
    if isinstance(x, ast.Assign) and isinstance(x.targets[0], ast.Name) and is_get_batch(x.value):
      batchv = x.targets[0].id
  if batchv is None:
    raise AnalysisError(f'{rule}: _next_batch does not keep the batch in a local')
  appends = [n for n in g.nodes if any(
      isinstance(x, ast.Call) and unparse(x.func) == f'{batchv}.append' for x in cfgm.node_exprs(n))]
  exh = lambda c: c.kind == 'cond' and unparse(c.ast) in ('not self._generator', 'self._generator.exhausted',
                                                          'not bool(self._generator)')
  reach = g.reachable([g.entry], edge_ok=lambda a, b, lab: lab not in ('exc', 'close') and not (
      exh(a) and lab == 'true'))
  if not appends:
    ctx.fail(rule, fi, '_next_batch: <batch>.append(<marker>)',
             'no end marker is ever appended: the client never learns the'
             ' generator ended', node=fi.node)
  elif any(a in reach for a in appends):
    ctx.fail(rule, fi, appends[0].ast, 'an end marker can be appended although'
             ' the queue is not exhausted: the client stops early and loses'
             ' elements')
  else:
    ctx.ok(rule, fi, 'marker only when exhausted', appends[0].ast)
  kinds = set()
  for a in appends:
    c = [x for x in cfgm.node_exprs(a) if isinstance(x, ast.Call) and unparse(x.func) == f'{batchv}.append'][0]
    arg = c.args[0]
    if isinstance(arg, ast.Call) and unparse(arg.func) == 'StopIteration' and arg.args and isinstance(
        arg.args[0], ast.Starred) and 'returned' in unparse(arg.args[0]):
      kinds.add('stop')
      # must be on the branch where there is no exception
      ex = lambda c_: c_.kind == 'cond' and 'exception' in unparse(c_.ast)
      r2_ = g.reachable([g.entry], edge_ok=lambda p, q, lab: lab not in ('exc', 'close') and not (
          ex(p) and lab == 'false'))
      if a in r2_:
        ctx.fail(rule, fi, a.ast, 'StopIteration can be sent although the'
                 ' generator failed: the failure is reported as a clean end')
    elif isinstance(arg, ast.Name):
      kinds.add('exc')
    elif isinstance(arg, ast.Call) and unparse(arg.func) == 'StopIteration':
      ctx.fail(rule, fi, a.ast, 'the end marker does not carry the generator\'s'
               ' return value')
  if kinds == {'stop', 'exc'}:
    ctx.ok(rule, fi, 'marker = recorded exception, else StopIteration(*returned)', fi.node)
  else:
    ctx.fail(rule, fi, '_next_batch: exception first, else StopIteration(*self._generator.returned)',
             f'marker kinds found: {sorted(kinds)}', node=fi.node)
  # not-initialised answer
  first = [n for n in g.nodes if n.kind == 'cond' and unparse(n.ast) == 'self._generator is None']
  ok = False
  for c in first:
    for s, lab in c.succ:
      if lab == 'true':
        r = g.reachable([s], edge_ok=cfgm.only_normal, include_src=True)
        rets = [n for n in r if isinstance(n.ast, ast.Return)]
        te = any(isinstance(n.ast, ast.Assign) and isinstance(n.ast.value, ast.Call)
                 and unparse(n.ast.value.func) == 'TimeoutError' for n in r)
        tev = [n.ast.targets[0].id for n in r if isinstance(n.ast, ast.Assign) and isinstance(n.ast.value, ast.Call)
               and unparse(n.ast.value.func) == 'TimeoutError' and isinstance(n.ast.targets[0], ast.Name)]
        if rets and te and tev and all(any(
            isinstance(c_, ast.Call) and unparse(c_.func).endswith('dumps') and c_.args
            and isinstance(c_.args[0], ast.List) and [unparse(e_) for e_ in c_.args[0].elts] == [tev[0]]
            for c_ in ast.walk(x.ast)) for x in rets):
          ok = True
  if ok:
    ctx.ok(rule, fi, 'no generator -> [TimeoutError]', fi.node)
  else:
    ctx.fail(rule, fi, '_next_batch: if self._generator is None: return dumps([TimeoutError(...)])',
             'a request without an installed generator no longer answers with'
             ' a one-element [TimeoutError] batch', node=fi.node)
  ctx.floor(rule, 4)


def r5(ctx: Ctx):
  rule = 'R-C15-5'
  ctx.rule(rule, 'wiring: the shutdown callback is _stop_prefetch and'
           ' _shutdown_server invokes it before Stop(); init_generator,'
           ' next_batch_from_generator and stop_prefetch are bound to the'
           ' matching methods; the client loop interprets the markers')
  repo = ctx.repo
  init = repo.func(CS, f'{CLSN}.__init__')
  ok = any(isinstance(x, ast.Assign) and is_self_attr(x.targets[0], '_shutdown_callback')
           and unparse(x.value) == 'self._stop_prefetch' for x in walk_no_nested(init.node))
  if ok:
    ctx.ok(rule, init, '_shutdown_callback = _stop_prefetch', init.node)
  else:
    ctx.fail(rule, init, '__init__: self._shutdown_callback = self._stop_prefetch',
             'shutting the server down no longer stops the prefetch thread',
             node=init.node)
  ss = repo.func(CS, 'CourierServer._shutdown_server')
  g = cfgm.cfg_of(ss.node)
  cb = lambda n: any(isinstance(x, ast.Call) and unparse(x.func) == 'self._shutdown_callback'
                     for x in cfgm.node_exprs(n))
  stops = [n for n in g.nodes if any(isinstance(x, ast.Call) and unparse(x.func) == 'self._server.Stop'
                                    for x in cfgm.node_exprs(n))]

  def edge_ok(a, b, lab):
    if lab in ('exc', 'close'):
      return False
    if a.kind == 'cond' and '_shutdown_callback' in unparse(a.ast) and lab == 'false':
      return False
    return True

  if stops and all(g.dominates(cb, s, edge_ok) is None for s in stops):
    ctx.ok(rule, ss, 'callback before Stop()', stops[0].ast)
  else:
    ctx.fail(rule, ss, '_shutdown_server: self._shutdown_callback() before self._server.Stop()',
             'the server is stopped without first stopping the prefetch'
             ' (a request blocked in next_batch is never released)', node=ss.node)
  su = repo.func(CS, f'{CLSN}.set_up')
  binds = {}
  for x in walk_no_nested(su.node):
    if isinstance(x, ast.Call) and unparse(x.func) == 'self._server.Bind' and len(x.args) == 2:
      binds[getattr(x.args[0], 'value', None)] = unparse(x.args[1])
  want = {'init_generator': 'self._init_iterator',
          'next_batch_from_generator': 'self._next_batch',
          'stop_prefetch': 'self._stop_prefetch'}
  sup = any(isinstance(x, ast.Call) and unparse(x.func) == 'super().set_up' for x in walk_no_nested(su.node))
  if all(binds.get(k) == v for k, v in want.items()) and sup:
    ctx.ok(rule, su, f'bound: {sorted(want)}', su.node)
  else:
    ctx.fail(rule, su, 'set_up: Bind init_generator/next_batch_from_generator/stop_prefetch',
             f'generator RPCs bound as {binds} (super().set_up called: {sup})',
             node=su.node)
  ctx.floor(rule, 3)


def r8(ctx: Ctx):
  rule = 'R-C15-8'
  ctx.rule(rule, 'a subclass constructor does not lose its own state to the base'
           ' constructor: a field that the base __init__ (transitively through'
           ' super) also assigns is assigned by the subclass only AFTER'
           ' super().__init__() — assigned before, the base resets it (e.g.'
           ' the shutdown callback back to None, so shutting down no longer'
           ' stops the prefetch and a pending request is never released)')
  repo = ctx.repo
  n = 0
  for mod in ('chainables.courier_server', 'utils.iter_utils', 'chainables.courier_worker',
              'utils.courier_utils'):
    mi = repo.module(mod)
    for ci in mi.classes.values():
      init = ci.methods.get('__init__')
      if init is None:
        continue
      sup = [x for x in init.node.body if isinstance(x, ast.Expr) and isinstance(x.value, ast.Call)
             and unparse(x.value.func) == 'super().__init__']
      if not sup:
        continue
      base_fields: set[str] = set()
      for b in repo.mro(ci)[1:]:
        bi = b.methods.get('__init__')
        if bi is None:
          continue
        for x in walk_no_nested(bi.node):
          if isinstance(x, (ast.Assign, ast.AnnAssign)):
            for t in (x.targets if isinstance(x, ast.Assign) else [x.target]):
              if is_self_attr(t):
                base_fields.add(t.attr)
      n += 1
      idx = init.node.body.index(sup[0])
      early = []
      for st in init.node.body[:idx]:
        for x in ast.walk(st):
          if isinstance(x, (ast.Assign, ast.AnnAssign)):
            for t in (x.targets if isinstance(x, ast.Assign) else [x.target]):
              if is_self_attr(t) and t.attr in base_fields:
                early.append((t.attr, x))
      if early:
        f, node = early[0]
        ctx.fail(rule, init, f'{ci.name}.__init__: self.{f} assigned after super().__init__()',
                 f'{ci.name}.__init__ assigns `self.{f}` before calling super().__init__(),'
                 f' and the base constructor assigns `self.{f}` too: the subclass value'
                 ' is overwritten as soon as the base constructor runs', node=node)
      else:
        ctx.ok(rule, init, f'{ci.name}.__init__: no field shared with the base is set before super().__init__()',
               sup[0])
  ctx.floor(rule, 3, n)


def r15(ctx: Ctx):
  rule = 'R-C15-15'
  ctx.rule(rule, '"initialising a new generator or shutting down stops the previous one": _stop_prefetch WAITS for the prefetch'
           ' thread to end — the join() it calls on the thread has no timeout (or the method re-checks is_alive() in a'
           ' loop). With a bounded join a generator that is inside one long step is still running when the new generator'
           ' starts, or when the server loop has finished: two generators execute at once')
  fi, _ = _stop_family(ctx.repo)
  joins = [c for c in ast.walk(fi.node) if isinstance(c, ast.Call) and isinstance(c.func, ast.Attribute) and c.func.attr == 'join'
           and 'thread' in unparse(c.func.value).lower()]
  if not joins:
    raise AnalysisError(f'{rule}: _stop_prefetch no longer joins the prefetch thread')
  for c in joins:
    bounded = bool(c.args or c.keywords)
    rechecked = any(isinstance(w, ast.While) and 'is_alive' in unparse(w.test) for w in ast.walk(fi.node))
    what = '_stop_prefetch: waits for the prefetch thread without a bound'
    if bounded and not rechecked:
      ctx.fail(rule, fi, what,
               f'`{unparse(c)}` gives up after a timeout and _stop_prefetch goes on: the previous generator may still be'
               ' executing a step while _init_iterator starts the next one (or after shutdown returned)', node=c)
    else:
      ctx.ok(rule, fi, what, c)
  ctx.floor(rule, 1)


def r16(ctx: Ctx):
  rule = 'R-C15-16'
  ctx.rule(rule, '"initialising a new generator ... stops the previous one" for overlapping requests (a retry after a client-side'
           ' timeout arrives while the first request is still constructing its generator): stopping the generator that is'
           ' installed and installing the new one are ONE critical section of the generator lock — in _init_iterator the'
           ' stop call and the store `self._generator = <new queue>` lie inside the same `with self._generator_lock` block,'
           ' the stop first. With the stop outside, the second request finds the old generator already stopped, waits for'
           ' the lock and overwrites the generator the first request installed: nobody stops that one, its prefetch thread'
           ' stays blocked in put() for good')
  fi = ctx.repo.func(CS, f'{CLSN}._init_iterator')
  _, stop_names = _stop_family(ctx.repo)
  withs = [w for w in ast.walk(fi.node) if isinstance(w, ast.With) and any(
      unparse(it.context_expr) == 'self._generator_lock' for it in w.items)]
  stores = [x for x in ast.walk(fi.node) if isinstance(x, ast.Assign) and any(is_self_attr(t, '_generator') for t in x.targets)]
  if not stores:
    raise AnalysisError(f'{rule}: _init_iterator no longer installs self._generator')
  for st in stores:
    w = next((w for w in withs if any(y is st for y in ast.walk(w))), None)
    stops_in = [] if w is None else [c for c in ast.walk(w) if isinstance(c, ast.Call) and isinstance(c.func, ast.Attribute)
                                     and is_self_attr(c.func) and c.func.attr in stop_names and c.lineno < st.lineno]
    what = '_init_iterator: stop and replace under one hold of the generator lock'
    if w is not None and stops_in:
      ctx.ok(rule, fi, what, st)
    else:
      ctx.fail(rule, fi, what,
               f'`{unparse(st)[:60]}` (line {st.lineno}) is not preceded, inside the same `with self._generator_lock` block, by a'
               f' call that stops the installed generator ({sorted(stop_names)}): two overlapping init requests both see the OLD'
               ' generator stopped, and the second overwrites the generator the first has installed without stopping it —'
               ' that generator and its prefetch thread are orphaned', node=st)
  ctx.floor(rule, 1)


def r18(ctx: Ctx):
  rule = 'R-C15-18'
  ctx.rule(rule, '"followed exactly once by an end marker carrying the generator\'s return value": the end of a stream is a STATE of'
           ' the installed queue (exhausted, returned), which every later request reads again — the request handlers never'
           ' un-install it. Outside the constructor, `self._generator` is stored only by the method that installs a new'
           ' queue (it constructs the IteratorQueue). A handler that drops the queue after answering with the end marker'
           ' turns the next poll (a second client, a repeated last request) into TimeoutError("Generator is not set, the'
           ' worker might be killed") — a retriable error that makes the client restart a shard that had finished')
  ci = ctx.repo.cls(CS, CLSN)
  n = 0
  installers = {name for name, m in ci.methods.items() if any(
      isinstance(x, ast.Call) and unparse(x.func).endswith('IteratorQueue') for x in ast.walk(m.node))}
  if not installers:
    raise AnalysisError(f'{rule}: no method of {CLSN} constructs the prefetch IteratorQueue')
  for name, m in ci.methods.items():
    if name == '__init__':
      continue
    stores = [x for x in ast.walk(m.node) if isinstance(x, (ast.Assign, ast.AnnAssign, ast.AugAssign, ast.Delete)) and any(
        is_self_attr(t) and t.attr == '_generator'
        for t in (x.targets if isinstance(x, (ast.Assign, ast.Delete)) else [x.target]))]
    n += 1
    what = f'{CLSN}.{name}: the installed prefetch queue is replaced by the installer only'
    if stores and name not in installers:
      ctx.fail(rule, m, what,
               f'`{unparse(stores[0])[:60]}` in {name}: the handler un-installs the queue — a poll after the end marker is'
               ' answered "[TimeoutError: Generator is not set ...]" instead of the end marker, and the client retries a'
               ' stream that was complete', node=stores[0])
    else:
      ctx.ok(rule, m, what, m.node)
  ctx.floor(rule, 4, n)


def r19(ctx: Ctx):
  rule = 'R-C15-19'
  ctx.rule(rule, '"shutting down stops the previous one [generator]": the serving loop (run_until_shutdown) ends in'
           ' _shutdown_server, which stops the courier server and runs the shutdown callback (the stop routine of the'
           ' prefetching server). Whether it does so depends on the SERVER\'s state only — the guard around'
           ' `self._server.Stop()` / the callback reads no attribute that only start() sets (the serving thread'
           ' `self._thread`), neither directly nor through a property of the class. run_until_shutdown() is also the entry'
           ' point of a worker binary that serves from its main thread: with a guard on the thread such a server leaves its'
           ' loop still bound and serving, its generator still being advanced')
  repo = ctx.repo
  base = repo.cls(CS, 'CourierServer')
  sd = base.methods.get('_shutdown_server')
  start = base.methods.get('start')
  if sd is None or start is None:
    raise AnalysisError(f'{rule}: CourierServer._shutdown_server / start not found')
  # attributes bound only by start() (outside __init__, where they get their "not started" default)
  def stores(m):
    return {t.attr for x in ast.walk(m.node) if isinstance(x, (ast.Assign, ast.AnnAssign))
            for t in (x.targets if isinstance(x, ast.Assign) else [x.target]) if is_self_attr(t)}
  only_start = stores(start)
  for name, m in base.methods.items():
    if name not in ('start', '__init__'):
      only_start -= stores(m)
  if not only_start:
    raise AnalysisError(f'{rule}: start() binds no attribute of its own (the serving thread) any more')

  def reads(expr, depth=0):
    out = set()
    for y in ast.walk(expr):
      if is_self_attr(y):
        out.add(y.attr)
        prop = base.methods.get(y.attr)
        if prop is not None and depth < 2 and any('property' in unparse(d) for d in prop.node.decorator_list):
          out |= reads(prop.node, depth + 1)
    return out
  n = 0
  pm = parent_map(sd.node)
  for c in ast.walk(sd.node):
    is_stop = isinstance(c, ast.Call) and (unparse(c.func).endswith('_server.Stop') or unparse(c.func).endswith('_shutdown_callback'))
    if not is_stop:
      continue
    n += 1
    bad = None
    q = c
    while q in pm:
      par = pm[q]
      if isinstance(par, ast.If) and any(q is b or any(y is q for y in ast.walk(b)) for b in par.body):
        dep = reads(par.test) & only_start
        if dep:
          bad = (par, dep)
      q = par
    what = f'CourierServer._shutdown_server: `{unparse(c)}` is guarded by the server state only'
    if bad:
      ctx.fail(rule, sd, what,
               f'`{unparse(c)}` runs only under `{unparse(bad[0].test)}`, which reads {sorted("self." + a for a in bad[1])} — set by'
               ' start() alone: a server that serves from run_until_shutdown() directly is never stopped by its shutdown'
               ' request, and its prefetched generator keeps running', node=bad[0])
    else:
      ctx.ok(rule, sd, what, c)
  ctx.floor(rule, 2, n)


def r20(ctx: Ctx):
  rule = 'R-C15-20'
  ctx.rule(rule, '"never leaves a request blocked": a prefetch queue is installed only once its PRODUCER is certain. In the method'
           ' that installs a new queue (`self._generator = IteratorQueue(...)`), the construction of the generator'
           ' (`maybe_make(<lazy>)`) and every `raise` that rejects its result come BEFORE the store (CFG dominance /'
           ' no raise reachable between the store and the start of the thread). A queue installed first has no producer'
           ' when the construction raises or returns a non-iterable: the init reports the error, but every later'
           ' next-batch request blocks for ever on it (the stopped previous queue would have answered at once)')
  ci = ctx.repo.cls(CS, CLSN)
  n = 0
  for name, m in ci.methods.items():
    if name == '__init__':
      continue
    g = None
    for x in ast.walk(m.node):
      if not (isinstance(x, ast.Assign) and any(is_self_attr(t) and t.attr == '_generator' for t in x.targets)
              and isinstance(x.value, ast.Call) and unparse(x.value.func).endswith('IteratorQueue')):
        continue
      n += 1
      g = g or cfgm.cfg_of(m.node)
      store = [nd for nd in g.nodes if nd.ast is x]
      what = f'{CLSN}.{name}: the new queue is installed after its generator was constructed and checked'
      if not store:
        raise AnalysisError(f'{rule}: install statement not found in the CFG of {name}')
      made = lambda nd: any(isinstance(c, ast.Call) and unparse(c.func).endswith('maybe_make') for c in cfgm.node_exprs(nd))
      late_make = g.dominates(made, store[0], cfgm.only_normal) is not None
      after = g.reachable([store[0]], edge_ok=cfgm.only_normal)
      late_raise = [nd for nd in after if isinstance(nd.ast, ast.Raise)]
      if late_make or late_raise:
        ctx.fail(rule, m, what,
                 f'`{unparse(x)[:60]}` is executed ' + ('before the generator is constructed (`maybe_make`)' if late_make else
                 f'before `{unparse(late_raise[0].ast)[:50]}` can still reject it') + ': when the construction fails, the installed queue'
                 ' has no producer and never ends — later next-batch requests wait on it for ever', node=x)
      else:
        ctx.ok(rule, m, what, x)
  ctx.floor(rule, 1, n)


from mlmverif.selfcheck import B, OK  # noqa: E402

_F = 'chainables/courier_server.py'
VARIANTS = [
    OK('dequeued-value-through-a-local', 'utils/iter_utils.py',
       "          value = self.get_nowait()\n", "          item = self.get_nowait()\n          value = item\n"),
    OK('next-batch-queue-through-a-local', 'chainables/courier_server.py',
       "      result = self._generator.get_batch(batch_size, block=True)", "      prefetched = self._generator\n      result = prefetched.get_batch(batch_size, block=True)"),
    OK('put-through-a-local', 'utils/iter_utils.py',
       "          self._put_nowait(value)\n", "          item = value\n          self._put_nowait(item)\n"),
    OK('handler-reads-the-queue-through-a-local', 'chainables/courier_server.py',
       "        result.append(StopIteration(*self._generator.returned))\n", "        generator = self._generator\n        result.append(StopIteration(*generator.returned))\n"),
    OK('generator-checked-through-a-named-flag', 'chainables/courier_server.py',
       "      if not isinstance(result, Iterable):\n        raise TypeError(f'{result} is not a generator, but a {type(result)}.')\n", "      is_iterable = isinstance(result, Iterable)\n      if not is_iterable:\n        raise TypeError(f'{result} is not a generator, but a {type(result)}.')\n"),
    B('queue-installed-before-the-generator-exists', 'chainables/courier_server.py',
      "      logging.debug('chainable: %s', f'Constructing generator: {maybe_lazy}')\n      result = lazy_fns.maybe_make(maybe_lazy)\n      if not isinstance(result, Iterable):\n        raise TypeError(f'{result} is not a generator, but a {type(result)}.')\n      self._generator = iter_utils.IteratorQueue(\n          self.prefetch_size,\n          ignore_error=self._ignore_error,\n          name=f'prefetch_queue@{self.address}',\n      )\n",
      "      self._generator = iter_utils.IteratorQueue(\n          self.prefetch_size,\n          ignore_error=self._ignore_error,\n          name=f'prefetch_queue@{self.address}',\n      )\n      logging.debug('chainable: %s', f'Constructing generator: {maybe_lazy}')\n      result = lazy_fns.maybe_make(maybe_lazy)\n      if not isinstance(result, Iterable):\n        raise TypeError(f'{result} is not a generator, but a {type(result)}.')\n", 'R-C15-20'),
    B('revert-shutdown-only-for-a-threaded-server', 'chainables/courier_server.py',
      "      if self._server is not None and self._server.has_started:\n        if self._shutdown_callback is not None:",
      "      if self.has_started:\n        assert self._server is not None, 'Server is not built.'\n        if self._shutdown_callback is not None:", 'R-C15-19'),
    OK('shutdown-guard-through-a-local', 'chainables/courier_server.py',
       "      if self._server is not None and self._server.has_started:\n        if self._shutdown_callback is not None:",
       "      raw = self._server\n      if raw is not None and raw.has_started:\n        if self._shutdown_callback is not None:"),
    B('handler-drops-the-queue-after-the-end-marker', 'chainables/courier_server.py',
      "        result.append(StopIteration(*self._generator.returned))\n", "        result.append(StopIteration(*self._generator.returned))\n        self._generator = None\n", 'R-C15-18'),
    B('enqueue-loop-never-rereads-the-stop', 'utils/iter_utils.py',
      "    while not self.enqueue_done:\n      fetched = False", "    while True:\n      fetched = False", 'R-C15-17'),
    B('revert-stop-outside-the-replacing-critical-section', 'chainables/courier_server.py',
      "    with self._generator_lock:\n      # Stopping the generator in place and installing the new one is one step:\n      # an overlapping request would otherwise overwrite, without stopping it,\n      # the generator this request installs.\n      self._stop_prefetch_locked()\n",
      "    self._stop_prefetch()\n    with self._generator_lock:\n", 'R-C15-16'),
    B('stop-prefetch-bounded-join', 'chainables/courier_server.py',
      '        self._enqueue_thread.join()', '        self._enqueue_thread.join(timeout=3)', 'R-C15-15'),
    B('next-batch-does-not-refresh-heartbeat', 'chainables/courier_server.py',
      '    """Get the next batch from the iterator."""\n    self._last_heartbeat = time.time()\n',
      '    """Get the next batch from the iterator."""\n', 'R-C15-13'),
    B('client-skips-already-executing-failure', 'utils/courier_utils.py',
      "          elif elem != ValueError('generator already executing'):\n            raise elem",
      "          elif not (isinstance(elem, ValueError) and elem.args == ('generator already executing',)):\n            raise elem", 'R-C15-14'),
    OK('client-raises-every-failure-plainly', 'utils/courier_utils.py',
       "          elif elem != ValueError('generator already executing'):\n            raise elem",
       "          else:\n            raise elem"),
    B('client-raises-batch-tail-first', 'utils/courier_utils.py',
      '        for elem in output_batch:\n          if not isinstance(elem, Exception):\n            yield elem\n            batch_cnt += 1\n            continue\n',
      '        if output_batch and isinstance(tail := output_batch[-1], Exception) and not iter_utils.is_stop_iteration(tail):\n          raise tail\n        for elem in output_batch:\n          if not isinstance(elem, Exception):\n            yield elem\n            batch_cnt += 1\n            continue\n',
      'R-C15-12'),
    B('subclass-state-before-base-init', _F,
      '    super().__init__(\n        server_name,\n        port=port,\n        auto_shutdown_secs=timeout_secs,\n        clients=clients,\n    )\n    self.prefetch_size = prefetch_size',
      '    self._shutdown_callback = self._stop_prefetch\n    super().__init__(\n        server_name,\n        port=port,\n        auto_shutdown_secs=timeout_secs,\n        clients=clients,\n    )\n    self.prefetch_size = prefetch_size',
      'R-C15-8'),
    OK('subclass-own-state-before-base-init', _F,
       '    super().__init__(\n        server_name,\n        port=port,\n        auto_shutdown_secs=timeout_secs,\n        clients=clients,\n    )\n    self.prefetch_size = prefetch_size',
       '    self.prefetch_size = prefetch_size\n    super().__init__(\n        server_name,\n        port=port,\n        auto_shutdown_secs=timeout_secs,\n        clients=clients,\n    )'),
    B('fresh-queue-reports-done', 'utils/iter_utils.py',
      '    if not self._max_enqueuer:\n      return False\n    return self._enqueue_start == self._enqueue_stop == self._max_enqueuer',
      '    remaining = self._enqueue_start - self._enqueue_stop\n    return not remaining and self._enqueue_start >= self._max_enqueuer',
      'R-C15-9'),
    B('init-without-lock', _F,
      '    with self._generator_lock:\n      # Stopping the generator in place',
      '    if True:\n      # Stopping the generator in place',
      'R-C15-1'),
    B('init-without-stop', _F,
      "      self._stop_prefetch_locked()\n      logging.debug('chainable: %s', f'Constructing generator: {maybe_lazy}')",
      "      logging.debug('chainable: %s', f'Constructing generator: {maybe_lazy}')", 'R-C15-2'),
    B('thread-not-started', _F, '      self._enqueue_thread.start()\n', '', 'R-C15-2'),
    B('join-before-stop', _F,
      '      self._generator.maybe_stop(e)\n      if self._enqueue_thread:\n        self._enqueue_thread.join()',
      '      if self._enqueue_thread:\n        self._enqueue_thread.join()\n      self._generator.maybe_stop(e)',
      'R-C15-3'),
    B('stop-even-if-exhausted', _F, '    if self._generator is not None and not self._generator.exhausted:\n',
      '    if self._generator is not None:\n', 'R-C15-3'),
    B('nonblocking-batch', _F, '      result = self._generator.get_batch(batch_size, block=True)',
      '      result = self._generator.get_batch(batch_size)', 'R-C15-4'),
    B('marker-always', _F, '    if not self._generator:\n      if (e := self._generator.exception) is not None:',
      '    if True:\n      if (e := self._generator.exception) is not None:', 'R-C15-4'),
    B('marker-without-returned', _F,
      '        result.append(StopIteration(*self._generator.returned))',
      '        result.append(StopIteration())', 'R-C15-4'),
    B('callback-unset', _F, '    self._shutdown_callback = self._stop_prefetch\n', '', 'R-C15-5'),
    B('bind-swapped', _F,
      "    self._server.Bind('next_batch_from_generator', self._next_batch)",
      "    self._server.Bind('next_batch_from_generator', self._init_iterator)", 'R-C15-5'),
]
