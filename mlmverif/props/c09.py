"""C09 — sharding partitions a data source exactly (structural part).

`SequenceDataSource.shard` is summarised symbolically (loop accelerated into
min/bracket terms) and proved, for ALL n, K, k, offsets and nesting, to be the
balanced contiguous partition; record/replay of shard state is compared field
by field; length and iteration bounds agree; index bookkeeping of the
iterators is paired with every element consumed.
"""
from __future__ import annotations

import ast

from mlmverif import affine as af
from mlmverif import cfg as cfgm
from mlmverif.core import (AnalysisError, parent_map, kwarg, Ctx, FuncInfo, is_self_attr, unparse,
                           walk_no_nested)
from mlmverif.props._shard import IO, summary
from mlmverif.sym import Poly

EXPLANATION = (
    'Symbolic loop summary of SequenceDataSource.shard into piecewise-affine'
    ' terms over S,E (parent bounds), q,r=divmod(E-S,K), k, K, offset; decided'
    ' by exhaustive enumeration of the difference classes of (k, r): start_k ='
    ' S + k*q + min(k,r) + offset, end_k = S + (k+1)*q + min(k+1,r); hence'
    ' start_0=S, end_k=start_{k+1}, end_{K-1}=E, size_k in {q,q+1} larger first'
    ' (proved from the closed form on every run). The divmod operand must be'
    ' the parent interval (nested shards). ShardConfig record and from_state'
    ' replay agree field-for-field incl. the parent chain; __len__ and the'
    ' iterator slice use the same (start,end); every next() on the underlying'
    ' iterator is paired with exactly one index increment; the round-robin'
    ' test uses index % num_shards != shard_index. NOT decided:'
    ' MergedSequences bisect indexing / negative indices / read-ahead'
    ' (arithmetic over runtime lengths).'
)
ASSUMPTIONS = ['_RangeIterator read-ahead size is >= 1 (max_batch_size >= 1).',
               'shard_index in [0, num_shards) and num_shards >= 1 (validated'
               ' or documented domain); remainder and shard_index are'
               ' non-negative so accelerated sums need no clamping at 0.']


def run(ctx: Ctx):
  for r in (r1, r2, r3, r4, r6, r7, r8, r9, r10, r12, r13, r14, r15, r16, r17, r18, r19):
    ctx.guard(r)
  from mlmverif.props import c10
  ctx.include('R-C09-11', '"rebuilding a shard from its recorded state yields the same'
              ' elements": the start restored from a recorded position equals the'
              ' captured position for every generation (R-C10-1 affine position'
              ' relation: B + start_index\' == _index as a polynomial identity)', c10.r1,
              min_instances=4)


def r1(ctx: Ctx):
  rule = 'R-C09-1'
  ctx.rule(rule, 'partition identities for all n, K, k: shard() computes'
           ' start_k = S + k*q + min(k,r) (+offset) and end_k = start_{k+1},'
           ' with (q,r) = divmod(parent_end - parent_start, K)')
  s = summary(ctx)
  fi = s.fi
  S, E, k, Kn, o, q, r = (af.V(x) for x in ('S', 'E', 'k', 'K', 'o', 'q', 'r'))
  # (a) the divmod operand is the parent's interval, the divisor is K
  ev = af.AffEval({'self.start': S, 'self.end': E, 'self._start': S,
                   s.p_num: Kn, s.p_index: k})
  try:
    length = ev.expr(s.length_expr)
    div = ev.expr(s.divisor)
  except af.AffUnsupported:
    length = div = None
  if length is not None and (length - (E - S)).is_zero() and (div - Kn).is_zero():
    ctx.ok(rule, fi, f'divmod({unparse(s.length_expr)}, {unparse(s.divisor)})'
           ' over the parent interval', s.length_expr)
  else:
    ctx.fail(rule, fi, f'divmod({unparse(s.length_expr)}, {unparse(s.divisor)})',
             'interval/remainder are not computed from the parent\'s own'
             ' [start, end) divided by num_shards: shards of shards overlap or'
             ' leave gaps', node=s.length_expr)
  # (b) closed forms
  start_ref = S + k * q + af.MIN(k, r) + o
  end_ref = S + (k + af.K(1)) * q + af.MIN(k + af.K(1), r)
  for name, got, want in (('_start', s.start, start_ref), ('_end', s.end, end_ref)):
    try:
      # k, r are non-negative (shard index, remainder): also split r == 0 / r >= 1,
      # so that a term testing the remainder itself (`... if remainder else ...`) is decided
      bad = af.equal_everywhere_nonneg(got, want, 'k', 'r')
    except af.AffUnsupported as e:
      raise AnalysisError(f'{rule}: {e}')
    if bad is None:
      ctx.ok(rule, fi, f'{name} == {want!r} in all {len(list(af.regions()))} regions (r == 0 and r >= 1)',
             s.replace_call)
    else:
      case, reg, ex, ey = bad
      ctx.fail(rule, fi, f'shard(): {name}',
               f'shard() computes {name} = {ex!r} but a balanced contiguous'
               f' partition needs {ey!r} when {case} and r - k {_reg_str(reg)}'
               ' (S=parent start, q,r=divmod(length,K), k=shard_index,'
               ' o=offset): shards overlap, leave gaps or are unbalanced',
               node=s.replace_call)
  # (c) the closed form is a partition (proved on every run; guards the
  #     reference itself)
  b = lambda kk: af.subst(start_ref - o, {'k': kk})
  e_ = lambda kk: af.subst(end_ref, {'k': kk})
  nonneg = lambda rg: rg[0] == 'ge' or (rg[0] == 'eq' and rg[1] >= 0)
  nonpos = lambda rg: rg[0] == 'le' or (rg[0] == 'eq' and rg[1] <= 0)
  # in an 'eq' region r is eliminated as k + d, so the right-hand sides are
  # written with r as well and reduced by the same region evaluation
  proofs = [
      # k = 0 and r >= 0  (regions r - k >= 0)
      ('start_0 = S', start_ref - o, S + k * q + k, nonneg, {'k': af.K(0)}),
      ('end_k = start_{k+1}', end_ref, b(k + af.K(1)), None, None),
      # k = K-1 and r <= K-1  (regions r - k <= 0)
      ('end_{K-1} = S + K*q + r', end_ref, S + (k + af.K(1)) * q + r, nonpos,
       None),
      ('size_k = q + [k<r]', end_ref - (start_ref - o), q + af.LT(k, r), None,
       None),
  ]
  for label, lhs, rhs, allowed, post in proofs:
    bad = af.equal_everywhere(lhs, rhs, 'k', 'r', allowed=allowed, post=post)
    if bad is None:
      ctx.ok(rule, fi, f'partition lemma: {label}', fi.node)
    else:
      raise AnalysisError(f'{rule}: reference closed form fails lemma {label}: {bad}')
  ctx.floor(rule, 7)


def _reg_str(reg):
  kind, d = reg
  return {'eq': f'= {d}', 'ge': f'>= {d}', 'le': f'<= {d}'}[kind]


def _shardconfig_fields(repo):
  ci = repo.cls(IO, 'ShardConfig')
  init = [f for f in repo.all_fields(ci) if f.init]
  return [f.name for f in init if not f.kw_only], [f.name for f in init if f.kw_only]


def r2(ctx: Ctx):
  rule = 'R-C09-2'
  ctx.rule(rule, 'record/replay: shard() records (shard_index, num_shards,'
           ' offset, parent=own state) in ShardConfig field order and'
           ' from_state replays the parent chain first, then calls shard with'
           ' the recorded fields in the matching parameter positions')
  repo = ctx.repo
  s = summary(ctx)
  fi = s.fi
  pos, kwf = _shardconfig_fields(repo)
  ctor = s.state_ctor
  if ctor is None:
    raise AnalysisError(f'{rule}: ShardConfig(...) not built in shard()')
  rec = {}
  for name, a in zip(pos, ctor.args):
    rec[name] = unparse(a)
  for k in ctor.keywords:
    rec[k.arg] = unparse(k.value)
  # which ShardConfig field records which shard() parameter
  want = {'shard_index': s.p_index, 'num_shards': s.p_num, 'start_index': s.p_off}
  ok = all(rec.get(f) == p for f, p in want.items())
  parent_vals = s.other_locals.get(rec.get('parent'), {rec.get('parent')})
  parent_ok = bool(parent_vals) and all(v in ('self._shard_state', 'self.state') for v in parent_vals)
  if not parent_ok:
    rec['parent'] = ' | '.join(sorted(str(v) for v in parent_vals))
  if ok and parent_ok:
    ctx.ok(rule, fi, f'ShardConfig records {rec}', ctor)
  else:
    ctx.fail(rule, fi, ctor,
             f'shard() records {rec}; expected shard_index/num_shards/'
             'start_index from the parameters of the same role and'
             ' parent=own state — a shard rebuilt from its state differs')
  # the new state is what replace() stores
  rc = s.replace_call
  st_kw = [k for k in rc.keywords if k.arg == '_shard_state']
  if not st_kw:
    ctx.fail(rule, fi, rc, 'the new shard does not store its ShardConfig')
  # from_state
  fs = repo.func(IO, 'SequenceDataSource.from_state')
  sp = fs.params()[1]
  calls = [c for c in walk_no_nested(fs.node) if isinstance(c, ast.Call)
           and isinstance(c.func, ast.Attribute) and c.func.attr == 'shard']
  if len(calls) != 1:
    raise AnalysisError(f'{rule}: from_state has {len(calls)} .shard() calls')
  c = calls[0]
  shard_params = s.fi.params()[1:]
  passed = {}
  for p, a in zip(shard_params, c.args):
    passed[p] = unparse(a)
  for k in c.keywords:
    passed[k.arg] = unparse(k.value)
  exp = {s.p_index: f'{sp}.shard_index', s.p_num: f'{sp}.num_shards',
         s.p_off: f'{sp}.start_index'}
  if passed == exp:
    ctx.ok(rule, fs, f'replay {unparse(c)}', c)
  else:
    ctx.fail(rule, fs, c, f'from_state replays shard({passed}) but the state'
             f' recorded them as {exp}: the rebuilt shard has other elements')
  # parent chain first, fresh root otherwise
  recv = unparse(c.func.value)
  g = cfgm.cfg_of(fs.node)
  rec_calls = [n for n in g.nodes if any(
      isinstance(x, ast.Call) and isinstance(x.func, ast.Attribute)
      and x.func.attr == 'from_state' and f'{sp}.parent' in unparse(x)
      for x in cfgm.node_exprs(n))]
  # the unsharded root: a fresh source that carries every public
  # configuration field of this one and none of the shard window
  ci = repo.cls(IO, 'SequenceDataSource')
  init_fields = [f for c_ in reversed(repo.mro(ci)) if c_.is_dataclass
                 for f in c_.fields if f.init]
  public = [f.name for f in init_fields if not f.name.startswith('_')]
  private = {f.name: f for f in init_fields if f.name.startswith('_')}
  root = []
  for n_ in g.nodes:
    for x in cfgm.node_exprs(n_):
      for c_ in ast.walk(x):
        if not isinstance(c_, ast.Call):
          continue
        fn_ = unparse(c_.func)
        if fn_.split('.')[-1] in ('SequenceDataSource', '__class__', 'cls') or fn_ in (
            'type(self)',):
          passed_ = {}
          for f_, a_ in zip([f.name for f in init_fields], c_.args):
            passed_[f_] = unparse(a_)
          for k_ in c_.keywords:
            if k_.arg:
              passed_[k_.arg] = unparse(k_.value)
          if any(k_ in passed_ for k_ in private):
            continue
          missing = [f_ for f_ in public if passed_.get(f_) != f'self.{f_}']
          if missing:
            ctx.fail(rule, fs, c_, 'from_state rebuilds the unsharded source without'
                     f' carrying over {missing} of this source: the rebuilt shard'
                     ' is configured differently from the source it was recorded'
                     ' on (e.g. loses ignore_error)')
          root.append(n_)
        elif fn_ in ('dc.replace', 'dataclasses.replace') and c_.args and unparse(
            c_.args[0]) == 'self':
          kws = {k_.arg: k_.value for k_ in c_.keywords}
          reset = True
          for name_, f_ in private.items():
            v_ = kws.get(name_)
            if v_ is None:
              reset = False
            elif f_.default is not None and unparse(v_) == unparse(f_.default):
              pass
            elif (f_.default_factory is not None and isinstance(v_, ast.Call) and not v_.args
                  and not v_.keywords and unparse(v_.func) == unparse(f_.default_factory)):
              pass
            else:
              reset = False
          if reset:
            root.append(n_)
  cond = [n for n in g.nodes if n.kind == 'cond' and f'{sp}.parent' in unparse(n.ast)]
  if rec_calls and root and cond:
    ctx.ok(rule, fs, 'parent chain replayed first, unsharded root otherwise', fs.node)
  else:
    ctx.fail(rule, fs, 'from_state: replay parent chain or start from the unsharded source',
             'from_state does not rebuild the parent shard chain (or does not'
             ' start from the unsharded source): nested shards are rebuilt'
             ' over the wrong interval', node=fs.node)
  ctx.floor(rule, 3)


def r3(ctx: Ctx):
  rule = 'R-C09-3'
  ctx.rule(rule, 'bounds agreement: start/end properties expose _start and'
           ' (len(data) if _end is None else _end); __len__ = end - start;'
           ' SequenceIterator slices data[config.start:config.end] and starts'
           ' its index at config.start')
  repo = ctx.repo
  ln = repo.func(IO, 'SequenceDataSource.__len__')
  rets = [x for x in walk_no_nested(ln.node) if isinstance(x, ast.Return)]
  if len(rets) == 1 and unparse(rets[0].value) in ('self.end - self.start',
                                                   'self.end - self._start'):
    ctx.ok(rule, ln, '__len__ = end - start', ln.node)
  else:
    ctx.fail(rule, ln, '__len__: return self.end - self.start',
             'reported length is not end - start of the shard', node=ln.node)
  st = repo.func(IO, 'SequenceDataSource.start')
  en = repo.func(IO, 'SequenceDataSource.end')
  r_s = [unparse(x.value) for x in walk_no_nested(st.node) if isinstance(x, ast.Return)]
  r_e = [x.value for x in walk_no_nested(en.node) if isinstance(x, ast.Return)]
  if r_s == ['self._start']:
    ctx.ok(rule, st, 'start -> _start', st.node)
  else:
    ctx.fail(rule, st, 'start: return self._start', f'start returns {r_s}', node=st.node)
  ok_e = False
  if len(r_e) == 1 and isinstance(r_e[0], ast.IfExp):
    e = r_e[0]
    t = unparse(e.test)
    if t == 'self._end is None' and unparse(e.body) == 'len(self.data)' and unparse(
        e.orelse) == 'self._end':
      ok_e = True
    if t == 'self._end is not None' and unparse(e.orelse) == 'len(self.data)' and unparse(
        e.body) == 'self._end':
      ok_e = True
  if ok_e:
    ctx.ok(rule, en, 'end -> len(data) if _end is None else _end', en.node)
  else:
    ctx.fail(rule, en, 'end: return len(self.data) if self._end is None else self._end',
             'end does not fall back to the full data length exactly when no'
             ' explicit end is set', node=en.node)
  it = repo.func(IO, 'SequenceIterator.__init__')
  cfgp = it.params()[1]
  sl = [x for x in walk_no_nested(it.node) if isinstance(x, ast.Subscript)
        and isinstance(x.slice, ast.Slice)]
  ok_sl = any(unparse(x.value) == f'{cfgp}.data' and unparse(x.slice.lower) == f'{cfgp}.start'
              and unparse(x.slice.upper) == f'{cfgp}.end' and x.slice.step is None
              for x in sl)
  idx = [x for x in walk_no_nested(it.node) if isinstance(x, ast.Assign)
         and is_self_attr(x.targets[0], '_index')]
  ok_idx = len(idx) == 1 and unparse(idx[0].value) == f'{cfgp}.start'
  if ok_sl and ok_idx:
    ctx.ok(rule, it, f'iterator: data[{cfgp}.start:{cfgp}.end], _index = {cfgp}.start', it.node)
  else:
    ctx.fail(rule, it, 'SequenceIterator.__init__: data[config.start:config.end]; _index = config.start',
             'the iterator does not iterate exactly [start, end) of its shard'
             ' or does not start its position at start', node=it.node)
  ctx.floor(rule, 4)


def _is_inc(n) -> bool:
  return n.kind == 'stmt' and isinstance(n.ast, ast.AugAssign) and (
      is_self_attr(n.ast.target, '_index') and isinstance(n.ast.op, ast.Add) and unparse(n.ast.value) == '1')


def _draw_nodes(g):
  return [n for n in g.nodes if any(
      isinstance(x, ast.Call) and unparse(x.func) == 'next' and x.args
      and unparse(x.args[0]) == 'self._it' for x in cfgm.node_exprs(n))]


def pre_counted(g, nx) -> bool:
  """Every normal way into the draw `nx` comes straight from an `_index += 1`."""
  preds = [a for a in g.nodes for b, lab in a.succ if b is nx and lab not in ('exc', 'close')]
  return bool(preds) and all(_is_inc(a) for a in preds)


def draw_balance(g, nexts):
  """Abstract interpretation of b = (#increments of _index) - (#elements drawn) along the normal paths.

  Counting an element right AFTER drawing it keeps b in {-1, 0}, counting it right BEFORE in {0, +1}; any other value
  means an element drawn without being counted or counted twice, and every normal exit needs b == 0. Returns
  (entry states per node, [(node, problem)])."""
  draws = set(nexts)
  states: dict = {n: set() for n in g.nodes}
  states[g.entry] = {0}
  problems = []
  seen_prob = set()
  work = [g.entry]
  while work:
    n = work.pop()
    for s_, lab in n.succ:
      if lab in ('exc', 'close'):
        continue
      out = set()
      for b in states[n]:
        nb = b
        if _is_inc(n):
          nb = b + 1
        elif n in draws and not (n.kind == 'for_iter' and lab != 'true'):
          nb = b - 1
        if nb < -1 or nb > 1:
          if (n, nb) not in seen_prob:
            seen_prob.add((n, nb))
            problems.append((n, 'an element is consumed without advancing the recorded index' if nb < 0 else
                             'the index is incremented more than once per consumed element'))
          continue
        out.add(nb)
      if s_ is g.exit_ret:
        for nb in out:
          if nb != 0 and (n, 'exit', nb) not in seen_prob:
            seen_prob.add((n, 'exit', nb))
            problems.append((n, 'an element is consumed without advancing the recorded index' if nb < 0 else
                             'the index is incremented more than once per consumed element'))
        continue
      if not out <= states[s_]:
        states[s_] |= out
        work.append(s_)
  return states, problems


def pre_counted_at(states, nx) -> bool:
  """The element `nx` draws has been counted before the draw on every path (a failing draw is counted too)."""
  return bool(states.get(nx)) and states[nx] <= {1}


def draw_helpers(repo, clsname: str) -> set[str]:
  """Methods of the iterator class that draw ONE element and count it: on every normal path exactly one
  next(self._it) followed by exactly one `self._index += 1` (a callee summary: a call of such a helper is a
  paired draw)."""
  ci = repo.cls(IO, clsname)
  out = set()
  for name, m in ci.methods.items():
    if name in ('__next__', '__init__', '__iter__'):
      continue
    g = cfgm.cfg_of(m.node)
    nexts = _draw_nodes(g)
    if len(nexts) != 1:
      continue
    nx = nexts[0]
    ok = g.dominates(lambda n: n is nx, g.exit_ret, edge_ok=cfgm.only_normal) is None
    for st, lab in nx.succ:
      if lab in ('exc', 'close'):
        continue
      if _is_inc(st):
        reach = g.reachable([st], avoid=lambda n: n is g.exit_ret, edge_ok=cfgm.only_normal)
        ok = ok and not any(_is_inc(n) for n in reach if n is not st)
      else:
        ok = ok and st is not g.exit_ret and g.must_pass(st, [g.exit_ret], _is_inc, cfgm.only_normal) is None
    if ok:
      out.add(name)
  return out


def _helper_calls(g, helpers):
  return [n for n in g.nodes if any(
      isinstance(x, ast.Call) and isinstance(x.func, ast.Attribute) and is_self_attr(x.func) and x.func.attr in helpers
      for top in cfgm.node_exprs(n) for x in ast.walk(top))]


def r4(ctx: Ctx):
  rule = 'R-C09-4'
  ctx.rule(rule, 'index bookkeeping: in SequenceIterator.__next__ and'
           ' DataIterator.__next__ every next() on the underlying iterator is'
           ' followed by exactly one `_index += 1` before the next next() or'
           ' the return; the round-robin filter is'
           ' `_index % num_shards != shard_index`')
  repo = ctx.repo
  for qn in ('SequenceIterator.__next__', 'DataIterator.__next__'):
    fi = repo.func(IO, qn)
    g = cfgm.cfg_of(fi.node)
    nexts = [n for n in g.nodes if any(
        isinstance(x, ast.Call) and unparse(x.func) == 'next' and x.args
        and unparse(x.args[0]) == 'self._it' for x in cfgm.node_exprs(n))]
    # `for x in self._it:` consumes one element per entry into the loop body
    nexts += [n for n in g.nodes if n.kind == 'for_iter' and unparse(n.ast.iter) == 'self._it']
    # draws through a counting helper (`self._draw()`: one next + one increment, verified as a summary)
    helpers = draw_helpers(repo, qn.split('.')[0])
    paired = _helper_calls(g, helpers)
    if not nexts and not paired:
      raise AnalysisError(f'{rule}: {qn} has no next(self._it)')
    states, problems = draw_balance(g, nexts)
    for nd_, msg in problems:
      ctx.fail(rule, fi, nd_.ast if nd_.ast is not None else fi.node, f'{qn}: {msg}: checkpoints and round-robin'
               ' membership drift from the real position')
    bad_nodes = {nd_ for nd_, _ in problems}
    for pc in paired:
      if pc not in bad_nodes:
        ctx.ok(rule, fi, f'{pc.text()[:40]} draws and counts one element (helper summary)', pc.ast)
    for nx in nexts:
      if nx not in bad_nodes and not problems:
        ctx.ok(rule, fi, f'{nx.text()} paired with exactly one _index += 1', nx.ast)
  fi = repo.func(IO, 'DataIterator.__next__')
  names = {}
  for x in walk_no_nested(fi.node):
    if isinstance(x, ast.Assign) and isinstance(x.targets[0], ast.Name):
      names[x.targets[0].id] = unparse(x.value)
  ok = False
  for x in walk_no_nested(fi.node):
    if isinstance(x, ast.While) and isinstance(x.test, ast.Compare) and isinstance(
        x.test.ops[0], ast.NotEq) and isinstance(x.test.left, ast.BinOp) and isinstance(
            x.test.left.op, ast.Mod):
      l = x.test.left
      mod_by = names.get(unparse(l.right), unparse(l.right))
      eq_to = names.get(unparse(x.test.comparators[0]), unparse(x.test.comparators[0]))
      if unparse(l.left) == 'self._index' and mod_by.endswith('.num_shards') and (
          eq_to.endswith('.shard_index')):
        ok = True
  if ok:
    ctx.ok(rule, fi, 'round-robin: _index % num_shards != shard_index', fi.node)
  else:
    ctx.fail(rule, fi, 'DataIterator.__next__: while self._index % num_shards != shard_index',
             'the round-robin membership test is not index % num_shards =='
             ' shard_index: shards overlap or miss elements', node=fi.node)
  ctx.floor(rule, 4)


# R-C09-5 (None-defaults of integer bounds by truthiness) was withdrawn: after fix
# da5c558 an explicit bound of 0 can no longer reach _RangeIterator/_index_slice,
# so `stop or len(data)` is behaviour-preserving and the rule would be a false
# alarm (see DESIGN.md section 5).


class _Opaque(af.AffEval):
  """AffEval that keeps unsupported sub-expressions as opaque atoms."""

  def __init__(self, names):
    super().__init__(names)
    self.opaque = False

  def expr(self, e):
    try:
      return super().expr(e)
    except af.AffUnsupported:
      if isinstance(e, ast.BinOp) and isinstance(e.op, (ast.Add, ast.Sub, ast.Mult)):
        l, r = self.expr(e.left), self.expr(e.right)
        return l + r if isinstance(e.op, ast.Add) else l - r if isinstance(e.op, ast.Sub) else l * r
      if isinstance(e, ast.Call) and unparse(e.func) in ('min', 'np.minimum') and not e.keywords:
        return af.MIN(*[self.expr(a) for a in e.args])
      self.opaque = True
      return Poly.atom(('opaque', ast.dump(e)))


def _has_opaque(p) -> bool:
  """Does an un-evaluable sub-expression take part in this polynomial (also inside min)?"""
  def atoms(q):
    for m in q.t:
      for a, _ in m:
        yield a
        if a[0] == 'min':
          for k in a[1]:
            yield from atoms(af._KEY2POLY[k])
  return any(a[0] == 'opaque' for a in atoms(p))


def _paths(stmts):
  """Statement paths through a block of assignments / if-else (no loops)."""
  if not stmts:
    yield []
    return
  s, rest = stmts[0], stmts[1:]
  if isinstance(s, ast.If):
    for br, pol in ((s.body, True), (s.orelse, False)):
      for p in _paths(br):
        for q in _paths(rest):
          yield [('cond', s.test, pol)] + p + q
    return
  if isinstance(s, (ast.For, ast.While, ast.Try, ast.With, ast.Match)):
    raise AnalysisError(f'R-C09-6: unsupported statement `{unparse(s)[:40]}` in the read block')
  for q in _paths(rest):
    yield [s] + q


def r6(ctx: Ctx):
  rule = 'R-C09-6'
  ctx.rule(rule, 'read window of _RangeIterator.__next__: on every path of the'
           ' read block the elements cached are data[i:hi] with i the current'
           ' index and hi <= stop (hi is min(..., stop), or i+1 under the loop'
           ' guard i < stop), and the index then advances by exactly hi - i:'
           ' a range never reads past its stop (shards stay disjoint) and'
           ' never skips or repeats an element')
  fi = ctx.repo.func('utils.iter_utils', '_RangeIterator.__next__')
  loops = [x for x in walk_no_nested(fi.node) if isinstance(x, ast.While)]
  tries = [x for l in loops for x in l.body if isinstance(x, ast.Try)]
  if len(loops) != 1 or len(tries) != 1:
    raise AnalysisError(f'{rule}: expected one while loop with one try block')
  loop, tr = loops[0], tries[0]
  guard_ok = any(isinstance(c, ast.Compare) and len(c.ops) == 1 and (
      isinstance(c.ops[0], ast.Lt) and is_self_attr(c.left, 'i') and is_self_attr(c.comparators[0], 'stop')
      or isinstance(c.ops[0], ast.Gt) and is_self_attr(c.left, 'stop') and is_self_attr(c.comparators[0], 'i'))
                 for c in ([loop.test] + (loop.test.values if isinstance(loop.test, ast.BoolOp)
                                          and isinstance(loop.test.op, ast.And) else [])))
  i, stop, bsz = af.V('i'), af.V('stop'), af.V('B')
  n = 0
  for path in _paths(tr.body):
    ev = _Opaque({'self.i': i, 'self.stop': stop, 'self._batch_size': bsz,
                  'self.start': af.V('start')})
    reads = []
    adv = Poly()
    where = tr
    unit: dict[str, Poly] = {}
    for st in path:
      if isinstance(st, tuple):
        # a size known to be >= 1 that is not > 1 is exactly 1
        _, t, pol = st
        if isinstance(t, ast.Compare) and len(t.ops) == 1 and isinstance(
            t.comparators[0], ast.Constant):
          c, op = t.comparators[0].value, type(t.ops[0])
          one = (not pol and (op, c) in ((ast.Gt, 1), (ast.GtE, 2), (ast.NotEq, 1))) or (
              pol and (op, c) in ((ast.LtE, 1), (ast.Lt, 2), (ast.Eq, 1)))
          if one:
            try:
              lv = ev.expr(t.left)
            except AnalysisError:
              lv = None
            vs = af.vars_of(lv) if lv is not None else set()
            if lv is not None and len(vs) == 1 and (lv - af.V(next(iter(vs)))).is_zero():
              unit[next(iter(vs))] = af.K(1)
        continue
      for x in ast.walk(st):
        if isinstance(x, ast.Subscript) and is_self_attr(x.value, 'data'):
          where = st
          if isinstance(x.slice, ast.Slice):
            if x.slice.step is not None or x.slice.lower is None or x.slice.upper is None:
              raise AnalysisError(f'{rule}: unsupported slice {unparse(x)}')
            reads.append((ev.expr(x.slice.lower), ev.expr(x.slice.upper), x))
          else:
            lo = ev.expr(x.slice)
            reads.append((lo, lo + af.K(1), x))
      if isinstance(st, ast.Assign) and len(st.targets) == 1 and isinstance(st.targets[0], ast.Name):
        ev.env[st.targets[0].id] = ev.expr(st.value)
      elif isinstance(st, ast.AugAssign) and is_self_attr(st.target, 'i'):
        v = ev.expr(st.value)
        adv = adv + v if isinstance(st.op, ast.Add) else adv - v
      elif isinstance(st, ast.Assign) and any(is_self_attr(t, 'i') for t in st.targets):
        adv = ev.expr(st.value) - i
    n += 1
    desc = ' / '.join(('' if pol else 'not ') + unparse(t) for k, t, pol in
                      [p for p in path if isinstance(p, tuple)]) or 'straight'
    if len(reads) != 1:
      ctx.fail(rule, fi, f'_RangeIterator.__next__ read block [{desc}]: one read of self.data',
               f'{len(reads)} reads of self.data on one path through the read'
               ' block: elements are cached twice or not at all', node=where)
      continue
    lo, hi, node = reads[0]
    if unit:
      lo, hi, adv = af.subst(lo, unit), af.subst(hi, unit), af.subst(adv, unit)
    problems = []
    if not (lo - i).is_zero():
      problems.append('the read does not start at the current index self.i')
    clamped = False
    if len(hi.t) == 1:
      (mono, c), = hi.t.items()
      if c == 1 and len(mono) == 1 and mono[0][1] == 1 and mono[0][0][0] == 'min':
        clamped = af.reg(stop) in mono[0][0][1]
    if not clamped and not ((hi - lo - af.K(1)).is_zero() and guard_ok):
      problems.append('the upper bound of the read is not clamped to self.stop'
                      ' (elements of the next range are read as well)')
    if not (adv - (hi - lo)).is_zero():
      problems.append('self.i does not advance by exactly the number of elements read')
    if problems and any(_has_opaque(q) for q in (lo, hi, adv)):
      raise AnalysisError(f'{rule}: cannot evaluate the read window on path [{desc}]')
    if problems:
      ctx.fail(rule, fi, f'_RangeIterator.__next__ read block [{desc}]: window [i, min(.., stop)) and i += width',
               '; '.join(problems) + ': ranges overlap, skip or repeat elements',
               node=node)
    else:
      ctx.ok(rule, fi, f'path [{desc}]: reads {unparse(node)} within [i, stop), advances by its width', node)
  # giving up on an element: only after the single-element read form was tried
  sel = [x for x in tr.body if isinstance(x, ast.If) and isinstance(x.test, ast.Compare)
         and any(isinstance(y, ast.Subscript) and is_self_attr(y.value, 'data') for y in ast.walk(x))]
  if len(sel) == 1 and tr.handlers:
    s_left = unparse(sel[0].test.left)
    for h in tr.handlers:
      for x in ast.walk(h):
        if isinstance(x, ast.If) and any(isinstance(y, ast.Raise) and y.exc is None for y in x.body):
          n += 1
          t = x.test
          ok_ = isinstance(t, ast.Compare) and len(t.ops) == 1 and unparse(t.left) == s_left and isinstance(
              t.comparators[0], ast.Constant) and (
                  (isinstance(t.ops[0], ast.Eq) and t.comparators[0].value == 1)
                  or (isinstance(t.ops[0], ast.LtE) and t.comparators[0].value == 1)
                  or (isinstance(t.ops[0], ast.Lt) and t.comparators[0].value == 2))
          if ok_:
            ctx.ok(rule, fi, f'gives up only when `{s_left}` selects the single-element read', x)
          else:
            ctx.fail(rule, fi, f'_RangeIterator.__next__: give up only when {s_left} == 1',
                     f'the handler skips the element and re-raises under `{unparse(t)}`, but'
                     f' the single-element read `data[i]` is selected by `{unparse(sel[0].test)}`:'
                     ' a failed SLICE read of a one-element window (index-only'
                     ' source, last element of a range) is given up without'
                     ' ever trying data[i] — the element is lost', node=x)
  ctx.floor(rule, 2, n)


def r7(ctx: Ctx):
  rule = 'R-C09-7'
  ctx.rule(rule, 'merged-sequence index table: the list MergedSequences bisects'
           ' to locate an element is provably ascending — [0] followed by the'
           ' running sums of the sub-sequence lengths, never reordered or'
           ' edited afterwards (ordered-argument provenance, see R-C07-7)')
  from mlmverif.props.c07 import ORDERED_ARG
  from mlmverif.sortedness import Sortedness
  so = Sortedness(ctx.repo)
  mi = ctx.repo.module('utils.iter_utils')
  ci = ctx.repo.cls('utils.iter_utils', 'MergedSequences')
  n = 0
  for fi in ci.methods.values():
    for c in ast.walk(fi.node):
      if not isinstance(c, ast.Call) or unparse(c.func) not in ORDERED_ARG:
        continue
      pos, kw = ORDERED_ARG[unparse(c.func)]
      arg = c.args[pos] if len(c.args) > pos else next(
          (k.value for k in c.keywords if k.arg == kw), None)
      if arg is None:
        raise AnalysisError(f'{rule}: ordered argument of {unparse(c)[:50]} not found')
      n += 1
      ok, why = so.expr(arg, fi)
      if ok:
        ctx.ok(rule, fi, f'{unparse(c.func)}: `{unparse(arg)}` ordered: {why}', c)
      else:
        ctx.fail(rule, fi, f'{fi.qualname}: {unparse(c.func)}(<ordered>, ..)',
                 f'`{unparse(arg)}` is bisected but not provably ascending ({why}):'
                 ' elements of a merged sequence are looked up in the wrong'
                 ' sub-sequence', node=c)
  ctx.floor(rule, 1, n)


def r8(ctx: Ctx):
  rule = 'R-C09-8'
  ctx.rule(rule, 'bucket lookup over a NON-strict offset table: the table of'
           ' sub-sequence start offsets is [0] + running sums of lengths, so'
           ' empty sub-sequences give equal entries (E8: ordered, not strictly).'
           ' A position equal to a table entry must be resolved to the LAST'
           ' sub-sequence starting there (bisect_right(...) - 1 / bisect(...) - 1),'
           ' never directly to what bisect_left returns (the first, possibly'
           ' empty one) — otherwise the first element behind an empty'
           ' sub-sequence cannot be indexed')
  from mlmverif import pat
  ci = ctx.repo.cls('utils.iter_utils', 'MergedSequences')
  fi = ci.methods.get('_index')
  if fi is None:
    raise AnalysisError(f'{rule}: MergedSequences._index not found')
  lefts = [(n, b) for n, b in pat.search(fi.node, '$p = bisect.bisect_left($t, $i)')]
  rights = [n for n, b in pat.search(fi.node, 'bisect.bisect_right($t, $i)', nested=True)] + [
      n for n, b in pat.search(fi.node, 'bisect.bisect($t, $i)', nested=True)]
  if not lefts and not rights:
    raise AnalysisError(f'{rule}: no bisect lookup in MergedSequences._index')
  n = 0
  for node, b in lefts:
    n += 1
    pos, tab, idx = b['p'], b['t'], b['i']
    # the equality branch: `if <idx> == <tab>[<pos>]:`
    eqs = [x for x in walk_no_nested(fi.node) if isinstance(x, ast.If) and (
        pat.match(f'{idx} == {tab}[{pos}]', x.test) is not None
        or pat.match(f'{tab}[{pos}] == {idx}', x.test) is not None)]
    bad = None
    for e in eqs:
      # admissible: the branch re-resolves pos with bisect_right / skips equal starts
      re_resolved = any(isinstance(y, ast.Assign) and any(
          isinstance(t, ast.Name) and t.id == pos for t in y.targets) and any(
              isinstance(c, ast.Call) and unparse(c.func) in ('bisect.bisect_right', 'bisect.bisect')
              for c in ast.walk(y.value)) for st in e.body for y in ast.walk(st))
      skips = any(isinstance(y, ast.While) and tab in unparse(y.test) for st in e.body for y in ast.walk(st))
      uses_pos = any(isinstance(y, ast.Return) and y.value is not None and any(
          isinstance(z, ast.Name) and z.id == pos for z in ast.walk(y.value))
                     for st in e.body for y in ast.walk(st))
      if uses_pos and not (re_resolved or skips):
        bad = e
    if bad is not None:
      ctx.fail(rule, fi, f'MergedSequences._index: position equal to a table entry resolved to the last sub-sequence starting there',
               f'`{pos} = bisect.bisect_left({tab}, {idx})` followed by `if {unparse(bad.test)}:'
               f' return ({pos}, 0)`: with an empty sub-sequence the table holds equal'
               ' entries and bisect_left picks the empty one, so the first element'
               ' of the next sub-sequence (and any negative index landing there)'
               ' raises IndexError instead of indexing like the concatenation',
               node=bad)
    else:
      ctx.ok(rule, fi, f'equal-entry case re-resolved past empty sub-sequences', node)
  for r_ in rights:
    n += 1
    ctx.ok(rule, fi, f'{unparse(r_)[:50]} picks the last sub-sequence starting at the position', r_)
  ctx.floor(rule, 1, n)


def r9(ctx: Ctx):
  rule = 'R-C09-9'
  ctx.rule(rule, 'slice bounds are normalised like a list\'s: the positions'
           ' MergedSequences.slice looks up come from `<slice>.indices(len)`'
           ' (or are clamped with max/min on both sides) and an empty result is'
           ' returned when start >= stop — raw negative or reversed bounds'
           ' would otherwise be looked up as if they were positions')
  ci = ctx.repo.cls('utils.iter_utils', 'MergedSequences')
  fi = ci.methods.get('slice')
  if fi is None:
    raise AnalysisError(f'{rule}: MergedSequences.slice not found')
  sp = fi.params()[1]
  lookups = [c for c in walk_no_nested(fi.node) if isinstance(c, ast.Call)
             and unparse(c.func) == 'self._index' and c.args]
  if len(lookups) < 2:
    raise AnalysisError(f'{rule}: expected two position lookups in slice()')
  norm_names = set()
  for x in walk_no_nested(fi.node):
    if isinstance(x, ast.Assign) and isinstance(x.value, ast.Call) and isinstance(
        x.value.func, ast.Attribute) and x.value.func.attr == 'indices' and unparse(
            x.value.func.value) == sp:
      for t in x.targets:
        norm_names |= {y.id for y in ast.walk(t) if isinstance(y, ast.Name)}
  n = 0
  for c in lookups:
    n += 1
    a = c.args[0]
    names = {y.id for y in ast.walk(a) if isinstance(y, ast.Name)}
    clamped = any(isinstance(y, ast.Call) and unparse(y.func) in ('max', 'min') for y in ast.walk(a))
    raw = any(isinstance(y, ast.Attribute) and unparse(y.value) == sp and y.attr in ('start', 'stop')
              for y in ast.walk(a))
    if (names & norm_names and not raw) or (clamped and not (names & norm_names) and raw is not None and clamped):
      ctx.ok(rule, fi, f'lookup of `{unparse(a)[:40]}` uses a normalised bound', c)
    else:
      ctx.fail(rule, fi, f'MergedSequences.slice: positions come from {sp}.indices(len(self))',
               f'slice() looks up `{unparse(a)[:50]}`, a raw bound of the slice: a'
               ' negative bound beyond the length or a start behind the stop is'
               ' treated as a position, so merged[a:b] yields elements where'
               ' the concatenation yields none (e.g. [[1, 2], [3]][-1:0] gives'
               ' [3])', node=c)
  # empty result for start >= stop
  empties = [x for x in walk_no_nested(fi.node) if isinstance(x, ast.If) and isinstance(x.test, ast.Compare)
             and isinstance(x.test.ops[0], (ast.GtE, ast.LtE, ast.Gt, ast.Lt))
             and {y.id for y in ast.walk(x.test) if isinstance(y, ast.Name)} <= norm_names
             and len({y.id for y in ast.walk(x.test) if isinstance(y, ast.Name)}) == 2
             and any(isinstance(b_, ast.Return) for b_ in x.body)]
  n += 1
  if empties:
    ctx.ok(rule, fi, 'start >= stop returns an empty iterator', empties[0])
  elif not any(f.rule == rule for f in ctx.findings):
    ctx.fail(rule, fi, 'MergedSequences.slice: empty result when start >= stop',
             'a slice whose start is not before its stop is not answered with an'
             ' empty iterator', node=fi.node)
  ctx.floor(rule, 3, n)


def r10(ctx: Ctx):
  rule = 'R-C09-10'
  ctx.rule(rule, '"shards of shards": every shard() of a shardable data source'
           ' derives the new shard from the CURRENT one — the new shard state'
           ' is computed from (or records as parent) the source\'s own shard'
           ' state / bounds; a shard() that builds its state from the arguments'
           ' alone overwrites the shard it is applied to, so a sub-shard is a'
           ' shard of the whole source again (sub-shards of different parents'
           ' overlap, elements are processed several times)')
  repo = ctx.repo
  mi = repo.module(IO)
  n = 0
  for ci in mi.classes.values():
    fi = ci.methods.get('shard')
    if fi is None:
      continue
    n += 1
    ctors = [c for c in ast.walk(fi.node) if isinstance(c, ast.Call) and unparse(c.func).endswith('ShardConfig')]
    if not ctors:
      raise AnalysisError(f'{rule}: {ci.name}.shard builds no ShardConfig')
    own = ('self._shard_state', 'self.state', 'self.start', 'self.end', 'self._start', 'self._end')
    locals_from_self = {x.targets[0].id for x in walk_no_nested(fi.node) if isinstance(x, ast.Assign)
                        and isinstance(x.targets[0], ast.Name)
                        and any(unparse(y).startswith(own) for y in ast.walk(x.value) if isinstance(y, ast.Attribute))}
    def from_current(c):
      for y in ast.walk(c):
        if isinstance(y, ast.Attribute) and unparse(y).startswith(own):
          return True
        if isinstance(y, ast.Name) and y.id in locals_from_self:
          return True
      return False
    if all(from_current(c) for c in ctors):
      ctx.ok(rule, fi, f'{ci.name}.shard derives the new state from the current shard', ctors[0])
      if not any(k.arg == 'parent' for c in ctors for k in c.keywords):
        # round-robin source (no parent chain): the composed configuration
        # is decided as a polynomial identity: element i' of sub-shard i of n
        # taken from shard (j of m) sits at j + m*(i + n*i'), i.e. the new
        # shard is (j + m*i) of (m*n); the restored position is carried over
        n += 1
        cur = next((x.targets[0].id for x in walk_no_nested(fi.node) if isinstance(x, ast.Assign)
                    and isinstance(x.targets[0], ast.Name) and unparse(x.value) in own), None)
        pfx = cur if cur is not None else 'self._shard_state'
        ps = fi.params()
        j, mm, i_, nn, st0 = af.V('j'), af.V('m'), af.V('i'), af.V('n'), af.V('s')
        env = {f'{pfx}.shard_index': j, f'{pfx}.num_shards': mm, f'{pfx}.start_index': st0,
               ps[1]: i_, ps[2]: nn}
        ev = af.AffEval(env)
        c = ctors[0]
        fields = _shardconfig_fields(repo)[0]
        got = {}
        try:
          for f_, a_ in zip(fields, c.args):
            got[f_] = ev.expr(a_)
          for k in c.keywords:
            if k.arg:
              got[k.arg] = ev.expr(k.value)
        except af.AffUnsupported as e:
          raise AnalysisError(f'{rule}: {ci.name}.shard: {e}')
        want = {'shard_index': j + mm * i_, 'num_shards': mm * nn, 'start_index': st0}
        wrong = [f_ for f_, w_ in want.items() if f_ not in got or not (got[f_] - w_).is_zero()]
        if wrong:
          ctx.fail(rule, fi, f'{ci.name}.shard: (j of m).shard(i, n) == (j + m*i of m*n), position carried',
                   f'{ci.name}.shard composes the shard configuration as'
                   f' {dict((f_, repr(got.get(f_))) for f_ in wrong)}; the elements of shard'
                   ' (j of m) have indices j + m*t, so sub-shard i of n holds the'
                   ' indices j + m*i + (m*n)*t — shard (j + m*i) of (m*n) — and the'
                   ' restored start position must be kept: otherwise sub-shards do'
                   ' not partition their parent or restart from the beginning',
                   node=c)
        else:
          ctx.ok(rule, fi, f'{ci.name}.shard: (j + m*i) of (m*n), start position carried', c)
    else:
      c = next(c for c in ctors if not from_current(c))
      ctx.fail(rule, fi, f'{ci.name}.shard: new shard state derived from the current shard state',
               f'{ci.name}.shard builds `{unparse(c)[:60]}` from its arguments alone and'
               ' discards the shard this source already is: sharding a shard'
               ' (thread sub-shards of a distributed shard) yields a shard of the'
               ' WHOLE source, so the sub-shards of different shards overlap',
               node=c)
  ctx.floor(rule, 2, n)


def r12(ctx: Ctx):
  rule = 'R-C09-12'
  ctx.rule(rule, '"slices and iterates exactly like their concatenation": in MergedSequences.slice'
           ' every sub-sequence strictly between the first and the last one touched is read in'
           ' full — the loop over range(first+1, last) appends a reader for each index, and a'
           ' guard that skips one is only a test that THIS sub-sequence is empty: its own length,'
           ' or `_seq_idxs[i+1] > _seq_idxs[i]` (the offset table starts with a leading 0, so'
           ' entry i is where sub-sequence i starts). `_seq_idxs[i] > _seq_idxs[i-1]` tests the'
           ' PREVIOUS sub-sequence: a non-empty one right behind an empty one is dropped')
  fi = ctx.repo.func('utils.iter_utils', 'MergedSequences.slice')
  loops = [l for l in walk_no_nested(fi.node) if isinstance(l, ast.For) and isinstance(l.target, ast.Name)
           and isinstance(l.iter, ast.Call) and unparse(l.iter.func) == 'range' and any(
               isinstance(c, ast.Call) and isinstance(c.func, ast.Attribute) and c.func.attr == 'append'
               for c in ast.walk(l))]
  # every reader built for a sub-sequence index that RANGES over several sub-sequences (loop or
  # comprehension variable) starts at the beginning of that sub-sequence: only the first piece
  # carries the in-sequence start offset
  for c in ast.walk(fi.node):
    if isinstance(c, ast.Call) and unparse(c.func).endswith('_index_slice') and c.args and isinstance(c.args[0], ast.Name):
      iv_ = c.args[0].id
      ranging = any(isinstance(x, (ast.For, ast.comprehension)) and isinstance(x.target, ast.Name) and x.target.id == iv_
                    for x in ast.walk(fi.node))
      if ranging and len(c.args) > 1 and not (isinstance(c.args[1], ast.Constant) and c.args[1].value in (0, None)):
        ctx.fail(rule, fi, 'MergedSequences.slice: the pieces after the first start at offset 0',
                 f'`{unparse(c)[:60]}` applies the start offset `{unparse(c.args[1])}` to every sub-sequence the'
                 f' variable `{iv_}` ranges over: a window that begins inside one sub-sequence and covers further'
                 ' ones skips the first records of each later sub-sequence', node=c)
        ctx.floor(rule, 1, 1)
        return
  if len(loops) != 1:
    raise AnalysisError(f'{rule}: expected one loop over the middle sub-sequences in MergedSequences.slice')
  lp = loops[0]
  iv = lp.target.id
  from mlmverif.core import parent_map
  pm = parent_map(lp)
  apps = [c for c in ast.walk(lp) if isinstance(c, ast.Call) and isinstance(c.func, ast.Attribute) and c.func.attr == 'append']
  n = 0
  for a in apps:
    n += 1
    guards = []
    q = pm.get(a)
    while q is not None and q is not lp:
      if isinstance(q, ast.If):
        guards.append(q.test)
      q = pm.get(q)
    reads_i = any(isinstance(y, ast.Name) and y.id == iv for x_ in a.args for y in ast.walk(x_))
    if not reads_i:
      ctx.fail(rule, fi, 'MergedSequences.slice: the middle loop reads sub-sequence i', f'`{unparse(a)[:60]}` does not'
               ' read the sub-sequence of the loop index', node=a)
      continue
    bad = None
    for t in guards:
      if not _tests_own_emptiness(t, iv):
        bad = t
    if bad is not None:
      ctx.fail(rule, fi, 'MergedSequences.slice: a middle sub-sequence is skipped only when IT is empty',
               f'the reader of sub-sequence `{iv}` is only appended under `{unparse(bad)[:60]}`, which is not a test'
               f' that sub-sequence {iv} itself is empty (with the leading 0 of the offset table that would be'
               f' `_seq_idxs[{iv} + 1] > _seq_idxs[{iv}]`): a non-empty sub-sequence that follows an empty one'
               ' is dropped from slices and iteration', node=bad)
    else:
      ctx.ok(rule, fi, 'every middle sub-sequence gets a reader' + (' (guard: own emptiness)' if guards else ''), a)
  ctx.floor(rule, 1, n)


def _tests_own_emptiness(t: ast.AST, iv: str) -> bool:
  """Is `t` true exactly when sub-sequence `iv` is non-empty?"""
  def offs(e):
    # e is `<iv> + c` / `<iv> - c` / `<iv>`: return c
    if isinstance(e, ast.Name) and e.id == iv:
      return 0
    if isinstance(e, ast.BinOp) and isinstance(e.op, (ast.Add, ast.Sub)):
      l, r_ = e.left, e.right
      if isinstance(l, ast.Name) and l.id == iv and isinstance(r_, ast.Constant) and isinstance(r_.value, int):
        return r_.value if isinstance(e.op, ast.Add) else -r_.value
      if isinstance(r_, ast.Name) and r_.id == iv and isinstance(l, ast.Constant) and isinstance(e.op, ast.Add):
        return l.value
    return None
  if isinstance(t, ast.Compare) and len(t.ops) == 1 and isinstance(t.ops[0], (ast.Gt, ast.Lt, ast.NotEq)):
    a, b = t.left, t.comparators[0]
    if all(isinstance(x, ast.Subscript) and unparse(x.value).endswith('_seq_idxs') for x in (a, b)):
      oa, ob = offs(a.slice), offs(b.slice)
      if oa is None or ob is None:
        return False
      hi, lo = (oa, ob) if isinstance(t.ops[0], ast.Gt) else (ob, oa)
      if isinstance(t.ops[0], ast.NotEq):
        return {oa, ob} == {0, 1}
      return hi == 1 and lo == 0
  # len(self._sequences[i]) / len(...) > 0 / truthiness of the sub-sequence itself
  txt = unparse(t)
  if isinstance(t, ast.Compare) and len(t.ops) == 1 and isinstance(t.comparators[0], ast.Constant) and t.comparators[0].value == 0 and isinstance(t.ops[0], (ast.Gt, ast.NotEq)):
    t = t.left
  if isinstance(t, ast.Call) and unparse(t.func) == 'len' and t.args:
    t = t.args[0]
  return isinstance(t, ast.Subscript) and unparse(t.value).endswith('_sequences') and offs(t.slice) == 0


def r13(ctx: Ctx):
  rule = 'R-C09-13'
  ctx.rule(rule, '"indexes ... exactly like their concatenation": MergedSequences._index normalises a'
           ' negative index by adding the length ONCE (index + len), so that an out-of-range negative'
           ' index stays negative / out of range and raises like it does on a list. The value on the'
           ' `index < 0` branch is the polynomial len + index; a modulo (or any other wrap-around)'
           ' makes [[0]][-2] return 0 where the concatenation raises IndexError')
  fi = ctx.repo.func('utils.iter_utils', 'MergedSequences._index')
  p = fi.params()[1]
  L, i = af.V('L'), af.V('i')
  n = 0
  for x in walk_no_nested(fi.node):
    if isinstance(x, ast.Assign) and any(isinstance(t, ast.Name) and t.id == p for t in x.targets):
      v = x.value
      arms = []
      if isinstance(v, ast.IfExp) and isinstance(v.test, ast.Compare) and unparse(v.test.left) in (p, '0'):
        t = v.test
        neg_first = (unparse(t.left) == p and isinstance(t.ops[0], ast.Lt) and unparse(t.comparators[0]) == '0') or (
            unparse(t.left) == '0' and isinstance(t.ops[0], ast.Gt))
        arms = [v.body if neg_first else v.orelse]
      else:
        arms = [v]
      for arm in arms:
        n += 1
        ev = af.AffEval({p: i, 'len(self)': L})
        try:
          got = ev.expr(arm)
        except af.AffUnsupported as e:
          ctx.fail(rule, fi, 'MergedSequences._index: a negative index is index + len(self)',
                   f'`{unparse(arm)}` is not the affine normalisation index + len(self) ({e}): a wrap-around'
                   ' (modulo) maps out-of-range negative indices onto valid elements instead of raising'
                   ' IndexError like the concatenated list', node=arm)
          continue
        if (got - (L + i)).is_zero():
          ctx.ok(rule, fi, 'negative index -> len(self) + index', arm)
        else:
          ctx.fail(rule, fi, 'MergedSequences._index: a negative index is index + len(self)',
                   f'a negative index is normalised to {got!r} instead of L + i', node=arm)
  ctx.floor(rule, 1, n)


def r14(ctx: Ctx):
  rule = 'R-C09-14'
  ctx.rule(rule, '"indexes ... exactly like their concatenation": ONE function maps a flat position to (sub-sequence,'
           ' offset) — MergedSequences._index, whose table and bucket arithmetic R-C09-7/8/13 decide. The (sub-sequence,'
           ' offset) pairs are constructed nowhere else in the class, and every element read `self._sequences[a][b]` takes'
           ' a and b from one `_index` result. A second mapper (a "last hit" fast path with remembered bounds, say) is an'
           ' unverified copy of the arithmetic: with a one-sided bound test the offset goes negative, Python wraps it'
           ' around silently and merged[i] depends on what was read before. (Layering rule: a second correct mapper would'
           ' have to be added to the verified set.) Readers also keep no state: __getitem__/slice/_index/__len__/__iter__'
           ' store no attribute of self')
  repo = ctx.repo
  ci = repo.cls('utils.iter_utils', 'MergedSequences')
  idx = ci.methods.get('_index')
  if idx is None:
    raise AnalysisError('MergedSequences._index not found')
  pair_ctor = None
  for r in ast.walk(idx.node):
    if isinstance(r, ast.Return) and isinstance(r.value, ast.Call) and isinstance(r.value.func, ast.Name):
      pair_ctor = r.value.func.id
  if pair_ctor is None:
    raise AnalysisError('MergedSequences._index does not return a constructed (sub-sequence, offset) pair')
  n = 0
  for name, fi in ci.methods.items():
    if name == '_index':
      continue
    n += 1
    made = [c for c in ast.walk(fi.node) if isinstance(c, ast.Call) and isinstance(c.func, ast.Name) and c.func.id == pair_ctor]
    what = f'MergedSequences.{name}: positions are mapped by _index only'
    if made:
      ctx.fail(rule, fi, what,
               f'MergedSequences.{name} builds `{unparse(made[0])[:80]}` itself: a second flat-position -> (sub-sequence, offset)'
               ' mapping next to _index. Its bounds are not the verified bucket arithmetic; an offset that is not provably'
               ' within [0, len(sub-sequence)) reads a wrong element silently (a negative offset wraps around)', node=made[0])
      continue
    bad = None
    results = {t.id for x in ast.walk(fi.node) if isinstance(x, ast.Assign) and isinstance(x.value, ast.Call)
               and unparse(x.value.func) == 'self._index' for t in x.targets if isinstance(t, ast.Name)}
    for sub in ast.walk(fi.node):
      if isinstance(sub, ast.Subscript) and isinstance(sub.value, ast.Subscript) and is_self_attr(sub.value.value, '_sequences'):
        a, b = sub.value.slice, sub.slice
        roots = set()
        for e in (a, b):
          root = e
          while isinstance(root, ast.Attribute):
            root = root.value
          roots.add(root.id if isinstance(root, ast.Name) else None)
        if len(roots) != 1 or None in roots or not (roots <= results):
          bad = sub
    stores = [t for x in ast.walk(fi.node) if isinstance(x, (ast.Assign, ast.AugAssign, ast.AnnAssign))
              for t in (x.targets if isinstance(x, ast.Assign) else [x.target]) if is_self_attr(t)]
    if bad is not None:
      ctx.fail(rule, fi, what,
               f'`{unparse(bad)}` in MergedSequences.{name} does not take the sub-sequence and the offset from one'
               ' self._index(...) result', node=bad)
    elif stores and name in ('__getitem__', 'slice', '__len__', '__iter__', '_index_slice'):
      ctx.fail(rule, fi, f'MergedSequences.{name}: readers keep no state',
               f'MergedSequences.{name} stores `{unparse(stores[0])}`: a read changes the object, so the next read can depend on it'
               ' (merged[i] must be a function of i alone)', node=stores[0])
    else:
      ctx.ok(rule, fi, what, fi.node)
  ctx.floor(rule, 5, n)


def r15(ctx: Ctx):
  rule = 'R-C09-15'
  ctx.rule(rule, '"merged sequences iterate and index exactly like their concatenation": the merged view knows its parts by'
           ' their RECORDED lengths (the cumulative table built once in the constructor) and reads them by random access'
           ' only: outside the constructor every use of `self._sequences` is an index into it (`self._sequences[i]`),'
           ' its length, or the accessor property returning it. Chaining the parts\' own iterators (itertools.chain, a'
           ' for-loop over the parts) makes iteration disagree with indexing and len(): a part whose __iter__ is not its'
           ' __getitem__ order, or that is longer or shorter when iterated than the recorded length, yields other elements'
           ' than merged[0..len)')
  ci = ctx.repo.cls('utils.iter_utils', 'MergedSequences')
  n = 0
  for name, fi in ci.methods.items():
    if name == '__init__':
      continue
    pm = None
    for x in ast.walk(fi.node):
      if not (is_self_attr(x) and x.attr == '_sequences' and isinstance(x.ctx, ast.Load)):
        continue
      if pm is None:
        pm = parent_map(fi.node)
      par = pm.get(x)
      n += 1
      what = f'MergedSequences.{name}: `self._sequences` is read by random access'
      ok = ((isinstance(par, ast.Subscript) and par.value is x)
            or (isinstance(par, ast.Call) and unparse(par.func) == 'len' and par.args and par.args[0] is x)
            or (isinstance(par, ast.Return) and any('property' in unparse(d) for d in fi.node.decorator_list)))
      if ok:
        ctx.ok(rule, fi, what, x)
      else:
        ctx.fail(rule, fi, what,
                 f'`{unparse(par)[:70]}` in MergedSequences.{name} hands the parts themselves on (iteration, not an index'
                 ' within the recorded length): what the merged view yields is then decided by each part\'s own iterator and'
                 ' no longer by the length table that __len__ and __getitem__ use', node=par)
  ctx.floor(rule, 3, n)


def r16(ctx: Ctx):
  rule = 'R-C09-16'
  ctx.rule(rule, '"rebuilding a shard from its recorded state yields the same elements ... report their true length": the position a'
           ' sequence iterator records counts the elements it has passed, and reaching the END passes nothing. In `__next__`'
           ' of the io.py iterators no `self._index` increment stands in a `finally` block, in a bare / BaseException /'
           ' StopIteration handler — places the exhaustion exit runs through. An iterator read to its end would otherwise'
           ' record `size + 1` (and one more per further next()): the shard rebuilt from that state has start > end, its'
           ' len() raises instead of reporting 0')
  mi = ctx.repo.module(IO)
  n = 0
  for ci in mi.classes.values():
    fi = ci.methods.get('__next__')
    if fi is None or not any(is_self_attr(x) and x.attr == '_index' for x in ast.walk(fi.node)):
      continue
    n += 1
    bad = None
    def incs(nodes):
      return [x for b in nodes for x in ast.walk(b) if isinstance(x, ast.AugAssign) and is_self_attr(x.target) and x.target.attr == '_index']
    for t in ast.walk(fi.node):
      if isinstance(t, ast.Try):
        if incs(t.finalbody):
          bad = (incs(t.finalbody)[0], 'a `finally` block (it also runs when the draw raised StopIteration)')
        for h in t.handlers:
          names = unparse(h.type) if h.type is not None else ''
          catches_stop = h.type is None or 'BaseException' in names or 'StopIteration' in names
          if catches_stop and incs(h.body):
            bad = (incs(h.body)[0], f'the handler `except {names or ""}:` (it catches the StopIteration of the draw)')
    what = f'{ci.name}.__next__: the exhaustion exit does not advance the recorded position'
    if bad:
      ctx.fail(rule, fi, what,
               f'`{unparse(bad[0])}` stands in {bad[1]}: an iterator read to its end records a position past the end of its shard,'
               ' the shard rebuilt from that state has a negative length (len() and iteration raise ValueError)', node=bad[0])
    else:
      ctx.ok(rule, fi, what, fi.node)
  ctx.floor(rule, 2, n)


def r17(ctx: Ctx):
  rule = 'R-C09-17'
  ctx.rule(rule, '"merged sequences iterate, index and slice exactly like their concatenation": the read-ahead cache of the range'
           ' iterator holds a whole batch read — it is an unbounded deque (no `maxlen`, no second positional argument). A'
           ' bound drops the OLDEST entries when a batch larger than the bound is read (a configured read-ahead above the'
           ' default): the first elements of that batch vanish silently from the iteration, from slices and from every'
           ' shard built on the merged sequence')
  ci = ctx.repo.cls('utils.iter_utils', '_RangeIterator')
  n = 0
  for name, fi in ci.methods.items():
    for c in ast.walk(fi.node):
      if isinstance(c, ast.Call) and unparse(c.func).split('.')[-1] == 'deque':
        n += 1
        what = f'_RangeIterator.{name}: the read-ahead cache is unbounded'
        if kwarg(c, 'maxlen') is not None or len(c.args) >= 2:
          ctx.fail(rule, fi, what,
                   f'`{unparse(c)[:60]}` bounds the read-ahead cache: a batch read larger than the bound pushes its own first'
                   ' elements out before they are delivered', node=c)
        else:
          ctx.ok(rule, fi, what, c)
  ctx.floor(rule, 1, n)


def r18(ctx: Ctx):
  rule = 'R-C09-18'
  ctx.rule(rule, '"rebuilding a shard from its recorded state yields the same elements": two recorded states are EQUAL only when'
           ' they rebuild the same shard — every field of the state dataclass (ShardConfig), the recorded parent chain'
           ' included, takes part in its equality: no field is declared with `compare=False`. from_state() tests a state'
           ' against the default one to recognise the unsharded source; a 1-way split of a shard (own fields 0/1/0) would'
           ' otherwise equal the default and rebuild as the WHOLE source')
  ci = ctx.repo.cls(IO, 'ShardConfig')
  n = 0
  for st in ci.node.body:
    if not (isinstance(st, ast.AnnAssign) and isinstance(st.target, ast.Name)):
      continue
    n += 1
    off = None
    if isinstance(st.value, ast.Call):
      k = kwarg(st.value, 'compare')
      if isinstance(k, ast.Constant) and k.value is False:
        off = st
    anchor = next(iter(ctx.repo.cls(IO, 'SequenceDataSource').methods.values()))
    what = f'ShardConfig.{st.target.id} takes part in the equality of recorded states'
    if off is not None:
      ctx.fail(rule, anchor, what,
               f'`{unparse(st)[:70]}` excludes `{st.target.id}` from equality: states that rebuild different shards compare equal —'
               ' a nested state whose own fields are the defaults is taken for the unsharded source', node=st)
    else:
      ctx.ok(rule, anchor, what, st)
  eqoff = [d for d in ci.node.decorator_list if isinstance(d, ast.Call) and isinstance(kwarg(d, 'eq'), ast.Constant) and kwarg(d, 'eq').value is False]
  if eqoff:
    ctx.fail(rule, next(iter(ctx.repo.cls(IO, 'SequenceDataSource').methods.values())), 'ShardConfig compares by value',
             'ShardConfig is declared with eq=False: recorded states compare by identity', node=eqoff[0])
  ctx.floor(rule, 4, n)


def r19(ctx: Ctx):
  rule = 'R-C09-19'
  ctx.rule(rule, '"for all read-ahead sizes ... sub-sequences that only support integer indexing": the range iterator tries a SLICE'
           ' read first and falls back to smaller reads, down to single integer indices, when that read fails — for'
           ' WHATEVER the source raises for a slice (TypeError, KeyError of a dict keyed 0..n-1, a library-specific error).'
           ' The handler around the read of `_RangeIterator.__next__` is therefore `except Exception` (or broader), not a'
           ' fixed tuple of types: a source that rejects slices with another type would never be read element by element')
  ci = ctx.repo.cls('utils.iter_utils', '_RangeIterator')
  fi = ci.methods.get('__next__')
  n = 0
  for t in ast.walk(fi.node):
    if not isinstance(t, ast.Try):
      continue
    if not any(isinstance(y, ast.Subscript) and 'self.data' in unparse(y.value) for b in t.body for y in ast.walk(b)):
      continue
    n += 1
    broad = any(h.type is None or unparse(h.type) in ('Exception', 'BaseException') for h in t.handlers)
    what = '_RangeIterator.__next__: any failure of a read falls back to smaller reads'
    if broad:
      ctx.ok(rule, fi, what, t)
    else:
      ctx.fail(rule, fi, what,
               f'the read is guarded by `except {unparse(t.handlers[0].type)}` only: a sub-sequence that rejects a slice with another'
               ' exception type (KeyError, a custom error) aborts the iteration instead of being read index by index', node=t.handlers[0])
  ctx.floor(rule, 1, n)


from mlmverif.selfcheck import B, OK  # noqa: E402

_F = 'chainables/io.py'
VARIANTS = [
    OK('recorded-position-in-two-steps', 'chainables/io.py',
       "    start_index = self._index - self.config.start + self.config.state.start_index\n", "    read_in_shard = self._index - self.config.start\n    start_index = read_in_shard + self.config.state.start_index\n"),
    B('read-fallback-for-listed-error-types-only', 'utils/iter_utils.py',
      "        self.i += batch_size\n      except Exception as e:  # pylint: disable=broad-exception-caught", "        self.i += batch_size\n      except (ValueError, TypeError, IndexError, NotImplementedError) as e:", 'R-C09-19'),
    B('parent-chain-excluded-from-state-equality', 'chainables/io.py',
      "  parent: ShardConfig | None = dc.field(default=None, kw_only=True)", "  parent: ShardConfig | None = dc.field(default=None, kw_only=True, compare=False)", 'R-C09-18'),
    OK('sequence-iterator-counts-after-a-successful-draw-in-else', 'chainables/io.py',
       "      self._index += 1\n      raise\n    self._index += 1\n    return result\n\n  def __iter__(self) -> Self:", "      self._index += 1\n      raise\n    else:\n      self._index += 1\n    return result\n\n  def __iter__(self) -> Self:"),
    OK('range-cache-explicitly-unbounded', 'utils/iter_utils.py',
       "    self._cache = collections.deque()\n\n  def __next__(self):\n    while not self._cache and self.i < self.stop:", "    self._cache = collections.deque(())\n\n  def __next__(self):\n    while not self._cache and self.i < self.stop:"),
    B('sequence-iterator-counts-in-finally', 'chainables/io.py',
      "    except StopIteration:\n      raise\n    except Exception:\n      # The reader steps over a record it cannot read before raising, the\n      # iteration can continue behind it: the record still occupies an index.\n      self._index += 1\n      raise\n    self._index += 1\n    return result",
      "      return result\n    finally:\n      self._index += 1", 'R-C09-16'),
    B('range-cache-bounded-by-the-default-batch', 'utils/iter_utils.py',
      "    self._cache = collections.deque()\n\n  def __next__(self):\n    while not self._cache and self.i < self.stop:", "    self._cache = collections.deque(maxlen=_RANDOM_ACCESS_BATCH_SIZE)\n\n  def __next__(self):\n    while not self._cache and self.i < self.stop:", 'R-C09-17'),
    B('merged-iter-chains-the-parts', 'utils/iter_utils.py',
      "  def __iter__(self):\n    return self.slice(slice(None))\n\n\nclass MultiplexIterator", "  def __iter__(self):\n    return itt.chain.from_iterable(self._sequences)\n\n\nclass MultiplexIterator", 'R-C09-15'),
    OK('merged-iter-by-index', 'utils/iter_utils.py',
       "  def __iter__(self):\n    return self.slice(slice(None))\n\n\nclass MultiplexIterator", "  def __iter__(self):\n    return (self[i] for i in range(len(self)))\n\n\nclass MultiplexIterator"),
    OK('data-iterator-counts-before-drawing-its-own-element', 'chainables/io.py',
       '      _ = self._draw()\n    return self._draw()', '      _ = self._draw()\n    self._index += 1\n    return next(self._it)'),
    B('data-iterator-counts-own-element-twice', 'chainables/io.py',
      '      _ = self._draw()\n    return self._draw()', '      _ = self._draw()\n    self._index += 1\n    return self._draw()', 'R-C09-4'),
    B('getitem-last-hit-fast-path', 'utils/iter_utils.py',
      '    multi_idx = self._index(index)\n    try:\n      return self._sequences[multi_idx.seq_idx][multi_idx.idx]',
      '    seq_idx, seq_start, seq_stop = getattr(self, "_last_hit", (0, 0, 0))\n    if 0 <= index < seq_stop:\n      multi_idx = _MergedSequenceIndex(seq_idx, index - seq_start)\n    else:\n      multi_idx = self._index(index)\n    self._last_hit = (multi_idx.seq_idx, *self._seq_idxs[multi_idx.seq_idx : multi_idx.seq_idx + 2])\n    try:\n      return self._sequences[multi_idx.seq_idx][multi_idx.idx]',
      'R-C09-14'),
    B('getitem-mixes-two-lookups', 'utils/iter_utils.py',
      '    multi_idx = self._index(index)\n    try:\n      return self._sequences[multi_idx.seq_idx][multi_idx.idx]',
      '    multi_idx = self._index(index)\n    first = self._index(0)\n    try:\n      return self._sequences[first.seq_idx][multi_idx.idx]',
      'R-C09-14'),
    OK('getitem-unpacks-the-lookup', 'utils/iter_utils.py',
       '    multi_idx = self._index(index)\n    try:\n      return self._sequences[multi_idx.seq_idx][multi_idx.idx]',
       '    where = self._index(index)\n    try:\n      return self._sequences[where.seq_idx][where.idx]'),
    B('slice-start-offset-on-every-piece', 'utils/iter_utils.py',
      '    sequences = [self._index_slice(start.seq_idx, start.idx, None)]\n    for i_seq in range(start.seq_idx + 1, stop.seq_idx):\n      sequences.append(self._index_slice(i_seq))',
      '    sequences = [\n        self._index_slice(i_seq, start.idx)\n        for i_seq in range(start.seq_idx, stop.seq_idx)\n    ]', 'R-C09-12'),
    B('negative-index-wraps-with-modulo', 'utils/iter_utils.py',
      '    index = len(self) + index if index < 0 else index', '    index = index % len(self) if index < 0 else index', 'R-C09-13'),
    OK('negative-index-operands-swapped', 'utils/iter_utils.py',
       '    index = len(self) + index if index < 0 else index', '    index = index + len(self) if index < 0 else index'),
    B('shard-start-closed-form-wrong-stride', 'chainables/io.py',
      '    start, adjusted_interval = self.start, 0\n    for i in range(shard_index + 1):\n      adjusted_interval = interval + 1 if i < remainder else interval\n      start += adjusted_interval if i < shard_index else 0',
      '    stride = interval + 1 if remainder else interval\n    start = self.start + shard_index * stride\n    adjusted_interval = interval + 1 if shard_index < remainder else interval',
      'R-C09-1'),
    OK('shard-start-closed-form-right', 'chainables/io.py',
       '    start, adjusted_interval = self.start, 0\n    for i in range(shard_index + 1):\n      adjusted_interval = interval + 1 if i < remainder else interval\n      start += adjusted_interval if i < shard_index else 0',
       '    start = self.start + shard_index * interval + min(shard_index, remainder)\n    adjusted_interval = interval + 1 if shard_index < remainder else interval'),
    B('middle-subsequence-skipped-by-previous-length', 'utils/iter_utils.py',
      '      sequences.append(self._index_slice(i_seq))\n',
      '      if self._seq_idxs[i_seq] > self._seq_idxs[i_seq - 1]:\n        sequences.append(self._index_slice(i_seq))\n', 'R-C09-12'),
    OK('middle-subsequence-skipped-when-empty', 'utils/iter_utils.py',
       '      sequences.append(self._index_slice(i_seq))\n',
       '      if self._seq_idxs[i_seq + 1] > self._seq_idxs[i_seq]:\n        sequences.append(self._index_slice(i_seq))\n'),
    B('remainder-off-by-one', _F,
      '      adjusted_interval = interval + 1 if i < remainder else interval',
      '      adjusted_interval = interval + 1 if i <= remainder else interval', 'R-C09-1'),
    B('end-ignores-remainder', _F, '        _end=start + adjusted_interval,',
      '        _end=start + interval,', 'R-C09-1'),
    B('divmod-over-full-data', _F,
      '    interval, remainder = divmod(self.end - self.start, num_shards)',
      '    interval, remainder = divmod(len(self.data), num_shards)', 'R-C09-1'),
    B('loop-one-short', _F,
      '      start += adjusted_interval if i < shard_index else 0',
      '      start += adjusted_interval if i < shard_index - 1 else 0', 'R-C09-1'),
    B('offset-added-to-end', _F, '        _end=start + adjusted_interval,',
      '        _end=start + offset + adjusted_interval,', 'R-C09-1'),
    B('replay-swapped', _F,
      '        shard_state.shard_index, shard_state.num_shards, shard_state.start_index',
      '        shard_state.num_shards, shard_state.shard_index, shard_state.start_index',
      'R-C09-2'),
    B('replay-drops-parent', _F,
      '    if shard_state.parent is not None:\n      result = self.from_state(shard_state.parent)\n    else:\n      result = SequenceDataSource(self.data, ignore_error=self.ignore_error)\n      if shard_state == ShardConfig():\n        # The state of the unsharded source itself: sharding it once more would\n        # nest every restored state one level deeper than the recorded one.\n        return result',
      '    result = SequenceDataSource(self.data, ignore_error=self.ignore_error)',
      'R-C09-2'),
    B('record-drops-parent', _F,
      '        shard_index, num_shards, offset, parent=self._shard_state\n',
      '        shard_index, num_shards, offset\n', 'R-C09-2'),
    B('len-uses-data', _F, '  def __len__(self) -> int:\n    return self.end - self.start',
      '  def __len__(self) -> int:\n    return len(self.data) - self.start', 'R-C09-3'),
    B('iterator-slice-to-data-end', _F,
      '    self._it = iter(config.data[config.start : config.end])',
      '    self._it = iter(config.data[config.start :])', 'R-C09-3'),
    B('skip-without-index', _F,
      '    while self._index % num_shards != shard_index:\n      _ = self._draw()',
      '    while self._index % num_shards != shard_index:\n      _ = next(self._it)',
      'R-C09-4'),
    B('round-robin-swapped', _F,
      '    while self._index % num_shards != shard_index:',
      '    while self._index % shard_index != num_shards:', 'R-C09-4'),
    B('revert-empty-subsequence-lookup', 'utils/iter_utils.py',
      '      # Empty sequences start at the same index, take the last one of them.\n      idx_seq = bisect.bisect_right(indices, index) - 1\n', '', 'R-C09-8'),
    B('revert-slice-normalisation', 'utils/iter_utils.py',
      '    start_index, stop_index, _ = slice_.indices(len(self))\n    if start_index >= stop_index:\n      return iter(())\n    start = self._index(start_index)\n    stop = self._index(stop_index)\n',
      '    start = self._index(slice_.start or 0)\n    stop = self._index(len(self) if slice_.stop is None else slice_.stop)\n',
      'R-C09-9'),
    B('slice-no-empty-return', 'utils/iter_utils.py',
      '    if start_index >= stop_index:\n      return iter(())\n', '', 'R-C09-9'),
    B('revert-iterable-subshard', _F,
      '    current = self._shard_state\n    shard_state = ShardConfig(\n        current.shard_index + current.num_shards * shard_index,\n        current.num_shards * num_shards,\n        current.start_index,\n    )\n    return dc.replace(self, _shard_state=shard_state)',
      '    return dc.replace(self, _shard_state=ShardConfig(shard_index, num_shards))', 'R-C09-10'),
    B('subshard-wrong-radix', _F,
      '        current.shard_index + current.num_shards * shard_index,',
      '        current.shard_index * num_shards + shard_index,', 'R-C09-10'),
    B('subshard-forgets-position', _F,
      '        current.num_shards * num_shards,\n        current.start_index,\n    )',
      '        current.num_shards * num_shards,\n    )', 'R-C09-10'),
    B('skipped-records-not-counted-for-loop', _F,
      '      while (result := next(self._it)) is _SKIPPED:\n        self._index += 1\n    except StopIteration:\n      raise',
      '      for result in self._it:\n        if result is not _SKIPPED:\n          break\n      else:\n        raise StopIteration()\n    except StopIteration:\n      raise',
      'R-C09-4'),
    B('seq-idxs-not-cumulative', 'utils/iter_utils.py',
      '    self._seq_idxs.extend(itt.accumulate(map(len, self._sequences), op.add))',
      '    self._seq_idxs.extend(map(len, self._sequences))', 'R-C09-7'),
    B('seq-idxs-seeded-wrong', 'utils/iter_utils.py', '    self._seq_idxs = [0]\n',
      '    self._seq_idxs = [1]\n', 'R-C09-7'),
    OK('seq-idxs-accumulate-default-op', 'utils/iter_utils.py',
       '    self._seq_idxs.extend(itt.accumulate(map(len, self._sequences), op.add))',
       '    self._seq_idxs.extend(itt.accumulate(len(s) for s in self._sequences))'),
    B('range-gives-up-on-clamped-size', 'utils/iter_utils.py',
      '        if self._batch_size == 1:\n          self.i += self._batch_size\n          raise',
      '        if batch_size == 1:\n          self.i += batch_size\n          raise', 'R-C09-6'),
    B('range-read-unclamped', 'utils/iter_utils.py',
      '          batch_size = min(self.i + self._batch_size, self.stop) - self.i\n', '          pass\n',
      'R-C09-6'),
    B('range-advance-full-batch', 'utils/iter_utils.py', '        self.i += batch_size',
      '        self.i += self._batch_size', 'R-C09-6'),
    B('range-reads-twice', 'utils/iter_utils.py',
      '          self._cache.append(self.data[self.i])',
      '          self._cache.append(self.data[self.i])\n          self._cache.append(self.data[self.i])',
      'R-C09-6'),
    B('shard-elides-trivial-parent', _F,
      '    shard_state = ShardConfig(\n        shard_index, num_shards, offset, parent=self._shard_state\n    )',
      '    parent = self._shard_state\n    if parent.parent is None and parent.num_shards == 1:\n      parent = None\n    shard_state = ShardConfig(shard_index, num_shards, offset, parent=parent)',
      'R-C09-2'),
    B('replay-root-drops-config', _F,
      '      result = SequenceDataSource(self.data, ignore_error=self.ignore_error)',
      '      result = SequenceDataSource(self.data)', 'R-C09-2'),
    B('replay-root-keeps-window', _F,
      '      result = SequenceDataSource(self.data, ignore_error=self.ignore_error)',
      '      result = dc.replace(self, _shard_state=ShardConfig())', 'R-C09-2'),
    OK('replay-root-via-replace', _F,
       '      result = SequenceDataSource(self.data, ignore_error=self.ignore_error)',
       '      result = dc.replace(self, _shard_state=ShardConfig(), _start=0, _end=None)'),
    OK('shard-parent-via-local', _F,
       '    shard_state = ShardConfig(\n        shard_index, num_shards, offset, parent=self._shard_state\n    )',
       '    parent = self._shard_state\n    shard_state = ShardConfig(shard_index, num_shards, offset, parent=parent)'),
    OK('range-upper-inline', 'utils/iter_utils.py',
       '          batch = list(self.data[self.i : self.i + batch_size])',
       '          upper = min(self.stop, self.i + self._batch_size)\n          batch = list(self.data[self.i : upper])'),
    OK('range-else-advance-one', 'utils/iter_utils.py',
       '        batch_size = self._batch_size\n        if self._batch_size > 1:',
       '        batch_size = 1\n        if self._batch_size > 1:'),
    OK('closed-form-shard', _F,
       '    start, adjusted_interval = self.start, 0\n    for i in range(shard_index + 1):\n      adjusted_interval = interval + 1 if i < remainder else interval\n      start += adjusted_interval if i < shard_index else 0\n',
       '    start = self.start + shard_index * interval + min(shard_index, remainder)\n    adjusted_interval = interval + (1 if shard_index < remainder else 0)\n'),
    OK('loop-with-explicit-if', _F,
       '      start += adjusted_interval if i < shard_index else 0',
       '      if i < shard_index:\n        start += adjusted_interval'),
]
